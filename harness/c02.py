"""C02: OT-SVG glyph documents render the same picture as their sources.

OTSVG.tla (grouping in input order, reordering, per-document element placement incl. defs migration, stand-in <use>
for donors that sort after their users, tidy) is model-checked for SamePicture / NoCrossGlyphRef / HrefsClosed /
DocRanges; every exported scenario class is concretised, built into a real picosvg font, the documents are projected
back to the model's vocabulary (structure) and rendered by the independent OT-SVG oracle (picture)."""
import json
import re

from lxml import etree

from . import build, common, compile_check as CC, oracle_cmp, oracle_grad as G, oracle_otsvg, oracle_svg, scenarios as S, shaper
from .common import MachineryError

ATTR_FILL = {"none": ("black", 1.0), "A": ("#FF0000", 1.0), "B": ("#0000FF", 0.5)}
CLASS_SHAPES = ["F", "T", "poly:77", "blob:12"]


def concretise(sc, r):
    """OTSVG.tla scenario -> (sources in INPUT order, glyph specs); names sort by rank."""
    glyphs = []
    for g in sc["src"]:
        cps = (0x1F600 + g["rank"],)
        specs = []
        for L in g["layers"]:
            cls = CLASS_SHAPES[(L["c"] - 1) % len(CLASS_SHAPES)]
            m = S.random_isometry(r, 100.0, r.uniform(5, 7))
            col, op = ATTR_FILL[L["a"]]
            specs.append(S.LayerSpec(cls, m, S.FillSpec("solid", color=col, index=None), op))
        glyphs.append((cps, (0, 0, 100, 100), specs))
    return glyphs


def project_docs(font, srcs):
    """Real SVG table -> the model's vocabulary: per source glyph (input index) the sequence of items placed in its
    <g id=glyphN>, the set of <defs> paths, and the list of documents (lists of input indices)."""
    name_to_idx = {s.glyph_name: i + 1 for i, s in enumerate(srcs)}

    def layer_name(idstr):
        base, _, nth = idstr.rpartition(".")
        return [name_to_idx.get(base, 0), int(nth) + 1] if nth.isdigit() else None

    order = font.getGlyphOrder()
    body, defs, docs = {}, [], []
    for text, start, end in oracle_otsvg.svg_records(font):
        root = etree.fromstring(text.encode())
        members = []
        for el in root:
            t = etree.QName(el).localname
            if t == "defs":
                for d in el:
                    if etree.QName(d).localname == "path":
                        defs.append(layer_name(d.attrib["id"]))
            elif t == "g" and el.attrib.get("id", "").startswith("glyph"):
                gid = int(el.attrib["id"][5:])
                gi = name_to_idx.get(order[gid], 0)
                members.append(gi)
                items = []

                def walk(e):
                    for k, ch in enumerate(e):
                        tt = etree.QName(ch).localname
                        if tt == "g":
                            walk(ch)
                        elif tt == "path":
                            items.append({"t": "path", "ref": [gi, len(items) + 1]})
                        elif tt == "use":
                            items.append({"t": "use", "ref": layer_name(ch.attrib[oracle_otsvg.XLINK_HREF].lstrip("#"))})

                walk(el)
                body[gi] = items
        docs.append(members)
    return body, sorted(d for d in defs if d), docs


def project_gids(font, srcs):
    """Glyph ids as the model counts them: position among the colour glyphs in the font's glyph order (1-based), per
    source input index; and the document records as [min, max] in the same numbering."""
    order = font.getGlyphOrder()
    names = {s.glyph_name: i + 1 for i, s in enumerate(srcs)}
    colour_pos = [g for g in order if g in names]
    gid = {names[g]: k + 1 for k, g in enumerate(colour_pos)}
    first = min(order.index(g) for g in colour_pos)
    contiguous = [order.index(g) for g in colour_pos] == list(range(first, first + len(colour_pos)))
    ranges = [[start - first + 1, end - first + 1] for _, start, end in oracle_otsvg.svg_records(font)]
    return gid, ranges, contiguous


def structural_checks(chk, font, ctx, replay):
    """C07-style constraints on the real SVG table (also used by C07)."""
    recs = oracle_otsvg.svg_records(font)
    prev_end = -1
    nglyphs = len(font.getGlyphOrder())
    bad = 0
    for text, start, end in recs:
        if start > end or start <= prev_end or end >= nglyphs:
            chk.violation(f"{ctx}: SVG document range {start}..{end} not sorted/disjoint/in range (previous end {prev_end})", replay)
            bad += 1
        prev_end = max(prev_end, end)
        doc = oracle_otsvg.Doc(text)
        if doc.dup_ids:
            chk.violation(f"{ctx}: duplicate ids {doc.dup_ids[:3]} in SVG document {start}..{end}", replay)
            bad += 1
        glyph_els = {e.attrib["id"]: e for e in doc.root.iter() if isinstance(e.tag, str) and re.fullmatch(r"glyph\d+", e.attrib.get("id", ""))}
        for gid_s in glyph_els:
            if not (start <= int(gid_s[5:]) <= end):
                chk.violation(f"{ctx}: element {gid_s} in document for glyph ids {start}..{end}", replay)
                bad += 1
        for e in doc.root.iter():
            if not isinstance(e.tag, str):
                continue
            ref = e.attrib.get(oracle_otsvg.XLINK_HREF) or (e.attrib.get("href") if etree.QName(e).localname == "use" else None)
            if ref:
                tgt = doc.by_id.get(ref.lstrip("#"))
                if tgt is None:
                    chk.violation(f"{ctx}: href {ref} does not resolve inside its document", replay)
                    bad += 1
                    continue
                # no glyph element may reference content inside ANOTHER glyph element
                def owner(x):
                    while x is not None:
                        if re.fullmatch(r"glyph\d+", x.attrib.get("id", "")):
                            return x.attrib["id"]
                        x = x.getparent()
                    return None

                o_use, o_tgt = owner(e), owner(tgt)
                if o_tgt is not None and o_use != o_tgt:
                    chk.violation(f"{ctx}: {o_use} references {ref} which lives inside {o_tgt}", replay)
                    bad += 1
            fill = e.attrib.get("fill", "")
            if fill.startswith("url("):
                gid = re.match(r"url\(\s*#([^)]+)\)", fill).group(1)
                if gid not in doc.by_id:
                    chk.violation(f"{ctx}: paint {fill} does not resolve inside its document", replay)
                    bad += 1
    return bad


def check_pictures(chk, font, cfg, srcs, glyphs, tol, ctx, replay, raw=False, deltas=None):
    oc = CC.oracle_cfg(cfg)
    cache = {}
    for gi, src in enumerate(srcs):
        reached = shaper.shape(font, src.cps)
        if reached is None or len(reached) != 1:
            chk.violation(f"{ctx}: codepoints {src.cps} shape to {reached}", replay)
            continue
        gid = font.getGlyphID(reached[0])
        try:
            got, why = oracle_otsvg.glyph_layers(font, gid, cache)
        except ValueError as e:   # the document cannot be rendered: dangling href / paint, unsupported element
            got, why = None, f"document not renderable: {e}"
        if got is None:
            chk.violation(f"{ctx}: glyph {reached[0]} (id {gid}): {why}", replay)
            continue
        if raw:
            doc = oracle_otsvg.Doc(src.svg_text)
            vb = oracle_svg.view_box(doc.root)
            A = oracle_svg.viewbox_to_font(vb, oc)
            exp = doc.render(doc.root, G.mul(oracle_otsvg.FLIP, A))
            exp = [_as_expected(p) for p in exp]
        else:
            exp, adv, A = oracle_svg.expected_layers(src.svg_text, oc)
        d = deltas[gi] if deltas is not None else 3.5
        for p in oracle_cmp.compare(exp, got, d, grid=16, ctx=f"{ctx} glyph {gi}: "):
            if "too small to judge" in p:
                chk.notes["too_small_to_judge"] = chk.notes.get("too_small_to_judge", 0) + 1
            else:
                chk.violation(p, replay)


class _Exp:
    pass


def _as_expected(prod):
    e = _Exp()
    e.shape = prod.shapes[0]
    e.fill = prod.fill
    e.groups = prod.groups
    return e


def replay_model(chk, recs, n):
    r0 = common.rng("C02", "model")
    recs = [x for x in recs if x["phase"] == "done"]
    r0.shuffle(recs)
    # prefer scenarios with a donor that sorts after its user, defs migration, and multi-glyph documents
    def interesting(sc):
        return (any(len(d) > 1 for d in sc["docs"]), len(sc["defs"]) > 0, len(sc["src"]) > 1)

    recs.sort(key=interesting, reverse=True)
    drift = 0
    for k, sc in enumerate(recs[:n]):
        r = common.rng("C02", "conc", k)
        glyphs = concretise(sc, r)
        fmt = ["picosvg", "picosvg", "picosvgz"][k % 3]
        cfgkw = dict(color_format=fmt, keep_glyph_names=True, clip_to_viewbox=False, pretty_print=(k % 4 == 1),
                     **CC.VARIANTS[k % 5 if k % 5 != 2 else 0])
        cfg = build.base_config(**cfgkw)
        srcs = CC.sources_from(glyphs)
        replay = {"kind": "otsvg-model-scenario", "scenario": sc, "config": {a: str(b) for a, b in cfgkw.items()},
                  "svgs": [s.svg_text for s in srcs], "input_order": [s.filename for s in srcs]}
        chk.case(key=json.dumps(sc["src"], sort_keys=True), nontrivial=any(len(d) > 1 for d in sc["docs"]) or len(sc["defs"]) > 0)
        chk.traces_validated += 1
        if k < 2:
            chk.sample({"scenario": sc["src"], "model_docs": sc["docs"], "model_body": sc["body"], "model_defs": sc["defs"]})
        try:
            _, font = build.build(cfg, srcs, already_pico=True)
        except Exception as e:
            chk.violation(f"valid sources fail to build ({fmt}): {type(e).__name__}: {str(e)[:200]}", replay)
            continue
        structural_checks(chk, font, f"model scenario {k}", replay)
        check_pictures(chk, font, cfg, srcs, glyphs, 0.1, f"model scenario {k} [{fmt}]", replay,
                       deltas=CC.layer_deltas(glyphs, cfg, 0.1))
        body, defs, docs = project_docs(font, srcs)
        m_body = {i + 1: [{"t": it["t"], "ref": it["ref"]} for it in b] for i, b in enumerate(sc["body"])}
        # glyph-id bookkeeping (Reshuffle): where each colour glyph ends up, and the documents' records
        gid, ranges, contiguous = project_gids(font, srcs)
        m_gid = {i + 1: g for i, g in enumerate(sc["gid"])}
        m_ranges = [[min(m_gid[g] for g in d), max(m_gid[g] for g in d)] for d in sc["docs"]]
        if body != m_body or sorted(defs) != sorted(sc["defs"]) or docs != sc["docs"] or gid != m_gid or ranges != m_ranges or not contiguous:
            drift += 1
            if drift <= 3:
                chk.notes.setdefault("structure_drift_samples", []).append(
                    {"real": {"body": body, "defs": defs, "docs": docs, "gid": gid, "ranges": ranges},
                     "model": {"body": m_body, "defs": sc["defs"], "docs": sc["docs"], "gid": m_gid, "ranges": m_ranges}})
    chk.notes["structure_drift"] = drift


RAW_SVGS = [
    '<svg xmlns="http://www.w3.org/2000/svg" viewBox="0 0 64 64" width="64" height="64"><rect x="8" y="8" width="20" height="30" fill="#1E88E5"/>'
    '<circle cx="40" cy="40" r="12" fill="#E53935" opacity="0.5"/></svg>',
    '<svg xmlns="http://www.w3.org/2000/svg" xmlns:xlink="http://www.w3.org/1999/xlink" viewBox="10 10 120 60">'
    '<defs><path id="p" d="M0,0 L20,0 L10,15 Z"/></defs><use xlink:href="#p" x="20" y="20" fill="#43A047"/>'
    '<g transform="translate(60 20) scale(1.5)" opacity="0.8"><use xlink:href="#p" fill="#FB8C00"/><ellipse cx="20" cy="10" rx="8" ry="4"/></g></svg>',
]


def random_formats(chk, n):
    for k in range(n):
        r = common.rng("C02", "random", k)
        fmt = r.choice(["picosvg", "picosvgz", "untouchedsvg", "untouchedsvgz"])
        raw = fmt.startswith("untouched")
        glyphs = S.random_scenario(r, n_glyphs=r.randrange(1, 5), reuse_bias=0.6, allow_special=not raw)
        variant = dict(r.choice(CC.VARIANTS))
        variant.pop("clipbox_quantization", None)
        tol = r.choice([0.1, 0.1, 0.5, -1.0])
        cfgkw = dict(color_format=fmt, keep_glyph_names=r.random() < 0.5, reuse_tolerance=tol, clip_to_viewbox=False,
                     pretty_print=r.random() < 0.3, **variant)
        cfg = build.base_config(**cfgkw)
        if raw:
            srcs = [build.Src(S.filename_for(cps), S.svg_document(specs, vb)) for cps, vb, specs in glyphs]
            if k % 3 == 0:
                srcs.append(build.Src("emoji_u1f6f0.svg", RAW_SVGS[k % len(RAW_SVGS)]))
        else:
            srcs = CC.sources_from(glyphs)
        r.shuffle(srcs)  # input order independent of name order
        # glyph specs follow srcs order for the tolerance computation
        replay = {"kind": "otsvg-random", "seed": [chk.seed, k], "config": {a: str(b) for a, b in cfgkw.items()},
                  "svgs": [s.svg_text for s in srcs], "input_order": [s.filename for s in srcs]}
        chk.case(key=("random", k), nontrivial=len(srcs) >= 2)
        chk.traces_validated += 1
        try:
            _, font = build.build(cfg, srcs, already_pico=not raw)
        except Exception as e:
            chk.violation(f"valid sources fail to build ({fmt}): {type(e).__name__}: {str(e)[:200]}", replay)
            continue
        structural_checks(chk, font, f"random scenario {k}", replay)
        by_name = {S.filename_for(cps): (cps, vb, specs) for cps, vb, specs in glyphs}
        ordered = [by_name[s.filename] for s in srcs if s.filename in by_name]
        deltas_all = CC.layer_deltas(ordered, cfg, tol) if not raw else None
        deltas = None
        if deltas_all is not None:
            it = iter(deltas_all)
            deltas = [next(it) if s.filename in by_name else 3.5 for s in srcs]
        check_pictures(chk, font, cfg, srcs, glyphs, tol, f"random scenario {k} [{fmt}]", replay, raw=raw, deltas=deltas)


def replay_gradient_model(chk):
    """OTSVGGrad.tla: every state (map font->viewBox x residual wrapper x circle) replayed into the real svg._apply_paint;
    the ellipse the emitted <radialGradient> paints (centre and L L^T) must be the exact one."""
    from lxml import etree as ET

    res = common.run_tlc("OTSVGGrad", "OTSVGGrad.cfg", timeout=600)
    chk.add_tlc(res, "OTSVGGrad (exhaustive: 6 maps x 3 wrappers x 2 circles)")
    if not res.ok:
        chk.tlc_violation(res, "OTSVGGrad")
    for neg in ("OTSVGGrad_pinned.cfg", "OTSVGGrad_pinned_ellipse.cfg"):
        nres = common.run_tlc("OTSVGGrad", neg, timeout=600, coverage=False)
        chk.add_tlc(nres, f"{neg} (the pinned tree's mapping: expected to be violated)")
        if nres.ok:
            raise MachineryError(f"{neg} holds: the gradient invariants are vacuous")
    common.setup_repo_imports()
    from nanoemoji import svg as nsvg
    from nanoemoji.paint import ColorStop, Extend, PaintRadialGradient, PaintTransform
    from nanoemoji.colors import Color
    from picosvg.geometric_types import Point
    from picosvg.svg_transform import Affine2D

    def fl(x):
        return x[0] / x[1]

    def gram(a, r):
        A, B, C, D = a[0] * r, a[1] * r, a[2] * r, a[3] * r
        return (A * A + C * C, A * B + C * D, B * B + D * D)

    for rec in res.records:
        M = tuple(fl(x) for x in rec["M"])
        W = tuple(fl(x) for x in rec["W"])
        c = (fl(rec["c"][0]), fl(rec["c"][1]))
        r = fl(rec["r"])
        stops = (ColorStop(0.0, Color.fromstring("red")), ColorStop(1.0, Color.fromstring("blue")))
        paint = PaintRadialGradient(stops=stops, extend=Extend.PAD, c0=Point(*c), c1=Point(*c), r0=0.0, r1=r)
        if W != (1, 0, 0, 1, 0, 0):
            paint = PaintTransform(transform=W, paint=paint)
        defs = ET.Element("defs")
        el = ET.Element("path")
        replay = {"kind": "gradient-model", "state": rec}
        chk.case(key=("grad", json.dumps(rec, sort_keys=True)), nontrivial=True)
        chk.traces_validated += 1
        try:
            nsvg._apply_paint(defs, el, paint, Affine2D(*M), None)
        except Exception as e:
            chk.violation(f"a valid radial gradient is refused ({type(e).__name__}: {str(e)[:120]}) for the font->viewBox map {M}", replay)
            continue
        g = defs[0]
        cx, cy, rr = float(g.attrib["cx"]), float(g.attrib["cy"]), float(g.attrib["r"])
        gt = tuple(Affine2D.fromstring(g.attrib["gradientTransform"])) if "gradientTransform" in g.attrib else (1, 0, 0, 1, 0, 0)
        if rr <= 0:
            chk.violation(f"radial gradient written with radius {rr} for the font->viewBox map {M}", replay)
            continue
        # exact: wrapper first, then the map
        ex = tuple(Affine2D.compose_ltr((Affine2D(*W), Affine2D(*M))))
        want_c = (ex[0] * c[0] + ex[2] * c[1] + ex[4], ex[1] * c[0] + ex[3] * c[1] + ex[5])
        got_c = (gt[0] * cx + gt[2] * cy + gt[4], gt[1] * cx + gt[3] * cy + gt[5])
        gw, gg = gram(ex, r), gram(gt, rr)
        scale = max(abs(v) for v in gw) or 1.0
        if max(abs(a - b) for a, b in zip(want_c, got_c)) > 0.02 * max(1.0, r * max(abs(ex[0]), abs(ex[3]))) or \
                max(abs(a - b) for a, b in zip(gw, gg)) > 0.02 * scale:
            chk.violation(f"radial gradient (centre {c}, r {r}, wrapper {W}) under the map {M}: painted ellipse centre {tuple(round(v, 2) for v in got_c)} "
                          f"/ shape {tuple(round(v, 3) for v in gg)}, exact {tuple(round(v, 2) for v in want_c)} / {tuple(round(v, 3) for v in gw)}", replay)


def transform_fill_grid(chk):
    """user transform kinds x gradient kinds, as picosvg documents (the glyph's <g> carries the transform, gradients are
    written in viewBox coordinates with a gradientTransform)."""
    from picosvg.svg_transform import Affine2D

    for k, (label, t, glyphs) in enumerate(S.transform_fill_grid()):
        fmt = "picosvg" if k % 4 else "picosvgz"
        cfgkw = dict(color_format=fmt, keep_glyph_names=True, reuse_tolerance=0.1, clip_to_viewbox=False, transform=t)
        cfg = build.base_config(**cfgkw)
        srcs = CC.sources_from(glyphs)
        replay = {"kind": "transform-x-fill", "label": label, "config": {a: str(b) for a, b in cfgkw.items()}, "svgs": [x.svg_text for x in srcs]}
        chk.case(key=("grid", label), nontrivial=True)
        chk.traces_validated += 1
        try:
            _, font = build.build(cfg, srcs, already_pico=True)
        except Exception as e:
            chk.violation(f"valid source fails to build with user transform {t} ({fmt}): {type(e).__name__}: {str(e)[:200]}", replay)
            continue
        structural_checks(chk, font, f"grid {label}", replay)
        check_pictures(chk, font, cfg, srcs, glyphs, 0.1, f"grid [{label}] [{fmt}]", replay, deltas=CC.layer_deltas(glyphs, cfg, 0.1))


def nested_groups(chk):
    """Nested <g opacity> groups ending in every way relative to their parents, as OT-SVG documents."""
    for k, name in enumerate(sorted(S.NESTED_GROUP_SHAPES)):
        for rep in range(2):
            r = common.rng("C02", "nested", name, rep)
            glyphs = S.nested_group_scenario(r, name)
            fmt = ["picosvg", "picosvgz", "untouchedsvg"][(k + rep) % 3]
            tol = 0.1 if rep == 0 else -1.0
            cfgkw = dict(color_format=fmt, keep_glyph_names=True, reuse_tolerance=tol, clip_to_viewbox=False)
            cfg = build.base_config(**cfgkw)
            srcs = CC.sources_from(glyphs)
            replay = {"kind": "nested-groups", "shape": name, "config": {a: str(b) for a, b in cfgkw.items()}, "svgs": [x.svg_text for x in srcs]}
            chk.case(key=("nested", name, rep), nontrivial=True)
            chk.traces_validated += 1
            try:
                _, font = build.build(cfg, srcs, already_pico=True)
            except Exception as e:
                chk.violation(f"valid source with nested opacity groups fails to build ({fmt}): {type(e).__name__}: {str(e)[:200]}", replay)
                continue
            structural_checks(chk, font, f"nested groups {name}", replay)
            check_pictures(chk, font, cfg, srcs, glyphs, max(tol, 0), f"nested groups [{name}] [{fmt}]", replay,
                           deltas=CC.layer_deltas(glyphs, cfg, max(tol, 0)))


def reuse_fill_grid(chk):
    """reuse transform kinds x fill kinds as picosvg documents (<use> with x / y / transform, gradients counter-transformed
    for the copy)."""
    for k, (label, glyphs) in enumerate(S.reuse_fill_grid()):
        fmt = "picosvg" if k % 5 else "picosvgz"
        cfgkw = dict(color_format=fmt, keep_glyph_names=True, reuse_tolerance=0.1, clip_to_viewbox=False, **S.LATTICE_CONFIG)
        cfg = build.base_config(**cfgkw)
        srcs = CC.sources_from(glyphs)
        replay = {"kind": "reuse-x-fill", "label": label, "config": {a: str(b) for a, b in cfgkw.items()}, "svgs": [x.svg_text for x in srcs]}
        chk.case(key=("reuse-grid", label), nontrivial=True)
        chk.traces_validated += 1
        try:
            _, font = build.build(cfg, srcs, already_pico=True)
        except Exception as e:
            chk.violation(f"valid sources fail to build [{label}] ({fmt}): {type(e).__name__}: {str(e)[:200]}", replay)
            continue
        structural_checks(chk, font, f"reuse grid {label}", replay)
        check_pictures(chk, font, cfg, srcs, glyphs, 0.1, f"reuse grid [{label}] [{fmt}]", replay, deltas=CC.layer_deltas(glyphs, cfg, 0.1))


def stop_alpha_grid(chk):
    """colour spelling (own alpha or not) x stop-opacity x shape opacity as OT-SVG documents (guards fix 4df48a8)."""
    for k, (label, glyphs) in enumerate(S.stop_alpha_grid()):
        fmt = "picosvg" if k % 3 else "picosvgz"
        cfgkw = dict(color_format=fmt, keep_glyph_names=True, clip_to_viewbox=False, reuse_tolerance=0.1)
        cfg = build.base_config(**cfgkw)
        srcs = CC.sources_from(glyphs)
        replay = {"kind": "otsvg-stop-alpha", "label": label, "config": {a: str(b) for a, b in cfgkw.items()}, "svgs": [x.svg_text for x in srcs]}
        chk.case(key=("stop-alpha", label), nontrivial=True)
        chk.traces_validated += 1
        try:
            _, font = build.build(cfg, srcs, already_pico=True)
        except Exception as e:
            chk.violation(f"valid sources fail to build [{label}] ({fmt}): {type(e).__name__}: {str(e)[:200]}", replay)
            continue
        structural_checks(chk, font, f"alpha grid {label}", replay)
        check_pictures(chk, font, cfg, srcs, glyphs, 0.1, f"alpha grid [{label}] [{fmt}]", replay, deltas=CC.layer_deltas(glyphs, cfg, 0.1))


def shared_gradient_documents(chk, n):
    for k in range(n):
        r = common.rng("C02", "sg", k)
        glyphs = S.shared_gradient_docs_scenario(r)
        fmt = r.choice(["picosvg", "picosvgz"])
        cfgkw = dict(color_format=fmt, keep_glyph_names=True, clip_to_viewbox=False, reuse_tolerance=0.1)
        cfg = build.base_config(**cfgkw)
        srcs = CC.sources_from(glyphs)
        if k % 2:
            srcs = list(reversed(srcs))
            glyphs = list(reversed(glyphs))
        replay = {"kind": "otsvg-shared-gradients", "seed": [chk.seed, k], "config": {a: str(b) for a, b in cfgkw.items()},
                  "svgs": [s.svg_text for s in srcs], "input_order": [s.filename for s in srcs]}
        chk.case(key=("shared-gradient", k), nontrivial=True)
        chk.traces_validated += 1
        try:
            _, font = build.build(cfg, srcs, already_pico=True)
        except Exception as e:
            chk.violation(f"valid sources fail to build ({fmt}): {type(e).__name__}: {str(e)[:200]}", replay)
            continue
        structural_checks(chk, font, f"shared-gradient scenario {k}", replay)
        check_pictures(chk, font, cfg, srcs, glyphs, 0.1, f"shared-gradient scenario {k} [{fmt}]", replay,
                       deltas=CC.layer_deltas(glyphs, cfg, 0.1))


def run(chk):
    quick = chk.tier == "quick"
    chk.rule = (
        "OTSVG.tla: all inputs of <=2 (thorough 3) glyphs x <=3 layers (<=4 total) over 2 shape classes x 3 paint "
        "attribute sets x every name order, model-checked; sampled scenarios (preferring multi-glyph documents, defs "
        "migration, donor-after-user) built into real picosvg/picosvgz fonts, documents projected to the model's "
        "vocabulary and rendered by the independent OT-SVG oracle; random scenarios over picosvg(z)/untouchedsvg(z) "
        "with shuffled input order.  Non-trivial = a multi-glyph document or a <defs> migration; distinct by scenario."
    )
    # trusted base first: the OT-SVG oracle must agree with an independent renderer on real documents
    from . import oracle_selftest

    chk.notes["oracle_selftest_vs_resvg"] = oracle_selftest.otsvg_side(10 if quick else 80)
    res = common.run_tlc("OTSVG", "OTSVG_small.cfg" if quick else "OTSVG_full.cfg", timeout=3000)
    chk.add_tlc(res, "OTSVG (exhaustive)")
    if not res.ok:
        chk.tlc_violation(res, "OTSVG")
    if res.vacuous_actions():
        raise MachineryError(f"vacuous actions: {res.vacuous_actions()}")
    # negative configuration: re-appending only the groups that really share must break the glyph-id bookkeeping
    neg = common.run_tlc("OTSVG", "OTSVG_nomove.cfg", timeout=900, coverage=False)
    chk.add_tlc(neg, "OTSVG_nomove (MoveSingletons = FALSE: expected to violate GidIsPosition / DocRanges)")
    if neg.ok:
        raise MachineryError("OTSVG_nomove.cfg holds: GidIsPosition / DocRanges are vacuous")
    if len(res.records) < 500:
        raise MachineryError("too few OTSVG scenarios")
    # the grouping into documents rests on the union-find: its own model, replayed call by call
    from . import ds_check

    bad, _ = ds_check.run(chk)
    for b in bad[:3]:
        chk.violation("glyphs that share a shape must land in one document, and the union-find that groups them answers "
                      "wrongly: " + b, {"kind": "disjoint-set", "what": b})
    chk.exhaustive = True
    # every grouping the real builds below perform is recorded (harness-side subclass) and validated against
    # DisjointSet.tla afterwards (B2)
    from . import ds_trace

    with ds_trace.Recorder() as rec:
        replay_model(chk, res.records, 100 if quick else 3000)
        random_formats(chk, 50 if quick else 1500)
        transform_fill_grid(chk)
        nested_groups(chk)
        from . import painted_check

        painted_check.end_to_end(chk, ["picosvg", "picosvgz", "untouchedsvg"], lambda c, font, cfg, srcs, ctx, replay: (
            structural_checks(c, font, ctx, replay), check_pictures(c, font, cfg, srcs, None, 0.1, ctx, replay,
                                                                    raw=cfg.color_format.startswith("untouched"))))
        reuse_fill_grid(chk)
        replay_gradient_model(chk)
        shared_gradient_documents(chk, 16 if quick else 400)
        stop_alpha_grid(chk)
        from . import gradcache_check

        gradcache_check.run(chk, lambda c, font, cfg, srcs, glyphs, ctx, replay: (
            structural_checks(c, font, ctx, replay),
            check_pictures(c, font, cfg, srcs, glyphs, 0.1, ctx, replay, deltas=CC.layer_deltas(glyphs, cfg, 0.1))),
            24 if quick else 400)
    problems, unions = ds_trace.validate(chk, rec.traces)
    if unions == 0:
        raise MachineryError("no recorded grouping contains a union (vacuous)")
    for tr, what in problems[:3]:
        chk.violation("the grouping of glyphs into OT-SVG documents is not a behaviour of DisjointSet.tla: " + what,
                      {"kind": "disjoint-set-trace", "trace": tr})
    chk.assumptions += ["OT-SVG/SVG 1.1 semantics as implemented by harness/oracle_otsvg.py (g, path, use, defs, basic "
                        "shapes, fill inheritance, opacity, gradients)", "picosvg reuses isometric copies (assumption of the model; "
                        "structure drift is reported, the picture decides)"]


def replay(path):
    print(open(path).read()[:8000])
    return 0
