"""C15: the palette honours explicit indices and resolves every colour.

Model: spec/Palette.tla (PlusCal transcription of colors.uniq_sort_cpal_colors + declarative Good),
       spec/PaletteUse.tla (how glyph colours become palette entries + (index, alpha) per paint).
Binding B1: every terminal state TLC exports (input set, outcome, palette) is replayed into the real
function; PaletteUse scenarios are compiled to real COLRv0/COLRv1 fonts and read back from the binary.
"""
import itertools
import json

from . import common
from .common import MachineryError

BLACK_V = -1


# ------------------------------------------------------------------ concretisation
def _concretise_values(nvals, r):
    """nvals distinct RGBA tuples in ascending tuple order; sometimes includes real black."""
    vals = set()
    mode = r.randrange(4)
    while len(vals) < nvals:
        if mode == 0:  # differ only in alpha
            vals.add((10, 20, 30, r.choice([0.1, 0.25, 0.5, 0.75, 1.0])))
        elif mode == 1:  # include black itself and a translucent black
            vals.add(r.choice([(0, 0, 0, 1.0), (0, 0, 0, 0.5), (0, 0, 1, 1.0), (255, 255, 255, 1.0)]))
        else:
            vals.add((r.randrange(256), r.randrange(256), r.randrange(256), r.choice([1.0, 1.0, 0.5, 0.2])))
    return sorted(vals)


def _mk(Color, vals, c):
    if c["v"] == BLACK_V:
        return Color(0, 0, 0, 1.0)
    rr, g, b, a = vals[c["v"]]
    return Color(rr, g, b, a, None if c["idx"] < 0 else c["idx"])


def _good_any_order(inp, out, black):
    """The property text, evaluated on real Color objects (mirrors GoodAnyOrder in Palette.tla)."""
    S = set(inp) or {black}
    idxd = {c.palette_index: c for c in S if c.palette_index is not None}
    n = max(len(S), max(idxd, default=-1) + 1)
    if len(out) != n or n < 1:
        return f"length {len(out)} != {n}"
    for i, c in idxd.items():
        if out[i] != c:
            return f"index {i} holds {out[i]} not {c}"
    free = [k for k in range(n) if k not in idxd]
    un = {c for c in S if c.palette_index is None}
    if set(out[k] for k in free[: len(un)]) != un:
        return "unindexed colours do not fill the lowest free slots"
    for k in free[len(un):]:
        if out[k] != black:
            return f"gap {k} is {out[k]}, not black"
    return None


def _replay_palette(chk, records, k_conc):
    from nanoemoji.colors import Color, uniq_sort_cpal_colors

    black = Color(0, 0, 0, 1.0)
    drift = 0
    for n, rec in enumerate(records):
        for k in range(k_conc):
            r = common.rng("c15", n, k)
            vals = _concretise_values(3, r)
            inp = [_mk(Color, vals, c) for c in rec["in"]]
            order = list(inp)
            r.shuffle(order)
            expect_err = rec["outcome"] == "ValueError"
            try:
                got = uniq_sort_cpal_colors(iter(order))
                err = None
            except ValueError as e:
                got, err = None, ("ValueError", str(e))
            except Exception as e:  # IndexError / AssertionError are what the model excludes
                got, err = None, (type(e).__name__, str(e))
            chk.case(key=("pal", n), nontrivial=len(rec["in"]) >= 2)
            replay = {"kind": "palette", "input": [repr(c) for c in order], "model": rec}
            if expect_err:
                if err is None or err[0] != "ValueError":
                    chk.violation(f"two colours share a palette index but result was {got if err is None else err}", replay)
                continue
            if err is not None:
                chk.violation(f"valid colour set raised {err[0]}: {err[1]}", replay)
                continue
            want = [_mk(Color, vals, c) for c in rec["out"]]
            if got == want:
                continue
            # not what the model's algorithm produces: is the *property* still satisfied?
            why = _good_any_order(inp, got, black)
            if why is None:
                rev = uniq_sort_cpal_colors(reversed(order))
                if rev != got:
                    why = "result depends on iteration order of the input"
            if why is None:
                drift += 1
                chk.notes.setdefault("model_drift", []).append(
                    {"input": [repr(c) for c in order], "got": [repr(c) for c in got], "model": [repr(c) for c in want]}
                ) if drift <= 5 else None
            else:
                chk.violation(f"palette violates C15: {why}", replay)
    chk.notes["model_drift_count"] = drift


# ------------------------------------------------------------------ font level (PaletteUse)
_RGB = [(200, 30, 40), (20, 180, 60)]
_ALPHA = {4: 1.0, 2: 0.25}   # 0.25 * 255 = 63.75: rounding (64) and truncation (63) differ, no tie


class _OutOfRange:
    """a paint pointing past the end of the palette: reads as a colour no source has (reported by the comparison)"""
    red, green, blue, alpha = -1, -1, -1, -1


def _svg_for(colors, as_stops=False):
    """One rect per colour, z-order = list order.  colour = {v, a, idx, cur}.  as_stops: the colours are the stops of one
    linear gradient instead (palette variables and opacity are legal on <stop> too)."""
    if as_stops:
        stops = []
        for i, c in enumerate(colors):
            rgb = "currentColor" if c["cur"] else "#%02X%02X%02X" % _RGB[c["v"]]
            col = rgb if c["idx"] < 0 else f"var(--color{c['idx']}, {rgb})"
            op = "" if c["a"] == 4 else f' stop-opacity="{_ALPHA[c["a"]]}"'
            stops.append(f'<stop offset="{i / (len(colors) - 1):.4f}" stop-color="{col}"{op}/>')
        return ('<svg xmlns="http://www.w3.org/2000/svg" viewBox="0 0 100 100"><defs><linearGradient id="g" x1="10" y1="10" x2="90" y2="10" '
                f'gradientUnits="userSpaceOnUse">{"".join(stops)}</linearGradient></defs><path d="M10,10 L90,10 L90,60 L10,60 Z" fill="url(#g)"/></svg>')
    parts = ['<svg xmlns="http://www.w3.org/2000/svg" viewBox="0 0 100 100">']
    for i, c in enumerate(colors):
        if c["cur"]:
            fill = "currentColor" if c["idx"] < 0 else f"var(--color{c['idx']}, currentColor)"
        else:
            rgb = "#%02X%02X%02X" % _RGB[c["v"]]
            fill = rgb if c["idx"] < 0 else f"var(--color{c['idx']}, {rgb})"
        op = "" if c["a"] == 4 else f' opacity="{_ALPHA[c["a"]]}"'
        x = 5 + 11 * i
        parts.append(f'<path d="M{x},{x} L{x + 10},{x} L{x + 10},{x + 30} L{x},{x + 30} Z" fill="{fill}"{op}/>')
    parts.append("</svg>")
    return "\n".join(parts)


def _read_back(font, version, gname, ncolors):
    """[(rgb|None for foreground, alpha, palette index)] per layer in z-order, from the binary."""
    cpal = font["CPAL"].palettes[0]
    colr = font["COLR"]
    out = []
    if version == 0:
        for layer in colr.ColorLayers[gname]:
            if layer.colorID == 0xFFFF:
                out.append((None, 1.0, 0xFFFF))
            else:
                c = cpal[layer.colorID] if layer.colorID < len(cpal) else _OutOfRange()
                out.append(((c.red, c.green, c.blue), round(c.alpha / 255, 3), layer.colorID, c.alpha))
    else:
        t = colr.table
        rec = [r for r in t.BaseGlyphList.BaseGlyphPaintRecord if r.BaseGlyph == gname][0]
        p = rec.Paint
        if p.Format == 10:   # a single layer is stored without a PaintColrLayers wrapper
            layers = [p]
        else:
            assert p.Format == 1, p.Format
            layers = t.LayerList.Paint[p.FirstLayerIndex: p.FirstLayerIndex + p.NumLayers]
        for lp in layers:
            assert lp.Format == 10, lp.Format  # PaintGlyph
            s = lp.Paint
            assert s.Format == 2, s.Format
            if s.PaletteIndex == 0xFFFF:
                out.append((None, round(s.Alpha, 3), 0xFFFF))
            else:
                c = cpal[s.PaletteIndex] if s.PaletteIndex < len(cpal) else _OutOfRange()
                out.append(((c.red, c.green, c.blue), round(s.Alpha, 3), s.PaletteIndex, c.alpha))
    return out


def _read_back_stops(font, gname):
    """[(rgb, alpha, palette index, cpal alpha byte)] per colour stop in offset order (COLRv1, one gradient layer)."""
    cpal = font["CPAL"].palettes[0]
    t = font["COLR"].table
    p = [r for r in t.BaseGlyphList.BaseGlyphPaintRecord if r.BaseGlyph == gname][0].Paint
    if p.Format == 1:
        p = t.LayerList.Paint[p.FirstLayerIndex]
    g = p.Paint
    while g.Format in (12, 14, 16, 18, 20, 22):   # a transform wrapper
        g = g.Paint
    if g.Format != 4:
        return None
    out = []
    for st in sorted(g.ColorLine.ColorStop, key=lambda x: x.StopOffset):
        c = cpal[st.PaletteIndex] if st.PaletteIndex < len(cpal) else _OutOfRange()
        out.append(((c.red, c.green, c.blue), round(st.Alpha, 3), st.PaletteIndex, c.alpha))
    return out


def _replay_fonts(chk, records, limit):
    from . import build

    r = common.rng("c15-fonts")
    recs = list(records)
    r.shuffle(recs)
    done = 0
    for rec in recs[:limit]:
        version = rec["version"]
        colors = rec["colors"]
        fmt = f"glyf_colr_{version}"
        cfg = build.base_config(color_format=fmt, upem=100, ascender=100, descender=0, width=100,
                                keep_glyph_names=True, reuse_tolerance=-1)
        # every third COLRv1 scenario carries its colours on gradient stops instead of solid fills
        as_stops = version == 1 and len(colors) >= 2 and not any(c["cur"] for c in colors) and (done % 3 == 2)
        src = build.Src("emoji_u1f600.svg", _svg_for(colors, as_stops))
        replay = {"kind": "font", "format": fmt, "svg": src.svg_text, "model": rec, "as_stops": as_stops}
        chk.case(key=("font", json.dumps(rec, sort_keys=True)), nontrivial=len(colors) >= 2)
        try:
            _, font = build.build(cfg, [src])
            err = None
        except ValueError as e:
            err = ("ValueError", str(e))
        except Exception as e:
            err = (type(e).__name__, str(e))
        if rec["outcome"] == "ValueError":
            if err is None or err[0] != "ValueError":
                chk.violation(f"conflicting palette indices built a font ({err})", replay)
            continue
        if err is not None:
            chk.violation(f"valid colours failed to build: {err}", replay)
            continue
        done += 1
        got = _read_back_stops(font, src.glyph_name) if as_stops else _read_back(font, version, src.glyph_name, len(colors))
        if got is None:
            chk.violation("a linear gradient source did not compile to a PaintLinearGradient layer", replay)
            continue
        if len(got) != len(colors):
            chk.violation(f"{len(got)} layers for {len(colors)} shapes", replay)
            continue
        cpal = font["CPAL"].palettes[0]
        if len(cpal) < 1:
            chk.violation("empty CPAL palette", replay)
        if len(cpal) != rec["paletteLen"]:
            chk.violation(f"CPAL has {len(cpal)} entries, model says {rec['paletteLen']}", replay)
        for i, (c, g, m) in enumerate(zip(colors, got, rec["layers"])):
            if c["cur"]:
                if g[2] != 0xFFFF:
                    chk.violation(f"layer {i}: currentColor mapped to palette index {g[2]} not 0xFFFF", replay)
                elif version == 1 and abs(g[1] - _ALPHA[c["a"]]) > 0.002:
                    chk.violation(f"layer {i}: foreground alpha {g[1]} != {_ALPHA[c['a']]}", replay)
                continue
            if g[0] != _RGB[c["v"]]:
                chk.violation(f"layer {i}: palette colour {g[0]} != source {_RGB[c['v']]}", replay)
            if abs(g[1] - _ALPHA[c["a"]]) > 0.003:
                chk.violation(f"layer {i}: effective alpha {g[1]} != source {_ALPHA[c['a']]}", replay)
            if version == 0 and abs(g[3] - 255 * _ALPHA[c["a"]]) > 0.5 + 1e-9:
                # in COLRv0 the alpha lives in the palette entry: the nearest of the 256 steps
                chk.violation(f"layer {i}: COLRv0 palette alpha byte {g[3]} is not the nearest step to {_ALPHA[c['a']]} "
                              f"({255 * _ALPHA[c['a']]:.2f})", replay)
            if c["idx"] >= 0 and g[2] != c["idx"]:
                chk.violation(f"layer {i}: var(--color{c['idx']}) resolved to palette index {g[2]}", replay)
            if g[2] != m["pi"]:
                # model's slot differs: only a violation when the index was explicit (checked above)
                chk.notes["font_slot_drift"] = chk.notes.get("font_slot_drift", 0) + 1
            if version == 1 and g[3] != 255:
                chk.violation(f"layer {i}: COLRv1 palette entry {g[2]} is not opaque (alpha byte {g[3]})", replay)
    chk.notes["fonts_built"] = done


def run(chk):
    quick = chk.tier == "quick"
    chk.rule = (
        "TLC enumerates every set of <=6 colours over 3 RGBA ranks x indices {none,0..5} through the PlusCal "
        "transcription of uniq_sort_cpal_colors; each terminal state is replayed into the real function with "
        "order-preserving random RGBA values and a shuffled iteration order.  PaletteUse scenarios are compiled "
        "to real COLRv0/v1 fonts.  Non-trivial = >=2 colours; distinct = by abstract input."
    )
    res = common.run_tlc("Palette", "Palette_small.cfg", timeout=1200)
    chk.add_tlc(res, "Palette_small (exhaustive)")
    if not res.ok:
        chk.tlc_violation(res, "Palette_small")
    vac = res.vacuous_actions()
    if vac:
        raise MachineryError(f"vacuous actions in Palette: {vac}")
    res2 = common.run_tlc("Palette", "Palette_tiny.cfg", timeout=600)
    chk.add_tlc(res2, "Palette_tiny (termination under fairness)")
    if not res2.ok:
        chk.tlc_violation(res2, "Palette_tiny")
    if not quick:
        resf = common.run_tlc("Palette", "Palette_full.cfg", timeout=3000, coverage=False)
        chk.add_tlc(resf, "Palette_full (exhaustive: <=7 colours, indices {none,0..6}; no export)")
        if not resf.ok:
            chk.tlc_violation(resf, "Palette_full")
    recs = res.records
    if len(recs) < 1000:
        raise MachineryError(f"only {len(recs)} exported palette scenarios")
    chk.exhaustive = True
    chk.traces_validated += len(recs)
    for rec in recs[:3]:
        chk.sample(rec)
    _replay_palette(chk, recs, 1 if quick else 3)

    res3 = common.run_tlc("PaletteUse", "PaletteUse_small.cfg", timeout=1200)
    chk.add_tlc(res3, "PaletteUse_small (exhaustive)")
    if not res3.ok:
        chk.tlc_violation(res3, "PaletteUse_small")
    vac = res3.vacuous_actions()
    if vac:
        raise MachineryError(f"vacuous actions in PaletteUse: {vac}")
    chk.sample(res3.records[0] if res3.records else "none")
    nfonts = 150 if quick else len(res3.records)
    chk.traces_validated += min(nfonts, len(res3.records))
    _replay_fonts(chk, res3.records, nfonts)
    chk.assumptions += [
        "RGBA tuples are compared as Python tuples (ranks are order-preserving abstractions)",
        "fontTools CPAL/COLR decompilation is trusted",
    ]


def replay(path):
    common.setup_repo_imports()
    data = json.loads(open(path).read())
    print(json.dumps(data, indent=1)[:4000])
    return 0
