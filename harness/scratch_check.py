"""Scratch.tla: response files under parallel execution, on the graphs the real driver writes (B3), plus real
-j1 / -j16 builds of the families that have several edges of one rule (variable font, several configs)."""
import re
import shutil
from concurrent.futures import ThreadPoolExecutor
from pathlib import Path

from . import build_model as bm
from . import cli, common, ninja_graph
from .common import MachineryError

VF_TOML = ('output_file = "Font.ttf"\n[axis.wght]\nname = "Weight"\ndefault = 300\n'
           '[master.thin]\nstyle_name = "Thin"\nsrcs = ["thin/*.svg"]\n[master.thin.position]\nwght = 300\n'
           '[master.bold]\nstyle_name = "Bold"\nsrcs = ["bold/*.svg"]\n[master.bold.position]\nwght = 700\n')
A_TOML = 'output_file = "A.ttf"\ncolor_format = "glyf_colr_1"\n[axis.wght]\nname = "Weight"\ndefault = 400\n[master.regular]\nstyle_name = "Regular"\nsrcs = ["src/emoji_u1f600.svg", "src/emoji_u1f601.svg"]\n[master.regular.position]\nwght = 400\n'
B_TOML = 'output_file = "B.ttf"\ncolor_format = "glyf_colr_0"\n[axis.wght]\nname = "Weight"\ndefault = 400\n[master.regular]\nstyle_name = "Regular"\nsrcs = ["src/emoji_u1f9e0.svg", "src/emoji_u1f9e1.svg"]\n[master.regular.position]\nwght = 400\n'


def families():
    T = bm.SRC_TEXT
    return [
        {"name": "static", "sources": {s: T[s] for s in ("src/emoji_u1f600.svg", "src/emoji_u1f601.svg", "src/emoji_u1f9e0.svg")},
         "configs": {}, "args": ["--color_format", "glyf_colr_1", "src/emoji_u1f600.svg", "src/emoji_u1f601.svg", "src/emoji_u1f9e0.svg"],
         "fonts": ["Font.ttf"]},
        {"name": "vf", "sources": {s: T[s] for s in ("thin/emoji_u1f600.svg", "bold/emoji_u1f600.svg")},
         "configs": {"config.toml": VF_TOML}, "args": ["config.toml"], "fonts": ["Font.ttf"]},
        {"name": "two-configs", "sources": {s: T[s] for s in ("src/emoji_u1f600.svg", "src/emoji_u1f601.svg", "src/emoji_u1f9e0.svg", "src/emoji_u1f9e1.svg")},
         "configs": {"a.toml": A_TOML, "b.toml": B_TOML}, "args": ["a.toml", "b.toml"], "fonts": ["A.ttf", "B.ttf"]},
    ]


def _q(s):
    return '"' + s.replace("\\", "\\\\").replace('"', '\\"') + '"'


def _emit(spec_dir: Path, name, edges, rsp, jobs, liveness=True):
    spec_dir.mkdir(parents=True, exist_ok=True)
    shutil.copy(common.SPEC / "Scratch.tla", spec_dir / "Scratch.tla")
    outs = [e["out"] for e in edges]
    oset = set(outs)
    deps = {e["out"]: sorted({p for p in e["ins"] + e["implicit"] + e["order_only"] if p in oset}) for e in edges}
    mod = [f"---- MODULE MC_{name} ----", "EXTENDS Scratch",
           "E == {" + ", ".join(_q(o) for o in outs) + "}",
           "D == " + " @@ ".join(f"({_q(o)} :> {{{', '.join(_q(d) for d in deps[o])}}})" for o in outs),
           "R == " + " @@ ".join(f"({_q(o)} :> {_q(rsp[o])})" for o in outs), "===="]
    (spec_dir / f"MC_{name}.tla").write_text("\n".join(mod) + "\n")
    cfg = ["SPECIFICATION Spec", "CONSTANTS", "  Edges <- E", "  Deps <- D", "  Rsp <- R", f"  Jobs = {jobs}", "INVARIANT ReadsOwn"]
    if liveness:
        cfg.append("PROPERTY Completes")
    (spec_dir / f"MC_{name}.cfg").write_text("\n".join(cfg) + "\n")
    return f"MC_{name}"


def rsp_of(cmd):
    m = re.findall(r"@(\S+\.rsp)", cmd)
    if len(m) > 1:
        raise MachineryError(f"command names several response files: {cmd[:200]}")
    return m[0] if m else ""


def prove(work: Path):
    """TLAPS: Spec => []ReadsOwn for EVERY graph and any number of jobs, provided no two edges name one response file
    (ScratchProof.tla).  -> (ok, summary line)"""
    return common.run_tlapm("ScratchProof", ("Scratch",))


def run(chk, work: Path):
    from concurrent.futures import ThreadPoolExecutor as _TPE

    quick = chk.tier == "quick"
    jobs = 2 if quick else 3
    _ex = _TPE(1)
    proof = _ex.submit(prove, work)
    negative_done = 0
    for fam in families():
        g = ninja_graph.extract(work / f"scr-x-{fam['name']}", fam["sources"], fam["args"], configs=fam["configs"])
        shutil.rmtree(work / f"scr-x-{fam['name']}", ignore_errors=True)
        if g["rc"] != 0:
            raise MachineryError(f"driver failed for scratch family {fam['name']}: {g['log'][-500:]}")
        edges = g["edges"]
        rsp = {e["out"]: rsp_of(e["cmd"]) for e in edges}
        if not any(rsp.values()):
            raise MachineryError(f"no edge of family {fam['name']} names a response file (extraction broken?)")
        sd = work / f"scr-spec-{fam['name']}"
        mc = _emit(sd, "own", edges, rsp, jobs)
        res = common.run_tlc(mc, mc + ".cfg", spec_dir=sd, timeout=1800, coverage=False)
        chk.add_tlc(res, f"Scratch [{fam['name']}]: every schedule of {len(edges)} edges with <= {jobs} steps in flight, "
                         f"{sum(1 for v in rsp.values() if v)} response files")
        chk.case(key=("scratch", fam["name"]), nontrivial=len({e['rule'] for e in edges if rsp[e['out']]}) < sum(1 for v in rsp.values() if v))
        if not res.ok:
            shared = sorted({v for v in rsp.values() if v and list(rsp.values()).count(v) > 1})
            chk.violation(f"[{fam['name']}] with ninja running {jobs} steps at a time a step can read another step's response file "
                          f"(shared: {shared}): the font then depends on the schedule.  " + f"TLC: {res.violated} violated",
                          {"family": fam["name"], "rsp": rsp, "jobs": jobs, "tlc_cmd": res.cmd, "trace": res.error_trace[:80]})
        # vacuity control: one response file per RULE must break the invariant wherever a rule has two independent edges
        by_rule = {}
        for e in edges:
            if rsp[e["out"]]:
                by_rule.setdefault(e["rule"], []).append(e["out"])
        if any(len(v) > 1 for v in by_rule.values()):
            rule_rsp = {e["out"]: (e["rule"] + ".rsp" if rsp[e["out"]] else "") for e in edges}
            mcn = _emit(sd, "perrule", edges, rule_rsp, jobs, liveness=False)
            neg = common.run_tlc(mcn, mcn + ".cfg", spec_dir=sd, timeout=1800, coverage=False)
            chk.add_tlc(neg, f"Scratch [{fam['name']}] with one response file per rule (expected to violate ReadsOwn)")
            if neg.ok:
                raise MachineryError(f"Scratch negative configuration holds for {fam['name']}: ReadsOwn is vacuous")
            negative_done += 1
    if not negative_done:
        raise MachineryError("no family has two edges of one rule with response files: Scratch.tla explores nothing of interest")
    ok, line = proof.result()
    _ex.shutdown()
    chk.notes["scratch_proof"] = line
    if ok is False:
        raise MachineryError("ScratchProof.tla no longer proves (Scratch.tla changed without its proof?): " + line)
    # the theorem's hypothesis, measured on the real graphs: it is what TLC's verdicts above amount to
    # ---- real runs: -j1 against -j16, repeated
    reps = 2 if quick else 5

    def one(job):
        fam, j, k = job
        sb = cli.Sandbox(work / f"scr-r-{fam['name']}-{j}-{k}")
        for rel, text in {**fam["sources"], **fam["configs"]}.items():
            sb.write(rel, text)
        rc, out = sb.run(["--noexec_ninja"] + fam["args"])
        if rc == 0:
            rc, out = sb.ninja([f"-j{j}"])
        res = (rc, out[-400:], [sb.sha(f) if rc == 0 and (sb.build / f).exists() else None for f in fam["fonts"]])
        shutil.rmtree(sb.root, ignore_errors=True)
        return fam["name"], j, k, res

    jobs_list = [(fam, j, k) for fam in families() if fam["name"] != "static" for j, ks in ((1, [0]), (16, range(reps))) for k in ks]
    with ThreadPoolExecutor(4) as ex:
        results = list(ex.map(one, jobs_list))
    base = {name: res for name, j, k, res in results if j == 1}
    for name, j, k, (rc, log, shas) in results:
        chk.case(key=("scratch-real", name, j, k), nontrivial=j != 1)
        chk.traces_validated += 1
        if j == 1:
            if rc != 0:
                raise MachineryError(f"-j1 build of {name} failed: {log}")
            continue
        if rc != 0:
            chk.violation(f"[{name}] ninja -j{j} fails where -j1 succeeds: {log[-300:]}", {"family": name, "jobs": j})
        elif shas != base[name][2]:
            chk.violation(f"[{name}] ninja -j{j} builds other font bytes than -j1 ({shas} vs {base[name][2]})", {"family": name, "jobs": j})
