"""PaintedLayers.tla <-> color_glyph._painted_layers: every document tree of the model (pre-order list of shapes and
nested <g opacity> groups) is written as a picosvg-normal SVG, given to the real function, and the Paint tree that comes
back is compared with the tree the document denotes (same nesting, same order, same group opacities)."""
import json

from . import build, common
from .common import MachineryError


def _svg_of(doc):
    """doc: [{'k': 's'|'g', 'd': depth}] in pre-order -> SVG text (shape i is a small square of its own, colour i)."""
    out, open_depths = [], []
    n_shapes = 0
    for i, nd in enumerate(doc, 1):
        while open_depths and open_depths[-1] >= nd["d"]:
            out.append("</g>")
            open_depths.pop()
        if nd["k"] == "g":
            out.append(f'<g opacity="{_opacity(i):g}">')
            open_depths.append(nd["d"])
        else:
            n_shapes += 1
            x, y = 5 + 9 * (i % 10), 5 + 9 * (i // 10) + 3 * (i % 3)
            out.append(f'<path d="M{x},{y} L{x + 8},{y} L{x + 8},{y + 8 + i % 4} L{x},{y + 8} Z" fill="{_colour(i)}"/>')
    out.extend("</g>" for _ in open_depths)
    return f'<svg xmlns="http://www.w3.org/2000/svg" viewBox="0 0 100 100"><defs/>{"".join(out)}</svg>'


def _opacity(i):
    return 0.2 + 0.05 * i


def _colour(i):
    return "#%02X%02X%02X" % (16 * i, 255 - 16 * i, (37 * i) % 256)


def _expected(doc):
    """the tree the pre-order list denotes, by recursive descent (the harness's own reading)"""
    pos = [0]

    def parse(depth):
        items = []
        while pos[0] < len(doc) and doc[pos[0]]["d"] == depth:
            i = pos[0] + 1
            nd = doc[pos[0]]
            pos[0] += 1
            if nd["k"] == "s":
                items.append(("s", _colour(i).lower()))
            else:
                items.append(("g", round(_opacity(i), 4), parse(depth + 1)))
        return items

    return parse(1)


def _project(paints):
    from nanoemoji.paint import PaintColrLayers, PaintComposite, PaintGlyph, PaintSolid

    out = []
    for p in paints:
        if isinstance(p, PaintGlyph):
            c = p.paint.color
            out.append(("s", "#%02x%02x%02x" % (c.red, c.green, c.blue)))
        elif isinstance(p, PaintComposite):
            src = p.source
            kids = src.layers if isinstance(src, PaintColrLayers) else (src,)
            out.append(("g", round(p.backdrop.color.alpha, 4), _project(kids)))
        else:
            out.append(("?", type(p).__name__))
    return out


def run(chk):
    quick = chk.tier == "quick"
    res = common.run_tlc("PaintedLayers", "PaintedLayers.cfg" if quick else "PaintedLayers_full.cfg", timeout=1800)
    chk.add_tlc(res, f"PaintedLayers (every document of <= {8 if quick else 9} nodes, depth <= 3: NoAssert, TreeSame)")
    if not res.ok:
        chk.tlc_violation(res, "PaintedLayers")
    neg = common.run_tlc("PaintedLayers", "PaintedLayers_noreverse.cfg", timeout=600, coverage=False)
    chk.add_tlc(neg, "PaintedLayers_noreverse (children not reversed back: expected to violate TreeSame)")
    if neg.ok:
        raise MachineryError("PaintedLayers_noreverse.cfg holds: TreeSame is vacuous")
    common.setup_repo_imports()
    from nanoemoji import color_glyph
    from picosvg.svg import SVG

    cfg = build.base_config(color_format="glyf_colr_1", clip_to_viewbox=False)
    docs = [r["doc"] for r in res.records]
    if len(docs) < 50:
        raise MachineryError("too few PaintedLayers documents exported")
    nested = 0
    for k, doc in enumerate(docs):
        text = _svg_of(doc)
        want = _expected(doc)
        deep = max(nd["d"] for nd in doc) >= 3
        nested += deep
        chk.case(key=("painted", json.dumps(doc)), nontrivial=deep)
        chk.traces_validated += 1
        replay = {"kind": "painted-layers", "doc": doc, "svg": text}
        try:
            svg = SVG.fromstring(text)
            svg.checkpicosvg()
        except Exception as e:
            raise MachineryError(f"generated document is not picosvg-normal: {e}: {text}")
        try:
            got = _project(color_glyph._painted_layers("verif", cfg, svg, 1000))
        except Exception as e:
            chk.violation(f"a picosvg-normal document with nested opacity groups is refused: {type(e).__name__}: {str(e)[:160]}", replay)
            continue
        if got != want:
            chk.violation(f"the Paint tree of a document with nested opacity groups is not the document's tree: got {got}, "
                          f"the document is {want}", replay)
    chk.notes["painted_layers_documents"] = {"replayed": len(docs), "three_levels": nested}


def end_to_end(chk, formats, judge, n_quick=36):
    """The same documents through the whole pipeline in `formats`; judge(chk, font, cfg, srcs, ctx, replay) compares the
    built font with the source (C01: COLR layer oracle, C02: OT-SVG document oracle)."""
    quick = chk.tier == "quick"
    res = common.run_tlc("PaintedLayers", "PaintedLayers.cfg" if quick else "PaintedLayers_full.cfg", timeout=1800, coverage=False)
    if not res.ok:
        raise MachineryError("PaintedLayers model fails (reported by C01)")
    docs = [r["doc"] for r in res.records]
    docs.sort(key=lambda d: (-max(nd["d"] for nd in d), json.dumps(d)))     # deepest nesting first
    r = common.rng(chk.pid, "painted-e2e")
    if quick:
        deep = [d for d in docs if max(nd["d"] for nd in d) >= 3]
        r.shuffle(deep)
        docs = deep[:n_quick]
    for k, doc in enumerate(docs):
        fmt = formats[k % len(formats)]
        tol = 0.1 if k % 2 else -1.0
        cfgkw = dict(color_format=fmt, keep_glyph_names=True, reuse_tolerance=tol, clip_to_viewbox=False)
        cfg = build.base_config(**cfgkw)
        text = build.to_picosvg(_svg_of(doc)).tostring()
        srcs = [build.Src("emoji_u1f600.svg", text)]
        replay = {"kind": "painted-layers end to end", "doc": doc, "config": {a: str(b) for a, b in cfgkw.items()}, "svgs": [text]}
        chk.case(key=("painted-e2e", fmt, json.dumps(doc)), nontrivial=True)
        chk.traces_validated += 1
        try:
            _, font = build.build(cfg, srcs, already_pico=True)
        except Exception as e:
            chk.violation(f"valid source with nested opacity groups fails to build ({fmt}): {type(e).__name__}: {str(e)[:200]}", replay)
            continue
        judge(chk, font, cfg, srcs, f"document tree {k} [{fmt}]", replay)
