"""C16: specialised transform paints denote exactly the affine they replace.

Model: spec/XformEncode.tla (branches of paint.transformed + fontTools compile), spec/GradXform.tla
(uniform/residual split applied to gradients).  Binding B1: one implementation test per TLC terminal state
(predicted class, compile outcome), each followed by a COLR compile/decompile round trip and an independent
evaluation of the decompiled paint; random floats in the neighbourhood of each lattice point."""
import json
import math

from . import common
from .common import MachineryError

EPS = 1e-10


def _val(j):
    return j["n"] / j["d"] + j["e"] * EPS


_FONT = None


def _roundtrip(ufo_paint):
    """to_ufo_paint dict -> fontTools COLR -> bytes -> decompiled ot.Paint (what ufo2ft does)."""
    from fontTools.colorLib.builder import buildCOLR
    from fontTools.ttLib import TTFont, newTable

    global _FONT
    if _FONT is None:
        _FONT = TTFont()
        _FONT.setGlyphOrder([".notdef", "a", "b"])
    colr = buildCOLR({"a": ufo_paint}, glyphMap=_FONT.getReverseGlyphMap())
    data = colr.compile(_FONT)
    t2 = newTable("COLR")
    t2.decompile(data, _FONT)
    return t2.table.BaseGlyphList.BaseGlyphPaintRecord[0].Paint


def ot_paint_transform(p):
    """Affine (a,b,c,d,e,f) of one decompiled COLR transform paint, from the OpenType spec (independent of
    nanoemoji.paint).  Returns (matrix, child)."""
    F = p.Format
    name = p.getFormatName()
    if name == "PaintTransform":
        t = p.Transform
        return (t.xx, t.yx, t.xy, t.yy, t.dx, t.dy), p.Paint
    if name == "PaintTranslate":
        return (1, 0, 0, 1, p.dx, p.dy), p.Paint
    if name in ("PaintScale", "PaintScaleAroundCenter", "PaintScaleUniform", "PaintScaleUniformAroundCenter"):
        if "Uniform" in name:
            sx = sy = p.scale
        else:
            sx, sy = p.scaleX, p.scaleY
        cx = getattr(p, "centerX", 0)
        cy = getattr(p, "centerY", 0)
        return (sx, 0, 0, sy, cx - sx * cx, cy - sy * cy), p.Paint
    if name in ("PaintRotate", "PaintRotateAroundCenter"):
        a = math.radians(p.angle)
        cx = getattr(p, "centerX", 0)
        cy = getattr(p, "centerY", 0)
        cs, sn = math.cos(a), math.sin(a)
        return (cs, sn, -sn, cs, cx - cs * cx + sn * cy, cy - sn * cx - cs * cy), p.Paint
    if name in ("PaintSkew", "PaintSkewAroundCenter"):
        xa, ya = math.radians(p.xSkewAngle), math.radians(p.ySkewAngle)
        cx = getattr(p, "centerX", 0)
        cy = getattr(p, "centerY", 0)
        m = (1, math.tan(ya), -math.tan(xa), 1, 0, 0)
        # T(c) . M . T(-c)
        e = cx - (m[0] * cx + m[2] * cy)
        f = cy - (m[1] * cx + m[3] * cy)
        return (m[0], m[1], m[2], m[3], e, f), p.Paint
    return None, p


def _mul(m, n):
    """m after n (apply n first)."""
    return (
        m[0] * n[0] + m[2] * n[1], m[1] * n[0] + m[3] * n[1],
        m[0] * n[2] + m[2] * n[3], m[1] * n[2] + m[3] * n[3],
        m[0] * n[4] + m[2] * n[5] + m[4], m[1] * n[4] + m[3] * n[5] + m[5],
    )


def accumulated_transform(p):
    """Compose all leading transform paints of a decompiled paint; returns (matrix, first non-transform paint)."""
    m = (1, 0, 0, 1, 0, 0)
    while True:
        t, child = ot_paint_transform(p)
        if t is None:
            return m, p
        m = _mul(m, t)
        p = child


def _tol_ok(want, got, centre_mag=0.0):
    """OpenType precision: matrix entries to 2^-14, translation to 2^-14*(1+|centre|) + rounding."""
    for i in range(4):
        if abs(want[i] - got[i]) > 2 ** -14 + 1e-9:
            return False, f"entry {i}: {got[i]} vs {want[i]}"
    for i in (4, 5):
        if abs(want[i] - got[i]) > 2 ** -14 * (1 + centre_mag) + 1e-6:
            return False, f"entry {i}: {got[i]} vs {want[i]}"
    return True, ""


def _one(chk, floats, predicted, compiled_model, replay, drift):
    from nanoemoji import paint as P
    from nanoemoji.colors import Color
    from picosvg.svg_transform import Affine2D

    target = P.PaintGlyph(glyph="b", paint=P.PaintSolid(Color(1, 2, 3, 1.0)))
    aff = Affine2D(*floats)
    try:
        res = P.transformed(aff, target)
    except Exception as e:
        # an error is an allowed outcome only for values no field can hold
        fits_fixed = all(-32768 <= v < 32768 for v in floats)
        if fits_fixed:
            chk.violation(f"transformed raised {type(e).__name__} for representable affine {floats}", replay)
        return
    cls = "None" if res is target else type(res).__name__
    if predicted != "Any" and cls != predicted:
        drift.append({"t": floats, "model": predicted, "code": cls})
    # (1) the in-memory paint denotes the input
    got = tuple(res.gettransform()) if res is not target else (1, 0, 0, 1, 0, 0)
    for i in range(6):
        if abs(got[i] - floats[i]) > 1e-6 * max(1.0, abs(floats[i])):
            chk.violation(f"{cls}.gettransform() = {got} does not denote {floats}", replay)
            return
    # (2) through the binary: fits and round-trips, or raises
    try:
        otp = _roundtrip(res.to_ufo_paint([Color(1, 2, 3, 1.0)]))
        err = None
    except Exception as e:
        err = f"{type(e).__name__}: {str(e)[:80]}"
    if err is not None:
        if compiled_model == "ok" and predicted != "Any":
            drift.append({"t": floats, "model": "compile ok", "code": err})
        return
    m, leaf = accumulated_transform(otp)
    centre = 0.0
    if hasattr(res, "center"):
        centre = abs(res.center[0]) + abs(res.center[1])
    ok, why = _tol_ok(floats, m, centre)
    if not ok:
        chk.violation(f"{cls} compiled silently but decodes to {m}, not {floats} ({why})", replay)
    elif leaf.getFormatName() != "PaintGlyph":
        chk.violation(f"{cls}: wrapped paint lost in round trip ({leaf.getFormatName()})", replay)


def _replay_lattice(chk, records, jitter_k):
    drift = []
    for n, rec in enumerate(records):
        floats = tuple(_val(j) for j in rec["t"])
        replay = {"kind": "transformed", "t": floats, "model": rec}
        chk.case(key=("xf", n), nontrivial=rec["cls"] not in ("PaintTransform", "None"))
        _one(chk, floats, rec["cls"], rec["compiled"], replay, drift)
        # random floats in the same predicate cell: perturb only components that are generic
        # (not on a boundary the encoder tests: 0, 1, integers, F2Dot14/Int16 limits)
        r = common.rng("c16", n)
        for k in range(jitter_k):
            fl = list(floats)
            for i, j in enumerate(rec["t"]):
                generic = j["e"] == 0 and j["d"] == 2 and i in (1, 2)  # the 1/2 shears
                if generic:
                    fl[i] = r.uniform(0.2, 0.8)
            if tuple(fl) != floats:
                chk.case(key=("xfj", n, k), nontrivial=False)
                _one(chk, tuple(fl), rec["cls"], rec["compiled"], dict(replay, t=fl), drift)
    chk.notes["class_drift_count"] = len(drift)
    chk.notes["class_drift_samples"] = drift[:5]


def _random_affines(chk, count):
    """Continuous sampling around every branch, judged only by the property (denotes / fits-or-raises)."""
    r = common.rng("c16-random")
    drift = []
    for n in range(count):
        kind = r.randrange(7)
        sx = sy = 1.0
        b = c = dx = dy = 0.0
        if kind == 0:
            dx, dy = float(r.randrange(-40000, 40000)), float(r.randrange(-40000, 40000))
        elif kind == 1:
            dx, dy = r.uniform(-40000, 40000), r.uniform(-500, 500)
        elif kind == 2:
            sx = r.choice([r.uniform(-2.2, 2.2), 2.0, -2.0, 1.99993896484375, 1.9999])
            sy = r.choice([sx, sx + 1e-10, r.uniform(-2.2, 2.2)])
        elif kind == 3:
            sx, sy = r.choice([0.5, -0.5, 1.5, -1.0, 0.25, 1.75]), r.choice([0.5, -0.5, 1.5, 2.5, 1.0])
            cx, cy = r.randrange(-33000, 33000), r.randrange(-33000, 33000)
            dx, dy = (1 - sx) * cx, (1 - sy) * cy
        elif kind == 4:
            a = r.uniform(0, 2 * math.pi)
            s = r.choice([1, 0.5, 3, 40000])
            sx, b, c, sy = s * math.cos(a), s * math.sin(a), -s * math.sin(a), s * math.cos(a)
            dx, dy = r.uniform(-1000, 1000), r.uniform(-1000, 1000)
        elif kind == 5:
            sx, sy = r.uniform(0.1, 1.9), r.uniform(0.1, 1.9)
            dx, dy = r.uniform(-300, 300), r.uniform(-300, 300)
        else:
            sx, b, c, sy = (r.uniform(-3, 3) for _ in range(4))
            dx, dy = r.uniform(-40000, 40000), r.uniform(-40000, 40000)
        fl = (sx, b, c, sy, dx, dy)
        chk.case(key=("rand", n), nontrivial=kind in (0, 2, 3, 5))
        _one(chk, fl, "Any", "any", {"kind": "transformed-random", "t": fl}, drift)


def run(chk):
    from . import c16_grad

    quick = chk.tier == "quick"
    chk.rule = (
        "TLC enumerates the boundary-value lattice of affines (scales at the F2Dot14 limits, near-integer/Int16-limit "
        "translations, exact-vs-almost-equal distinctions via dual numbers) through the branch-per-action model of "
        "paint.transformed; every terminal state is one implementation test (class, in-memory denotation, COLR "
        "compile/decompile round trip judged by an independent reading of the OpenType transform paints). "
        "Non-trivial = a specialised (non-PaintTransform) class is predicted."
    )
    level = "small" if quick else "full"
    res = common.run_tlc("XformEncode", f"XformEncode_{level}.cfg", timeout=3000)
    chk.add_tlc(res, f"XformEncode_{level} (exhaustive)")
    if not res.ok:
        chk.tlc_violation(res, f"XformEncode_{level}")
    vac = res.vacuous_actions()
    if vac:
        raise MachineryError(f"vacuous actions in XformEncode: {vac}")
    if len(res.records) < 1000:
        raise MachineryError(f"only {len(res.records)} exported states")
    chk.exhaustive = True
    chk.traces_validated += len(res.records)
    for rec in res.records[:2]:
        chk.sample(rec)
    recs = res.records
    if not quick and len(recs) > 150000:
        r = common.rng("c16-sample")
        special = [x for x in recs if x["cls"] != "PaintTransform"]
        general = [x for x in recs if x["cls"] == "PaintTransform"]
        r.shuffle(general)
        recs = special + general[:100000]
        chk.notes["replayed_subset"] = f"all {len(special)} specialised-class states + 100000 sampled PaintTransform states"
    _replay_lattice(chk, recs, 1 if quick else 3)
    _random_affines(chk, 3000 if quick else 60000)
    c16_grad.run(chk)
    # end to end: the encoder's fallback branches as the compiler reaches them (gradient counter-transforms that leave
    # int16 / Fixed on reused copies: thin bars, copies far smaller than their donor, elliptical gradients), judged by
    # the layer oracle on the compiled font
    from . import c01

    c01.coincidence_scenarios(chk, 18 if quick else 400, pid="C16", only="overflow")
    # the same wrappers as the OT-SVG writer emits them: every kind of reuse transform x every fill kind as picosvg
    # documents (a <use> with its transform, the gradient's residual wrapper composed with the inverse reuse transform),
    # judged by the OT-SVG document oracle - "gradient geometry mapped through a transform yields the same colour"
    from . import c02

    c02.reuse_fill_grid(chk)
    chk.assumptions += [
        "fontTools COLR compile/decompile is the reference for what a field can hold",
        "dual-number lattice: eps stands for 1e-10 (below picosvg.almost_equal's 1e-9)",
    ]


def replay(path):
    data = json.loads(open(path).read())
    print(json.dumps(data, indent=1)[:4000])
    return 0
