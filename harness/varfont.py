"""An independent evaluator of a variable font at a location, written from the OpenType specification (fvar
normalisation, region scalars, gvar tuple variations, ItemVariationStore, HVAR, COLR Var* paints and ClipBoxFormat2):
turns the decompiled font into the static font a renderer would see at that location, in place.  It does not use
fontTools.varLib.instancer (which is kept as a cross-check only) and does not import nanoemoji.

Trusted from fontTools: table decompilation and iup_delta (inferred deltas of untouched points)."""
import io
import math
from fractions import Fraction

NO_VAR = 0xFFFFFFFF
VAR_FORMATS = {3, 5, 7, 9, 13, 15, 17, 19, 21, 23, 25, 27, 29, 31}


def _f2dot14(x):
    return Fraction(round(x * 16384), 16384)


def normalize(font, user_loc):
    """user-space location {tag: value} -> normalised {tag: Fraction} (clamped, F2Dot14-rounded); avar must be absent
    or identity."""
    if "avar" in font:
        for tag, seg in font["avar"].segments.items():
            if any(abs(k - v) > 1e-9 for k, v in seg.items()):
                raise ValueError("avar not supported by this evaluator")
    out = {}
    for a in font["fvar"].axes:
        v = user_loc.get(a.axisTag, a.defaultValue)
        v = min(max(v, a.minValue), a.maxValue)
        lo, d, hi = Fraction(a.minValue), Fraction(a.defaultValue), Fraction(a.maxValue)
        v = Fraction(v)
        if v < d:
            n = -(d - v) / (d - lo)
        elif v > d:
            n = (v - d) / (hi - d)
        else:
            n = Fraction(0)
        out[a.axisTag] = _f2dot14(n)
    return out


def scalar(region, loc):
    """region: {tag: (start, peak, end)}; loc: {tag: Fraction}.  OpenType 'Variation regions' scalar."""
    s = Fraction(1)
    for tag, (start, peak, end) in region.items():
        start, peak, end = Fraction(start).limit_denominator(16384), Fraction(peak).limit_denominator(16384), Fraction(end).limit_denominator(16384)
        if peak == 0:
            continue
        if start > peak or peak > end:
            continue
        if start < 0 and end > 0:
            continue
        v = loc.get(tag, Fraction(0))
        if v == peak:
            continue
        if v <= start or v >= end:
            return Fraction(0)
        if v < peak:
            s *= (v - start) / (peak - start)
        else:
            s *= (end - v) / (end - peak)
    return s


class Store:
    def __init__(self, store, axis_tags, loc):
        self.store = store
        self.scalars = []
        for r in store.VarRegionList.Region:
            reg = {axis_tags[i]: (ax.StartCoord, ax.PeakCoord, ax.EndCoord) for i, ax in enumerate(r.VarRegionAxis)}
            self.scalars.append(scalar(reg, loc))

    def delta(self, packed):
        if packed == NO_VAR:
            return Fraction(0)
        outer, inner = packed >> 16, packed & 0xFFFF
        if outer == 0xFFFF and inner == 0xFFFF:
            return Fraction(0)
        vd = self.store.VarData[outer]
        row = vd.Item[inner]
        return sum((self.scalars[ri] * d for ri, d in zip(vd.VarRegionIndex, row)), Fraction(0))


def _round(x):
    """OpenType rounding of an interpolated value (round half up)."""
    import math

    return int(math.floor(x + Fraction(1, 2)))


def _apply_gvar(font, loc, rounded):
    from fontTools.varLib.iup import iup_delta
    from fontTools.ttLib.tables._g_l_y_f import GlyphCoordinates

    glyf, gvar, hmtx = font["glyf"], font["gvar"], font["hmtx"]
    adv_delta = {}
    for name in font.getGlyphOrder():
        tvs = gvar.variations.get(name) or []
        if not tvs:
            continue
        g = glyf[name]
        coords, ctrl = glyf._getCoordinatesAndControls(name, hmtx.metrics)
        n = len(coords)
        total = [[Fraction(0), Fraction(0)] for _ in range(n)]
        for tv in tvs:
            s = scalar(tv.axes, loc)
            if s == 0:
                continue
            deltas = list(tv.coordinates)
            if None in deltas:
                deltas = iup_delta(deltas, [tuple(c) for c in coords], ctrl.endPts)
            for i, d in enumerate(deltas):
                total[i][0] += s * d[0]
                total[i][1] += s * d[1]
        newc = [(Fraction(c[0]) + t[0], Fraction(c[1]) + t[1]) for c, t in zip(coords, total)]
        if rounded:
            newc = [(_round(x), _round(y)) for x, y in newc]
        else:
            newc = [(float(x), float(y)) for x, y in newc]
        # phantom points: the last four; horizontal advance = phantom[1].x - phantom[0].x
        adv_delta[name] = (total[n - 3][0] - total[n - 4][0])
        body = newc[: n - 4]
        if g.isComposite():
            for comp, (x, y) in zip(g.components, body):
                comp.x, comp.y = x, y
        elif g.numberOfContours > 0:
            g.coordinates = GlyphCoordinates(body)
            if rounded:
                g.recalcBounds(glyf)
            # left side bearing = xMin - left phantom point (fontTools' glyph set draws at lsb - xMin)
            w, _ = hmtx.metrics[name]
            xmin = min(x for x, _y in body)
            hmtx.metrics[name] = (w, (int(math.floor(xmin)) if rounded else xmin) - (_round(newc[n - 4][0]) if rounded else newc[n - 4][0]))
            if not rounded:
                g.xMin = xmin   # keep the drawing offset (lsb - xMin) at the phantom point's position
    return adv_delta


def instantiate(font_bytes, user_loc, rounded=True):
    """-> (TTFont with every variable quantity evaluated at user_loc, in place; info dict).  The returned font is for
    reading (oracles), not for saving."""
    from fontTools.ttLib import TTFont

    font = TTFont(io.BytesIO(font_bytes), lazy=False)
    loc = normalize(font, user_loc)
    tags = [a.axisTag for a in font["fvar"].axes]
    info = {"loc": {k: float(v) for k, v in loc.items()}}
    gvar_adv = _apply_gvar(font, loc, rounded) if "gvar" in font else {}
    # advances: HVAR when present, else gvar phantom points
    hmtx = font["hmtx"]
    order = font.getGlyphOrder()
    if "HVAR" in font:
        hv = font["HVAR"].table
        st = Store(hv.VarStore, tags, loc)
        amap = hv.AdvWidthMap.mapping if getattr(hv, "AdvWidthMap", None) else None
        for gid, name in enumerate(order):
            packed = amap[name] if amap is not None else gid  # implicit: outer 0, inner gid
            d = st.delta(packed)
            w, lsb = hmtx.metrics[name]
            hmtx.metrics[name] = (_round(w + d) if rounded else float(w + d), lsb)
    else:
        for name, d in gvar_adv.items():
            w, lsb = hmtx.metrics[name]
            hmtx.metrics[name] = (_round(w + d) if rounded else float(w + d), lsb)
    if "COLR" in font and font["COLR"].version > 0:
        _apply_colr(font, tags, loc, rounded)
    return font, info


def _apply_colr(font, tags, loc, rounded):
    from fontTools.ttLib.tables import otConverters as C

    colr = font["COLR"].table
    if getattr(colr, "VarStore", None) is None:
        return
    st = Store(colr.VarStore, tags, loc)
    vmap = colr.VarIndexMap.mapping if getattr(colr, "VarIndexMap", None) else None

    def deltas(base, n):
        out = []
        for i in range(n):
            idx = base + i
            packed = vmap[idx] if vmap is not None else idx
            out.append(st.delta(packed))
        return out

    def vary(table):
        """Apply deltas to a table that carries VarIndexBase; returns nothing."""
        base = getattr(table, "VarIndexBase", NO_VAR)
        if base is None or base == NO_VAR:
            return
        attrs = table.getVariableAttrs()
        ds = deltas(base, len(attrs))
        for attr, d in zip(attrs, ds):
            conv = table.getConverterByName(attr)
            v = getattr(table, attr)
            if isinstance(conv, C.BaseFixedValue):
                nv = Fraction(v).limit_denominator(1 << 20) + d / (1 << conv.precisionBits)
                setattr(table, attr, float(nv))
            else:
                nv = Fraction(v) + d
                setattr(table, attr, _round(nv) if rounded else float(nv))
        table.VarIndexBase = NO_VAR

    seen = set()

    def walk(p):
        if id(p) in seen:
            return
        seen.add(id(p))
        fmt = p.Format
        if fmt in VAR_FORMATS:
            if fmt == 13:   # PaintVarTransform: the VarAffine2x3 carries the index
                vary(p.Transform)
            else:
                vary(p)
            p.Format = fmt - 1
        cl = getattr(p, "ColorLine", None)
        if cl is not None:
            for stop in cl.ColorStop:
                if hasattr(stop, "VarIndexBase"):
                    vary(stop)
        for attr in ("Paint", "SourcePaint", "BackdropPaint"):
            c = getattr(p, attr, None)
            if c is not None:
                walk(c)

    if colr.LayerList:
        for p in colr.LayerList.Paint:
            walk(p)
    if colr.BaseGlyphList:
        for r in colr.BaseGlyphList.BaseGlyphPaintRecord:
            walk(r.Paint)
    if colr.ClipList:
        for box in {id(b): b for b in colr.ClipList.clips.values()}.values():
            if box.Format == 2:
                vary(box)
                box.Format = 1


def clip_box(font, glyph_name):
    cl = font["COLR"].table.ClipList
    if cl is None or glyph_name not in cl.clips:
        return None
    b = cl.clips[glyph_name]
    return (b.xMin, b.yMin, b.xMax, b.yMax)
