"""C03: COLRv0 and glyf builds lose only what those formats cannot express.

Flatten.tla (breadth-first emission of one layer / component per PaintGlyph with the accumulated transform, over all
forests of the shapes the compiler produces) is model-checked for EachLeafOnce / ZOrderWhenFlat; every forest is
concretised to an SVG (nested opacity groups, reused copies), built as glyf_colr_0, and the emitted layer order is
compared with the model; solid / group-free sources are compared layer by layer (outline, colour, alpha) with the
source; for any source the COLRv0 layers and glyf components must place each source outline exactly once."""
import json

from . import build, common, compile_check as CC, oracle_cmp, oracle_geom as OG, oracle_grad as G, oracle_svg, scenarios as S, shaper
from .common import MachineryError

V0_FORMATS = ["glyf_colr_0", "cff_colr_0", "cff2_colr_0"]


def forest_to_specs(roots, r):
    """Flatten.tla forest -> [LayerSpec] with group nesting encoded as group paths, plus the SVG text."""
    donor = {}
    layers = []  # (leaf id, LayerSpec, group path)

    def walk(nodes, path):
        for i, n in enumerate(nodes):
            if n["k"] == "glyph":
                if n["t"] != "I" and donor:
                    cls = donor[min(donor)]
                else:
                    cls = ["F", "T", "poly:3", "blob:4", "poly:8", "blob:9"][(n["id"] - 1) % 6]
                    donor[n["id"]] = cls
                m = S.random_isometry(r, 100.0, r.uniform(5, 7))
                fill = S.FillSpec("solid", color=S.PALETTE[n["id"] % len(S.PALETTE)], index=None)
                layers.append((n["id"], S.LayerSpec(cls, m, fill, r.choice([1, 1, 0.5])), path))
            else:
                walk(n["ch"], path + (f"{len(path)}-{i}-{r.randrange(99)}",))

    walk(roots, ())
    return layers


def svg_nested(layers):
    """SVG with properly nested <g opacity> from group paths."""
    out, open_path = [], ()
    for lid, L, path in layers:
        common_len = 0
        while common_len < min(len(open_path), len(path)) and open_path[common_len] == path[common_len]:
            common_len += 1
        for _ in range(len(open_path) - common_len):
            out.append("</g>")
        for p in path[common_len:]:
            out.append('<g opacity="0.5">')
        open_path = path
        attr, _ = S.fill_markup(L.fill, "x", (0, 0, 1, 1))
        op = f' opacity="{L.opacity:g}"' if L.opacity != 1 else ""
        out.append(f'<path d="{S.path_d(L.cls, L.place)}" fill="{attr}"{op}/>')
    out += ["</g>"] * len(open_path)
    return '<svg xmlns="http://www.w3.org/2000/svg" viewBox="0 0 100 100"><defs/>' + "".join(out) + "</svg>\n"


def overlap_score(a: OG.Shape, b: OG.Shape):
    """Intersection over union, sampled on both shapes' own bounding boxes (so far-apart shapes score 0)."""
    if a.bounds is None or b.bounds is None:
        return 0.0
    if a.bounds[2] < b.bounds[0] or b.bounds[2] < a.bounds[0] or a.bounds[3] < b.bounds[1] or b.bounds[3] < a.bounds[1]:
        return 0.0
    agree = either = 0
    for p in OG.sample_points(a.bounds, 14) + OG.sample_points(b.bounds, 14):
        ia, ib = a.inside(p), b.inside(p)
        if ia or ib:
            either += 1
            agree += ia and ib
    return agree / either if either else 0.0


def match_layers(expected_shapes, real_shapes):
    """Greedy one-to-one matching by overlap; returns (assignment real index -> expected index, unmatched)."""
    scores = sorted(((overlap_score(e, r), ri, ei) for ei, e in enumerate(expected_shapes) for ri, r in enumerate(real_shapes)), reverse=True)
    used_r, used_e, assign = set(), set(), {}
    for s, ri, ei in scores:
        if s < 0.6:
            break
        if ri in used_r or ei in used_e:
            continue
        assign[ri] = ei
        used_r.add(ri)
        used_e.add(ei)
    return assign


def real_layer_shapes(font, fmt, gname):
    """Outline drawn by each COLRv0 layer / glyf component of the glyph, in stored order."""
    if fmt == "glyf":
        glyf = font["glyf"]
        g = glyf[gname]
        if g.isComposite():
            out = []
            for c in g.components:
                t = getattr(c, "transform", [[1, 0], [0, 1]])
                m = (t[0][0], t[0][1], t[1][0], t[1][1], c.x, c.y)
                out.append(OG.glyph_shape(font, c.glyphName).transformed(m))
            return out
        return [OG.glyph_shape(font, gname)] if g.numberOfContours else []
    return [L.shapes[0] for L in oracle_cmp.colr_layers(font, gname)]


def check_exactly_once(chk, font, cfg, fmt, srcs, ctx, replay, want_order=None):
    oc = CC.oracle_cfg(cfg)
    for gi, src in enumerate(srcs):
        reached = shaper.shape(font, src.cps)
        if not reached or len(reached) != 1:
            chk.violation(f"{ctx}: codepoints {src.cps} shape to {reached}", replay)
            continue
        exp, adv, A = oracle_svg.expected_layers(src.svg_text, oc)
        real = real_layer_shapes(font, fmt, reached[0])
        if fmt == "glyf" and len(real) == 1 and len(exp) > 1:
            # ufo2ft decomposed the components into contours.  The property is about OUTLINES (each placed exactly once
            # at its source position, nothing else), not about the filled union - overlapping contours of opposite
            # direction cancel under non-zero winding, which is outside the statement.  Match contour by contour.
            def boxes(shape):
                out = []
                for c in shape.contours:
                    xs, ys = [p[0] for p in c], [p[1] for p in c]
                    out.append((min(xs), min(ys), max(xs), max(ys)))
                return out

            want = [bx for E in exp for bx in boxes(E.shape)]
            got = boxes(real[0])
            unmatched = list(got)
            missing = []
            for bx in want:
                hit = [g for g in unmatched if all(abs(g[i] - bx[i]) <= 4.0 for i in range(4))]
                if hit:
                    unmatched.remove(hit[0])
                else:
                    missing.append(bx)
            if missing:
                chk.violation(f"{ctx} [glyf] glyph {gi}: source contours with bounds {missing[:2]} are not present in the decomposed glyph", replay)
            if unmatched:
                chk.violation(f"{ctx} [glyf] glyph {gi}: contours {unmatched[:2]} that no source outline accounts for", replay)
            continue
        if len(real) != len(exp):
            chk.violation(f"{ctx} [{fmt}] glyph {gi}: {len(exp)} source outlines but {len(real)} layers/components", replay)
            continue
        assign = match_layers([e.shape for e in exp], real)
        if len(assign) != len(exp):
            missing = sorted(set(range(len(exp))) - set(assign.values()))
            chk.violation(f"{ctx} [{fmt}] glyph {gi}: source outlines {missing} are not placed by any layer/component "
                          f"(or placed elsewhere)", replay)
            continue
        order = [assign[i] for i in range(len(real))]
        if want_order is not None and gi == 0 and order != want_order:
            chk.notes["order_drift"] = chk.notes.get("order_drift", 0) + 1
            chk.notes.setdefault("order_drift_samples", []).append({"model": want_order, "real": order})
        yield gi, reached[0], exp, order


def base_extents(chk, font, fmt, gname, ctx, replay):
    """COLRv0: the base glyph's own outline (the extents contour) spans its layers - whatever the outline flavour."""
    if not fmt.endswith("colr_0") or "COLR" not in font or gname not in font["COLR"].ColorLayers:
        return
    from fontTools.pens.boundsPen import ControlBoundsPen

    gs = font.getGlyphSet()
    pen = ControlBoundsPen(gs)
    gs[gname].draw(pen)
    bb = pen.bounds
    lb = []
    for layer in font["COLR"].ColorLayers[gname]:
        p2 = ControlBoundsPen(gs)
        gs[layer.name].draw(p2)
        if p2.bounds:
            lb.append(p2.bounds)
    if not lb:
        return
    ub = [min(b[0] for b in lb), min(b[1] for b in lb), max(b[2] for b in lb), max(b[3] for b in lb)]
    if bb is None or bb[0] > ub[0] + 1.5 or bb[1] > ub[1] + 1.5 or bb[2] < ub[2] - 1.5 or bb[3] < ub[3] - 1.5:
        chk.violation(f"{ctx} [{fmt}]: base glyph {gname} spans {bb}, its layers span {ub}", replay)


def run(chk):
    quick = chk.tier == "quick"
    chk.rule = (
        "Flatten.tla: every forest of <=4 leaves (leaf = PaintGlyph, optionally under one reuse transform; groups of >=2 "
        "children nested <=2 deep) model-checked; each forest concretised and built as COLRv0, emitted order compared "
        "with the model; solid group-free scenarios compared layer by layer incl. palette colour/alpha and base-glyph "
        "extents; random scenarios (gradients, groups, reuse) in glyf / glyf_colr_0 / cff_colr_0 / cff2_colr_0 for the "
        "exactly-once claim.  Non-trivial = >=2 layers; distinct by forest / scenario."
    )
    res = common.run_tlc("Flatten", "Flatten.cfg", timeout=900)
    chk.add_tlc(res, "Flatten (exhaustive)")
    if not res.ok:
        chk.tlc_violation(res, "Flatten")
    if res.vacuous_actions():
        raise MachineryError(f"vacuous: {res.vacuous_actions()}")
    chk.exhaustive = True
    from . import pathpen_check
    pathpen_check.run(chk, thorough=not quick)   # the pen every glyf outline is drawn through (PathPen.tla)
    recs = res.records
    if len(recs) < 100:
        raise MachineryError("too few forests")
    chk.sample(recs[len(recs) // 2])
    r0 = common.rng("C03")
    r0.shuffle(recs)
    for k, rec in enumerate(recs[: (90 if quick else len(recs))]):
        r = common.rng("C03", "f", k)
        layers = forest_to_specs(rec["roots"], r)
        text = svg_nested(layers)
        fmt = V0_FORMATS[k % 3] if k % 5 == 0 else "glyf_colr_0"
        cfg = build.base_config(color_format=fmt, keep_glyph_names=True, clip_to_viewbox=False, **CC.VARIANTS[k % 4])
        pico = build.to_picosvg(text).tostring()
        src = build.Src("emoji_u1f600.svg", pico)
        replay = {"kind": "forest", "forest": rec["roots"], "svg": pico, "format": fmt}
        chk.case(key=json.dumps(rec["roots"], sort_keys=True), nontrivial=len(layers) >= 2)
        chk.traces_validated += 1
        try:
            _, font = build.build(cfg, [src], already_pico=True)
        except Exception as e:
            chk.violation(f"valid source fails to build ({fmt}): {type(e).__name__}: {str(e)[:160]}", replay)
            continue
        want = [e["id"] - 1 for e in rec["emitted"]]
        for gi, gname, exp, order in check_exactly_once(chk, font, cfg, fmt, [src], f"forest {k}", replay, want_order=want):
            if rec["depth"] == 0:
                # the image claim: no group opacity, solid fills -> same picture, in z-order, palette colour + alpha
                got = oracle_cmp.colr_layers(font, gname)
                glyphs = [((0x1F600,), (0, 0, 100, 100), [L for _, L, _ in layers])]
                deltas = CC.layer_deltas(glyphs, cfg, 0.1)[0]
                for p in oracle_cmp.compare(exp, got, deltas, grid=14, ctx=f"forest {k} [{fmt}]: "):
                    if "too small" not in p:
                        chk.violation(p, replay)
                # base glyph extents cover all layers
                if True:   # glyf, CFF and CFF2 alike: what the outline of the base glyph spans
                    from fontTools.pens.boundsPen import ControlBoundsPen

                    gs = font.getGlyphSet()
                    pen = ControlBoundsPen(gs)
                    gs[gname].draw(pen)
                    bb = pen.bounds
                    ub = [min(s.shapes[0].bounds[i] for s in got) for i in (0, 1)] + [max(s.shapes[0].bounds[i] for s in got) for i in (2, 3)]
                    if bb is None or bb[0] > ub[0] + 1.5 or bb[1] > ub[1] + 1.5 or bb[2] < ub[2] - 1.5 or bb[3] < ub[3] - 1.5:
                        chk.violation(f"forest {k} [{fmt}]: base glyph bounds {bb} do not cover the layers' bounds {ub}", replay)
    # solid fills whose colour spells its own alpha, on shapes with an opacity of their own: the COLRv0 layer's palette entry
    # carries the product (guards fix 4df48a8)
    for k, (label, glyphs) in enumerate(g for g in S.stop_alpha_grid() if g[0].startswith("solid")):
        fmt = V0_FORMATS[k % 3]
        cfg = build.base_config(color_format=fmt, keep_glyph_names=True, clip_to_viewbox=False)
        srcs = CC.sources_from(glyphs)
        replay = {"kind": "solid-alpha", "label": label, "format": fmt, "svgs": [x.svg_text for x in srcs]}
        chk.case(key=("solid-alpha", label), nontrivial=True)
        chk.traces_validated += 1
        try:
            _, font = build.build(cfg, srcs, already_pico=True)
        except Exception as e:
            chk.violation(f"valid source fails to build ({fmt}) [{label}]: {type(e).__name__}: {str(e)[:160]}", replay)
            continue
        for gi, gname, exp, order in check_exactly_once(chk, font, cfg, fmt, srcs, f"solid alpha [{label}]", replay):
            got = oracle_cmp.colr_layers(font, gname)
            for p in oracle_cmp.compare(exp, got, CC.layer_deltas(glyphs, cfg, 0.1)[0], grid=14, ctx=f"solid alpha [{label}] [{fmt}]: "):
                if "too small" not in p:
                    chk.violation(p, replay)
    # any source: exactly once, in glyf and COLRv0 flavours
    for k in range(50 if quick else 1500):
        r = common.rng("C03", "r", k)
        glyphs = S.random_scenario(r, reuse_bias=0.6, allow_special=False)
        fmt = r.choice(["glyf", "glyf", "glyf_colr_0", "cff_colr_0", "cff2_colr_0"])
        tol = r.choice([0.1, 0.1, -1.0])
        cfg = build.base_config(color_format=fmt, keep_glyph_names=True, clip_to_viewbox=False, reuse_tolerance=tol)
        srcs = CC.sources_from(glyphs)
        replay = {"kind": "random", "seed": [chk.seed, k], "format": fmt, "svgs": [s.svg_text for s in srcs]}
        chk.case(key=("random", k), nontrivial=sum(len(g[2]) for g in glyphs) >= 2)
        chk.traces_validated += 1
        try:
            _, font = build.build(cfg, srcs, already_pico=True)
        except Exception as e:
            chk.violation(f"valid sources fail to build ({fmt}): {type(e).__name__}: {str(e)[:160]}", replay)
            continue
        for _gi, _gname, _exp, _order in check_exactly_once(chk, font, cfg, fmt, srcs, f"random {k}", replay):
            base_extents(chk, font, fmt, _gname, f"random {k}", replay)
    # coincidence-seeking: axis-aligned copies on an integer lattice, so that reused shapes are placed through
    # PaintScale[Uniform][AroundCenter] / PaintTranslate (their gettransform() is what glyf / COLRv0 use to place a copy)
    for k in range(36 if quick else 600):
        r = common.rng("C03", "lattice", k)
        glyphs = S.lattice_scenario(r)
        fmt = ["glyf", "glyf_colr_0", "cff_colr_0", "cff2_colr_0"][k % 4]
        kw = dict(S.LATTICE_CONFIG)   # 10 font units per lattice unit: quantisation stays far below the overlap criterion
        cfg = build.base_config(color_format=fmt, keep_glyph_names=True, clip_to_viewbox=False, reuse_tolerance=0.1, **kw)
        srcs = CC.sources_from(glyphs)
        replay = {"kind": "lattice", "seed": [chk.seed, k], "format": fmt, "config": kw, "svgs": [s.svg_text for s in srcs]}
        chk.case(key=("lattice", k), nontrivial=True)
        chk.traces_validated += 1
        try:
            _, font = build.build(cfg, srcs, already_pico=True)
        except Exception as e:
            chk.violation(f"valid sources fail to build ({fmt}): {type(e).__name__}: {str(e)[:160]}", replay)
            continue
        for _gi, _gname, _exp, _order in check_exactly_once(chk, font, cfg, fmt, srcs, f"lattice {k}", replay):
            base_extents(chk, font, fmt, _gname, f"lattice {k}", replay)
    # every kind of reuse transform, solid fills, in glyf and the three COLRv0 flavours
    for k, (label, glyphs) in enumerate(S.reuse_fill_grid(solid_only=True)):
        for fmt in (["glyf", "glyf_colr_0", "cff_colr_0", "cff2_colr_0"][k % 4], "glyf"):
            cfg = build.base_config(color_format=fmt, keep_glyph_names=True, clip_to_viewbox=False, reuse_tolerance=0.1, **S.LATTICE_CONFIG)
            srcs = CC.sources_from(glyphs)
            replay = {"kind": "reuse-grid", "label": label, "format": fmt, "svgs": [x.svg_text for x in srcs]}
            chk.case(key=("reuse-grid", label, fmt), nontrivial=True)
            chk.traces_validated += 1
            try:
                _, font = build.build(cfg, srcs, already_pico=True)
            except Exception as e:
                chk.violation(f"valid sources fail to build ({fmt}): {type(e).__name__}: {str(e)[:160]}", replay)
                continue
            for _gi, _gname, _exp, _order in check_exactly_once(chk, font, cfg, fmt, srcs, f"reuse grid [{label}]", replay):
                base_extents(chk, font, fmt, _gname, f"reuse grid [{label}]", replay)
    chk.assumptions += ["a layer 'places' a source outline when their sampled overlap is >= 60% (one-to-one matching)"]


def replay(path):
    print(open(path).read()[:8000])
    return 0
