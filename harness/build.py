"""In-process builds with the real nanoemoji pipeline (write_font._generate_color_font),
mirroring what the `write_font` ninja step does: picosvg-normalise (as the picosvg step does),
glyph names / codepoints from the file name, generated ccmp fea, save and reload the binary."""
import io
import os
import tempfile
from pathlib import Path

from . import common


def base_config(**overrides):
    common.setup_repo_imports()
    from nanoemoji import config

    cfg = config.load(config_file=None, additional_srcs=None)
    if "transform" in overrides and isinstance(overrides["transform"], str):
        from picosvg.svg_transform import Affine2D

        overrides["transform"] = Affine2D.fromstring(overrides["transform"])
    fmt = overrides.get("color_format", cfg.color_format)
    if "output_file" not in overrides:
        ext = ".otf" if fmt.startswith("cff") else ".ttf"
        overrides["output_file"] = "Font" + ext
    return cfg._replace(**overrides).validate()


def to_picosvg(svg_text, clip_to_viewbox=False):
    from picosvg.svg import SVG

    svg = SVG.fromstring(svg_text)
    svg = svg.topicosvg()
    if clip_to_viewbox:
        svg.clip_to_viewbox(inplace=True)
    return svg


class Src:
    """One source: file name (carries the codepoints), SVG text and/or PNG bytes."""

    def __init__(self, filename, svg_text=None, png_bytes=None, cps=None, glyph_name=None):
        self.filename = filename
        self.svg_text = svg_text
        self.png_bytes = png_bytes
        self._cps = cps
        self._glyph_name = glyph_name

    @property
    def cps(self):
        if self._cps is not None:
            return tuple(self._cps)
        from nanoemoji import codepoints

        return tuple(codepoints.from_filename(Path(self.filename).stem))

    @property
    def glyph_name(self):
        if self._glyph_name is not None:
            return self._glyph_name
        from nanoemoji.glyph import glyph_name

        return glyph_name(self.cps)


def inputs_for(cfg, srcs, already_pico=False):
    from nanoemoji import write_font
    from nanoemoji.png import PNG
    from picosvg.svg import SVG

    out = []
    for s in srcs:
        svg = None
        if cfg.has_svgs and s.svg_text is not None:
            if cfg.has_picosvgs and not already_pico:
                svg = to_picosvg(s.svg_text, cfg.clip_to_viewbox)
            else:
                svg = SVG.fromstring(s.svg_text)
        bitmap = None
        if cfg.has_bitmaps and s.png_bytes is not None:
            bitmap = PNG(s.png_bytes)
        out.append(
            write_font.InputGlyph(
                Path(s.filename) if svg is not None else None,
                Path(s.filename).with_suffix(".png") if bitmap is not None else None,
                s.cps,
                s.glyph_name,
                svg,
                bitmap,
            )
        )
    return out


def build(cfg, srcs, reload=True, fea=True, already_pico=False):
    """Returns (ufo, ttfont).  ttfont is saved to bytes and reloaded (lazy=False) when reload."""
    from fontTools import ttLib
    from nanoemoji import features, write_font

    inputs = inputs_for(cfg, srcs, already_pico=already_pico)
    fea_path = None
    try:
        if fea:
            fd, fea_path = tempfile.mkstemp(suffix=".fea", prefix="nev-")
            with os.fdopen(fd, "w") as f:
                f.write(features.generate_fea({s.cps for s in srcs if len(s.cps) > 1}))   # as write_fea does
            cfg = cfg._replace(fea_file=fea_path)
        else:
            cfg = cfg._replace(fea_file="")
        ufo, ttfont = write_font._generate_color_font(cfg, inputs)
    finally:
        if fea_path:
            os.unlink(fea_path)
    if ttfont is not None and reload:
        ttfont = reload_font(ttfont)
    return ufo, ttfont


def font_bytes(ttfont):
    buf = io.BytesIO()
    ttfont.save(buf)
    return buf.getvalue()


def reload_font(ttfont_or_bytes):
    from fontTools import ttLib

    data = ttfont_or_bytes if isinstance(ttfont_or_bytes, bytes) else font_bytes(ttfont_or_bytes)
    font = ttLib.TTFont(io.BytesIO(data), lazy=False)
    for tag in font.keys():
        font[tag]  # force decompile
    return font
