"""PathPen.tla <-> svg_path.draw_svg_path / SVGPathPen: every command sequence of the model is given concrete, pairwise
distinct coordinates, drawn by the real function onto a RecordingPen (B1) and the calls compared with the model's; the
same path drawn onto the real SVGPathPen must come back as itself (the direction colr_to_svg relies on).  Paths outside
picosvg's normal form are replayed too (the model describes what the code does there; the invariants that need `Normal`
are not claimed for them)."""
from . import common
from .common import MachineryError

_NARGS = {"M": 1, "L": 1, "C": 3, "Q": 2, "Z": 0}
_METHOD = {"M": "moveTo", "L": "lineTo", "C": "curveTo", "Q": "qCurveTo", "Z": "closePath"}


def _concrete(cmds):
    """-> (d string, [(cmd, points)]) with every point distinct and off any symmetry"""
    n, parts, seq = 0, [], []
    for c in cmds:
        pts = []
        for _ in range(_NARGS[c]):
            n += 1
            pts.append((float(7 * n + 3), float((n * n * 5) % 97 + n)))
        seq.append((c, tuple(pts)))
        parts.append(c + " ".join(f"{x:g},{y:g}" for x, y in pts))
    return " ".join(parts), seq


def run(chk, thorough=False):
    res = common.run_tlc("PathPen", "PathPen_deep.cfg" if thorough else "PathPen.cfg", timeout=900)
    chk.add_tlc(res, "PathPen (every normal-form command sequence x close_subpaths: PenProtocol, Denotes, ClosedIffZ, "
                     "NothingDropped, RoundTrip, RoundTripClosed, termination)")
    if not res.ok:
        chk.tlc_violation(res, "PathPen")
    anyp = common.run_tlc("PathPen", "PathPen_any.cfg", timeout=600, coverage=False)
    chk.add_tlc(anyp, "PathPen_any (every command sequence of <= 4, normal or not: NothingDropped, RoundTrip)")
    if not anyp.ok:
        chk.tlc_violation(anyp, "PathPen_any")
    neg = common.run_tlc("PathPen", "PathPen_any_protocol.cfg", timeout=600, coverage=False)
    chk.add_tlc(neg, "PathPen_any_protocol (no normal-form guarantee: expected to violate PenProtocol)")
    if neg.ok:
        raise MachineryError("PathPen_any_protocol.cfg holds: PenProtocol is vacuous")

    common.setup_repo_imports()
    from fontTools.pens.recordingPen import RecordingPen
    from picosvg.svg_types import SVGPath
    from nanoemoji.svg_path import SVGPathPen, draw_svg_path

    seen = set()
    for rec in list(res.records) + list(anyp.records):
        cmds, close = tuple(rec["path"]), bool(rec["close"])
        if (cmds, close) in seen:
            continue
        seen.add((cmds, close))
        d, seq = _concrete(cmds)
        replay = {"kind": "path-pen", "d": d, "close_subpaths": close, "model_calls": rec["calls"]}
        chk.case(key=("pathpen", "".join(cmds), close), nontrivial=rec["normal"] and cmds.count("M") > 1)
        chk.traces_validated += 1
        pen = RecordingPen()
        try:
            draw_svg_path(SVGPath(d=d), pen, close_subpaths=close)
        except Exception as e:
            chk.violation(f"draw_svg_path refuses the path {d!r}: {type(e).__name__}: {e}", replay)
            continue
        got = [name for name, _ in pen.value]
        if got != list(rec["calls"]):
            chk.violation(f"draw_svg_path({d!r}, close_subpaths={close}) calls the pen with {got}; the contours of the "
                          f"path are {list(rec['calls'])} (one moveTo ... closePath|endPath per sub-path)", replay)
            continue
        # the points travel with their command, in order
        want_pts = [pts for c, pts in seq if c != "Z"]
        got_pts = [args for name, args in pen.value if name not in ("closePath", "endPath")]
        if got_pts != want_pts:
            chk.violation(f"draw_svg_path({d!r}) hands the pen the points {got_pts}, the path has {want_pts}", replay)
        if not close:
            back = SVGPathPen()
            draw_svg_path(SVGPath(d=d), back)
            if list(back.path.as_cmd_seq()) != list(SVGPath(d=d).as_cmd_seq()):
                chk.violation(f"drawing {d!r} onto SVGPathPen writes back {back.path.d!r}", replay)
    if len(seen) < 500:
        raise MachineryError(f"too few PathPen behaviours exported ({len(seen)})")
