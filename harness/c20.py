"""C20: every configuration option reaches the font it configures.

Config.tla (fields = FontConfig._fields, worker flags parsed from the real build.ninja) enumerates provenance vectors
(default / file / flag / both) and predicts which value the font-building step sees; every vector is replayed on the
real CLI and the option's observable is read from the written font.  Multi-configuration invocations: each font must
equal the font its configuration produces alone (Build.tla graph extraction + real builds)."""
import hashlib
import io
import json
import os
import re
import shutil
from concurrent.futures import ThreadPoolExecutor
from pathlib import Path

from . import cli, common, ninja_graph
from .common import MachineryError

SVG_SQ = ('<svg xmlns="http://www.w3.org/2000/svg" viewBox="0 0 100 100">'
          '<rect x="20" y="20" width="30" height="20" fill="#CC2244"/><rect x="55" y="60" width="30" height="20" fill="#2244CC"/>'
          '<rect x="-30" y="40" width="50" height="10" fill="#22CC44"/></svg>\n')  # last rect pokes out of the viewBox
SVG_2 = ('<svg xmlns="http://www.w3.org/2000/svg" viewBox="0 0 100 100">'
         '<path d="M10,80 L40,20 L70,80 Z" fill="#885500"/></svg>\n')
SVG_WIDE = ('<svg xmlns="http://www.w3.org/2000/svg" viewBox="0 0 150 100">'
            '<rect x="10" y="20" width="120" height="50" fill="#AA3311"/></svg>\n')
SOURCES = {"src/emoji_u1f600.svg": SVG_SQ, "src/emoji_u1f601_200d_1f600.svg": SVG_2}

# field -> (file value, flag value, base format family)
VALUES = {
    "family": ("File Fam", "Flag Fam", "vec"),
    "output_file": ("FileOut.otf", "FlagOut.ttf", "vec"),   # the suffix also selects the outline flavour
    "color_format": ("glyf_colr_0", "picosvg", "vec"),
    "upem": (2048, 1000, "vec"),
    "width": (1000, 900, "vec"),
    "ascender": (900, 800, "vec"),
    "descender": (-200, -100, "vec"),
    "linegap": (50, 100, "vec"),
    "transform": ("translate(10, 20)", "translate(-30, 5)", "vec"),
    "version_major": (2, 3, "vec"),
    "version_minor": (5, 17, "vec"),
    "reuse_tolerance": (-1.0, 0.5, "vec"),
    "ignore_reuse_error": (False, True, "vec"),
    "keep_glyph_names": (True, False, "vec_nonames"),
    "clip_to_viewbox": (False, True, "vec"),
    "clipbox_quantization": (7, 50, "vec"),
    "pretty_print": (True, False, "svg"),
    "fea_file": ("file.fea", "flag.fea", "vec"),
    "glyphmap_generator": ("custom_glyphmap_file", "custom_glyphmap_flag", "vec"),
    "bitmap_resolution": (64, 32, "bitmap"),
    "use_zopflipng": (False, True, "bitmap"),
    "use_pngquant": (False, True, "bitmap"),
    "pngquant_flags": ("--speed 5 --quality 40-60", "--speed 10 --quality 10-30", "bitmap"),
}
BASE = {
    "vec": {"color_format": "glyf_colr_1", "keep_glyph_names": True},
    "vec_nonames": {"color_format": "glyf_colr_1"},
    "svg": {"color_format": "picosvg"},
    "bitmap": {"color_format": "cbdt", "keep_glyph_names": True},
}
KF_FEA = "fea_file-hidden-by-write_font-rule-flag"
KF_BITMAP = "bitmap-intermediates-keyed-by-source-name"
KF_GLYPHMAP_SEQ = "custom-glyph-names-with-sequences"

CUSTOM_GLYPHMAP = '''
import sys
from absl import app, flags
from nanoemoji import codepoints, util
from nanoemoji.glyphmap import GlyphMapping
from pathlib import Path
FLAGS = flags.FLAGS
flags.DEFINE_string("output_file", "-", "")
PREFIX = "%s"
def main(argv):
    files = util.expand_ninja_response_files(argv[1:])
    with util.file_printer(FLAGS.output_file) as print:
        for f in files:
            cps = tuple(codepoints.from_filename(Path(f).stem))
            print(GlyphMapping(Path(f), None, cps, PREFIX + "_".join("%%x" %% c for c in cps)).csv_line())
if __name__ == "__main__":
    app.run(main)
'''
FEA = "languagesystem DFLT dflt;\nfeature %s {\n  sub g_1f601 g_200d g_1f600 by g_1f601_200d_1f600;\n} %s;\n"


def toml_value(v):
    if isinstance(v, bool):
        return "true" if v else "false"
    if isinstance(v, (int, float)):
        return repr(v)
    return json.dumps(v)


def flag_args(field, v):
    if isinstance(v, bool):
        return [f"--{'' if v else 'no'}{field}"]
    return [f"--{field}", str(v)]


def default_of(field):
    from nanoemoji.config import FontConfig

    return getattr(FontConfig(), field)


def concrete(field, prov):
    """-> (file value or None, flag value or None, intended value)"""
    fv, gv, _ = VALUES[field]
    d = default_of(field)
    if isinstance(d, bool):
        # booleans have two values: file = not default; with 'both' the flag restores the default explicitly
        fv, gv = (not d), (d if prov == "both" else (not d))
    file_v = fv if prov in ("file", "both") else None
    flag_v = gv if prov in ("flag", "both") else None
    intended = flag_v if flag_v is not None else (file_v if file_v is not None else d)
    return file_v, flag_v, intended


def observe(sb, font_name):
    """Everything C20 names as an observable, read from the font the CLI wrote."""
    from fontTools.ttLib import TTFont

    p = sb.build / font_name
    if not p.exists():
        return None
    f = TTFont(str(p), lazy=False)
    obs = {"tables": sorted(f.keys())}
    name = f["name"]
    obs["family"] = name.getDebugName(1)
    obs["upem"] = f["head"].unitsPerEm
    obs["revision"] = round(f["head"].fontRevision, 3)
    obs["hhea"] = (f["hhea"].ascent, f["hhea"].descent, f["hhea"].lineGap)
    os2 = f["OS/2"]
    obs["typo"] = (os2.sTypoAscender, os2.sTypoDescender, os2.sTypoLineGap)
    obs["use_typo"] = bool(os2.fsSelection & (1 << 7))
    obs["post"] = f["post"].formatType
    order = f.getGlyphOrder()
    obs["glyph_order"] = order
    cmap = f.getBestCmap()
    obs["space_adv"] = f["hmtx"][cmap[0x20]][0] if 0x20 in cmap else None
    g600 = cmap.get(0x1F600)
    obs["adv_1f600"] = f["hmtx"][g600][0] if g600 else None
    obs["name_1f600"] = g600
    obs["colr_version"] = f["COLR"].version if "COLR" in f else None
    if "COLR" in f and f["COLR"].version == 1 and f["COLR"].table.ClipList:
        obs["clips"] = sorted({(c.xMin, c.yMin, c.xMax, c.yMax) for c in f["COLR"].table.ClipList.clips.values()})
    if "glyf" in f:
        gs = f["glyf"]
        bounds = {}
        for gn in order:
            g = gs[gn]
            if g.numberOfContours and hasattr(g, "xMin"):
                bounds[gn] = (g.xMin, g.yMin, g.xMax, g.yMax)
        obs["bounds"] = bounds
        obs["n_glyphs"] = len(order)
    if obs["colr_version"] == 1 and g600:
        from . import oracle_cmp

        try:
            ls = oracle_cmp.colr_layers(f, g600)
            bs = [sh.bounds for L in ls for sh in L.shapes if sh.bounds]
            obs["paint_bounds"] = (min(b[0] for b in bs), min(b[1] for b in bs), max(b[2] for b in bs), max(b[3] for b in bs)) if bs else None
        except Exception:
            obs["paint_bounds"] = None
    if "GSUB" in f:
        obs["features"] = sorted({fr.FeatureTag for fr in f["GSUB"].table.FeatureList.FeatureRecord})
    if "SVG " in f:
        obs["svg_doc0"] = f["SVG "].docList[0].data if hasattr(f["SVG "].docList[0], "data") else f["SVG "].docList[0][0]
    if "CBLC" in f:
        obs["ppem"] = [s.bitmapSizeTable.ppemX for s in f["CBLC"].strikes]
        data = f["CBDT"].strikeData[0]
        obs["bearing_y"] = sorted({d.metrics.BearingY for d in data.values()})
        obs["png_sha"] = {gn: hashlib.sha256(d.imageData).hexdigest()[:16] for gn, d in data.items()}
    return obs


def expected_ok(field, intended, obs, base_obs, sb):
    """None if the observable matches the intended value, else a description."""
    d = default_of(field)
    if field == "family":
        return None if obs["family"] == intended else f"name ID 1 = {obs['family']!r}"
    if field == "upem":
        return None if obs["upem"] == intended else f"head.unitsPerEm = {obs['upem']}"
    if field == "width":
        em = 1200
        want_adv = max(intended, em)
        if obs["space_adv"] != intended:
            return f"space advance {obs['space_adv']} != width {intended}"
        return None if obs["adv_1f600"] == want_adv else f"advance {obs['adv_1f600']} != max(width, em) {want_adv}"
    if field in ("ascender", "descender", "linegap"):
        i = {"ascender": 0, "descender": 1, "linegap": 2}[field]
        if obs["hhea"][i] != intended or obs["typo"][i] != intended:
            return f"hhea {obs['hhea']} / OS/2 typo {obs['typo']} do not carry {field}={intended}"
        return None if obs["use_typo"] else "USE_TYPO_METRICS not set"
    if field in ("version_major", "version_minor"):
        major = intended if field == "version_major" else 1
        minor = intended if field == "version_minor" else 0
        want = round(major + minor / 1000, 3)
        return None if obs["revision"] == want else f"head.fontRevision {obs['revision']} != {want}"
    if field == "color_format":
        if intended == "glyf_colr_0":
            return None if obs["colr_version"] == 0 else f"COLR version {obs['colr_version']}"
        if intended == "picosvg":
            return None if "SVG " in obs["tables"] and "COLR" not in obs["tables"] else f"tables {obs['tables']}"
        return None if obs["colr_version"] == 1 else f"COLR version {obs['colr_version']}"
    if field == "keep_glyph_names":
        want = 2 if intended else 3
        return None if obs["post"] == want else f"post format {obs['post']} != {want}"
    if field == "transform":
        m = re.match(r"translate\((-?\d+), (-?\d+)\)", intended) if isinstance(intended, str) else None
        dx, dy = (int(m.group(1)), int(m.group(2))) if m else (0, 0)
        b, nb = base_obs.get("paint_bounds"), obs.get("paint_bounds")
        if not b or not nb or any(abs(nb[i] - (b[i] + (dx, dy, dx, dy)[i])) > 2 for i in range(4)):
            return f"painted bounds {nb} != base {b} shifted by ({dx},{dy})"
        return None
    if field == "reuse_tolerance":
        base_n = base_obs["n_glyphs"]  # default tolerance reuses the congruent rects
        if intended == -1.0:
            return None if obs["n_glyphs"] > base_n else f"reuse disabled but still {obs['n_glyphs']} glyphs (base {base_n})"
        return None if obs["n_glyphs"] <= base_n else f"reuse enabled but {obs['n_glyphs']} glyphs (base {base_n})"
    if field == "clip_to_viewbox":
        if not obs.get("paint_bounds"):
            return "no painted bounds"
        xmin = obs["paint_bounds"][0]   # through the paint graph (the rect may be a transformed reuse of another)
        # the third rect starts at x=-30 (viewBox units) => left of the advance origin when not clipped
        clipped = xmin >= 0 - 1 + 37  # scale 12, dx = (1275-1200)/2 = 37.5
        return None if clipped == intended else f"clip_to_viewbox={intended} but leftmost outline x={xmin}"
    if field == "clipbox_quantization":
        q = intended if intended is not None else round(1024 * 0.02)
        bad = [c for c in obs.get("clips", []) if any(v % q for v in c)]
        if not obs.get("clips"):
            return "no clip boxes"
        if bad:
            return f"clip boxes {bad} not multiples of {q}"
        if intended is not None and all(all(v % 20 == 0 for v in c) for c in obs["clips"]) and q not in (20, 10, 5, 4, 2, 1):
            # cannot distinguish from the default step only if every edge is also a multiple of 20*q
            pass
        return None
    if field == "pretty_print":
        doc = obs.get("svg_doc0", "")
        has_nl = "\n" in doc.strip()
        return None if has_nl == bool(intended) else f"pretty_print={intended} but SVG doc newline={has_nl}"
    if field == "fea_file":
        tag = {"file.fea": "rlig", "flag.fea": "liga"}.get(intended)
        if tag is None:
            return None
        return None if tag in obs.get("features", []) else f"GSUB features {obs.get('features')} lack '{tag}' from {intended}"
    if field == "glyphmap_generator":
        pref = {"custom_glyphmap_file": "fileg", "custom_glyphmap_flag": "flagg"}.get(intended, "g_")
        return None if str(obs["name_1f600"]).startswith(pref) else f"glyph name {obs['name_1f600']} lacks prefix {pref}"
    if field == "bitmap_resolution":
        ppem = round(1024 * intended / 1200)
        if not (obs.get("ppem") and all(p == ppem for p in obs["ppem"])):
            return f"strike ppem {obs.get('ppem')} for resolution {intended}"
        # the resolution also decides where the bitmap sits: its top at the scaled ascender
        top = 950 * ppem / 1024
        if any(abs(b - top) > 2 for b in obs.get("bearing_y", [])):
            return f"bitmaps rendered at {intended} px are placed with BearingY {obs['bearing_y']}, the scaled ascender is {top:.1f} px"
        return None
    if field in ("use_zopflipng", "use_pngquant", "pngquant_flags"):
        return None  # judged by png bytes below
    if field == "output_file":
        # "output file name in the path and outline flavour": .otf -> CFF outlines, .ttf -> TrueType outlines
        cff = any(t in obs["tables"] for t in ("CFF ", "CFF2"))
        want_cff = str(intended).endswith(".otf")
        return None if cff == want_cff and ("glyf" in obs["tables"]) != want_cff else \
            f"output file {intended}: outline tables {[t for t in obs['tables'] if t in ('glyf', 'CFF ', 'CFF2')]}"
    if field == "ignore_reuse_error":
        return None
    return None


def png_expectation(sb, cfgvals, obs):
    """CBDT image bytes must be the final PNG of the pipeline the options select."""
    use_z = cfgvals.get("use_zopflipng", True)
    use_q = cfgvals.get("use_pngquant", True)
    d = "zopflipng" if use_z else ("pngquant" if use_q else "bitmap")
    bad = []
    for gn, sha in obs.get("png_sha", {}).items():
        pass
    files = sorted((sb.build / d).glob("*.png"))
    want = {hashlib.sha256(p.read_bytes()).hexdigest()[:16] for p in files}
    got = set(obs.get("png_sha", {}).values())
    if not got or not got <= want:
        return f"CBDT images are not the PNGs in build/{d}/"
    # the other stages must exist / not exist as selected
    if use_q != (sb.build / "pngquant").exists():
        return f"use_pngquant={use_q} but pngquant dir exists={(sb.build / 'pngquant').exists()}"
    return None


def run_vector(work: Path, tag, field, prov, with_sequence=None):
    file_v, flag_v, intended = concrete(field, prov)
    fam = VALUES[field][2]
    base = dict(BASE[fam])
    root = work / f"v-{tag}"
    sb = cli.Sandbox(root)
    if with_sequence is None:
        with_sequence = field != "glyphmap_generator"  # custom glyph names + sequences: see KF_GLYPHMAP_SEQ
    for p, t in SOURCES.items():
        if with_sequence or "_200d_" not in p:
            sb.write(p, t)
    if fam == "bitmap":
        # a source wider than tall: the strike size follows bitmap_resolution through the bitmap's HEIGHT
        sb.write("src/emoji_u1f602.svg", SVG_WIDE)
    sb.write("file.fea", FEA % ("rlig", "rlig"))
    sb.write("flag.fea", FEA % ("liga", "liga"))
    sb.write("pylib/custom_glyphmap_file.py", CUSTOM_GLYPHMAP % "fileg")
    sb.write("pylib/custom_glyphmap_flag.py", CUSTOM_GLYPHMAP % "flagg")
    cfg = {"output_file": "Font.ttf"}
    cfg.update(base)
    if file_v is not None:
        cfg[field] = file_v
    lines = [f"{k} = {toml_value(v)}" for k, v in cfg.items()]
    lines += ["[axis.wght]", 'name = "Weight"', "default = 400", "[master.regular]", 'style_name = "Regular"',
              'srcs = ["src/*.svg"]', "[master.regular.position]", "wght = 400"]
    sb.write("config.toml", "\n".join(lines) + "\n")
    args = ["config.toml"] + (flag_args(field, flag_v) if flag_v is not None else [])
    env = {"PYTHONPATH": os.pathsep.join([str(common.repo_root() / "src"), cli.SHIM, str(root / "pylib")])}
    try:
        rc, out = sb.run(args, env=env)
        font_name = "Font.ttf"
        if field == "output_file":
            font_name = intended if intended != default_of("output_file") else "Font.ttf"
            if file_v is None and flag_v is None:
                font_name = "Font.ttf"
        info = {"rc": rc, "args": args, "config": "\n".join(lines), "log": out[-600:] if rc else ""}
        if rc != 0:
            return field, prov, intended, None, info, None
        obs = observe(sb, font_name)
        pngs = None
        if fam == "bitmap" and obs is not None:
            vals = {"use_zopflipng": True, "use_pngquant": True}
            vals[field] = intended
            pngs = png_expectation(sb, vals, obs)
        wtoml = (sb.build / Path(font_name).with_suffix(".toml").name)
        info["worker_toml"] = wtoml.read_text() if wtoml.exists() else None
        return field, prov, intended, obs, info, pngs
    finally:
        shutil.rmtree(root, ignore_errors=True)


def transform_placement(chk, work: Path, quick):
    """'... and the user transform in glyph placement': transforms WITH off-diagonal terms (shear, rotation, general affine),
    given in the file or as a flag, in an OT-SVG and a COLRv1 build through the real CLI; the glyph is judged by the
    picture oracles of C02 / C01 under the INTENDED configuration (a translation alone cannot tell a mirrored shear)."""
    import io

    from fontTools.ttLib import TTFont

    from . import build, c02
    from . import compile_check as CC
    from . import scenarios as S

    wanted = ["matrix(1 0.2 0 1 0 0)", "rotate(15)", "matrix(0.8 0.3 -0.2 1.1 30 -20)"][: 2 if quick else 3]
    grid = [g for g in S.transform_fill_grid() if g[0].endswith("x linear-bbox") and g[1] in wanted]
    jobs = []
    for k, (label, t, glyphs) in enumerate(grid):
        for j, fmt in enumerate(("picosvg", "glyf_colr_1")):
            jobs.append((k, label, t, glyphs, fmt, ["file", "flag"][(k + j) % 2]))

    def one(job):
        k, label, t, glyphs, fmt, prov = job
        root = work / f"t-{k}-{fmt}"
        sb = cli.Sandbox(root)
        srcs = CC.sources_from(glyphs)
        for src in srcs:
            sb.write(f"src/{src.filename}", src.svg_text)
        kw = {"color_format": fmt, "keep_glyph_names": True, "clip_to_viewbox": False, "reuse_tolerance": 0.1}
        cfg = {"output_file": "Font.ttf"}
        cfg.update(kw)
        if prov == "file":
            cfg["transform"] = t
        lines = [f"{a} = {toml_value(b)}" for a, b in cfg.items()]
        lines += ["[axis.wght]", 'name = "Weight"', "default = 400", "[master.regular]", 'style_name = "Regular"',
                  'srcs = ["src/*.svg"]', "[master.regular.position]", "wght = 400"]
        sb.write("config.toml", "\n".join(lines) + "\n")
        args = ["config.toml"] + (flag_args("transform", t) if prov == "flag" else [])
        try:
            rc, out = sb.run(args)
            p = sb.build / "Font.ttf"
            data = p.read_bytes() if rc == 0 and p.exists() else None
            return job, rc, out[-500:], data, srcs, kw, args, "\n".join(lines)
        finally:
            shutil.rmtree(root, ignore_errors=True)

    with ThreadPoolExecutor(4) as ex:
        results = list(ex.map(one, jobs))
    for (k, label, t, glyphs, fmt, prov), rc, log, data, srcs, kw, args, text in results:
        chk.case(key=("transform-placement", t, fmt, prov), nontrivial=True)
        chk.traces_validated += 1
        replay = {"kind": "transform-placement", "transform": t, "format": fmt, "provenance": prov, "args": args, "config": text,
                  "svgs": [x.svg_text for x in srcs]}
        if data is None:
            chk.violation(f"transform {t} by {prov} ({fmt}): build failed or font missing (rc={rc}): {log[-200:]}", replay)
            continue
        font = TTFont(io.BytesIO(data))
        cfg = build.base_config(transform=t, **kw)
        ctx = f"user transform {t} given by {prov} [{fmt}]"
        if fmt == "picosvg":
            c02.check_pictures(chk, font, cfg, srcs, glyphs, 0.1, ctx, replay, deltas=CC.layer_deltas(glyphs, cfg, 0.1))
        else:
            CC.check_font_pictures(chk, font, cfg, srcs, glyphs, 0.1, ctx, replay, deltas=CC.layer_deltas(glyphs, cfg, 0.1))


# ------------------------------------------------------------------ multi-configuration isolation
def _cfg_text(out, opts):
    lines = [f'output_file = "{out}"'] + [f"{k} = {toml_value(v)}" for k, v in opts.items()]
    lines += ["[axis.wght]", 'name = "Weight"', "default = 400", "[master.regular]", 'style_name = "Regular"',
              'srcs = ["src/*.svg"]', "[master.regular.position]", "wght = 400"]
    return "\n".join(lines) + "\n"


PAIRS = [
    ("clip_to_viewbox", {"clip_to_viewbox": True}, {"clip_to_viewbox": False}, None),
    ("metrics", {"ascender": 950, "descender": -250}, {"ascender": 800, "descender": -200, "width": 900}, None),
    ("reuse_tolerance", {"reuse_tolerance": 0.1}, {"reuse_tolerance": -1.0}, None),
    ("color_format", {"color_format": "glyf_colr_1"}, {"color_format": "picosvg"}, None),
    ("upem+transform", {"upem": 1024}, {"upem": 2048, "transform": "translate(5, 5)"}, None),
    ("bitmap_resolution", {"color_format": "cbdt", "bitmap_resolution": 32}, {"color_format": "cbdt", "bitmap_resolution": 64}, KF_BITMAP),
    ("use_pngquant", {"color_format": "cbdt", "use_pngquant": True}, {"color_format": "cbdt", "use_pngquant": False}, KF_BITMAP),
    ("pngquant_flags", {"color_format": "cbdt", "pngquant_flags": "--speed 5 --quality 40-60"},
     {"color_format": "cbdt", "pngquant_flags": "--speed 10 --quality 5-20"}, KF_BITMAP),
    ("bitmap_vs_vector", {"color_format": "cbdt"}, {"color_format": "glyf_colr_1"}, None),
]


def run_pair(work: Path, tag, name, a, b, order):
    def build(cfgs, sub):
        root = work / f"p-{tag}-{sub}"
        sb = cli.Sandbox(root)
        for p, t in SOURCES.items():
            sb.write(p, t)
        sb.write("a.toml", _cfg_text("A.ttf", a))
        sb.write("b.toml", _cfg_text("B.ttf", b))
        rc, out = sb.run(cfgs)
        res = (rc, sb.sha("A.ttf"), sb.sha("B.ttf"), out[-400:] if rc else "")
        shutil.rmtree(root, ignore_errors=True)
        return res

    multi = build(["a.toml", "b.toml"] if order == 0 else ["b.toml", "a.toml"], "m")
    sa = build(["a.toml"], "a")
    sbb = build(["b.toml"], "b")
    return name, order, multi, sa, sbb


def run(chk):
    from nanoemoji.config import FontConfig

    quick = chk.tier == "quick"
    chk.rule = (
        "Config.tla over FontConfig._fields (B3) x provenance {default,file,flag,both}, one perturbed field at a time "
        "(pairs in thorough); each vector replayed on the real CLI and the field's observable read from the written "
        "font.  Pairs of configurations built in one invocation vs alone, compared by sha256.  Non-trivial = a "
        "non-default provenance / a pair differing in an option; distinct by (field, provenance) or pair."
    )
    fields = [f for f in FontConfig._fields if f not in ("axes", "masters", "source_names")]
    missing = [f for f in fields if f not in VALUES]
    if missing:
        chk.notes["fields_without_observable_mapping"] = missing  # new field in the code: reported, still modelled
    null_default = [f for f in fields if getattr(FontConfig(), f) is None]
    with common.scratch("c20-") as work:
        # B3: which option flags does the write_font rule pass itself?
        g = ninja_graph.extract(work / "g", {"src/emoji_u1f600.svg": SVG_SQ}, ["src/emoji_u1f600.svg"])
        if g["rc"] != 0:
            raise MachineryError("cannot extract graph")
        font_cmd = [e["cmd"] for e in g["edges"] if e["rule"] == "write_font"][0]
        worker_flags = sorted(set(re.findall(r"--(\w+)", font_cmd)) & set(fields))
        chk.notes["worker_rule_flags"] = worker_flags
        sd = work / "spec"
        sd.mkdir()
        shutil.copy(common.SPEC / "Config.tla", sd / "Config.tla")

        def q(xs):
            return "{" + ", ".join(json.dumps(x) for x in xs) + "}"

        (sd / "Config.cfg").write_text(
            f"SPECIFICATION Spec\nCONSTANTS\n  Fields = {q(fields)}\n  NullDefault = {q(null_default)}\n"
            f"  WorkerFlags = {q(worker_flags)}\n  MaxPerturbed = {1 if quick else 2}\n"
            "INVARIANT Precedence\nINVARIANT RoundTrip\nINVARIANT Export\n")
        res = common.run_tlc("Config", "Config.cfg", spec_dir=sd, timeout=1800)
        chk.add_tlc(res, f"Config: {len(fields)} fields, <= {1 if quick else 2} perturbed")
        if not res.ok:
            chk.tlc_violation(res, "Config")
        if res.vacuous_actions():
            raise MachineryError(f"vacuous: {res.vacuous_actions()}")
        # model-level Reaches: which fields does the model say do NOT reach the worker?
        hidden = set()
        singles = []
        for rec in res.records:
            pv = rec["prov"]
            if len(pv) != 1:
                continue
            (f, p), = pv.items()
            singles.append((f, p))
            want = "G" if p in ("flag", "both") else "F"
            if rec["worker"][f] != want:
                hidden.add(f)
        chk.notes["model_fields_not_reaching_worker"] = sorted(hidden)
        chk.sample({"vector": singles[0] if singles else None})

        # base observations per family
        bases = {}
        for fam in BASE:
            f0 = [k for k, v in VALUES.items() if v[2] == fam][0]
            _, _, _, obs, info, _ = run_vector(work, f"base-{fam}", f0, "default")
            if obs is None:
                chk.violation(f"the base configuration ({BASE[fam]}) with no option perturbed does not build "
                              f"(rc={info['rc']})", {"family": fam, "info": info})
                raise MachineryError(f"base build for family {fam} failed")
            bases[fam] = obs
        jobs = [(f, p) for f, p in singles if f in VALUES]
        if quick:
            r = common.rng("c20")
            # every field given by file and given by flag; 'both' (flag wins) for a rotating third of the fields
            sel = []
            for i, f in enumerate(sorted({f for f, _ in jobs})):
                sel += [(f, "file"), (f, "flag")]
                if (i + chk.seed) % 3 == 0 or f in ("upem", "family", "keep_glyph_names", "bitmap_resolution"):
                    sel.append((f, "both"))
            jobs = sel

        def one(k_job):
            k, (f, p) = k_job
            return run_vector(work, f"{k}", f, p)

        with ThreadPoolExecutor(6) as ex:
            results = list(ex.map(one, enumerate(jobs)))
        for field, prov, intended, obs, info, pngs in results:
            chk.case(key=(field, prov), nontrivial=True)
            chk.traces_validated += 1
            replay = {"field": field, "provenance": prov, "intended": repr(intended), "info": info}
            if obs is None:
                chk.violation(f"{field} by {prov}: build failed or font missing (rc={info['rc']})", replay)
                continue
            why = expected_ok(field, intended, obs, bases[VALUES[field][2]], None)
            if why is None and pngs is not None:
                why = pngs
            if field == "output_file" and obs is None:
                why = "font not written under the requested name"
            if why is not None:
                key = KF_FEA if field == "fea_file" else None
                chk.violation(f"option {field}={intended!r} given by {prov} does not reach the font: {why}", replay,
                              finding_key=key)
            elif field in hidden:
                chk.notes.setdefault("model_drift", []).append(f"model says {field} is hidden by a rule flag but it reached the font")
        # custom glyph names together with a multi-codepoint sequence (generated fea uses the default names)
        field, prov, intended, obs, info, _ = run_vector(work, "gm-seq", "glyphmap_generator", "flag", with_sequence=True)
        chk.case(key=("glyphmap_generator", "flag", "sequence"), nontrivial=True)
        if obs is None or expected_ok(field, intended, obs, bases["vec"], None) is not None:
            chk.violation("glyphmap_generator with custom glyph names and a codepoint sequence: build fails "
                          f"(rc={info['rc']})", {"field": field, "info": info}, finding_key=KF_GLYPHMAP_SEQ)
        # ---- the user transform in glyph placement, beyond translations
        transform_placement(chk, work, quick)
        # ---- multi-configuration invocations
        pair_jobs = [(i, p, o) for i, p in enumerate(PAIRS) for o in ((0,) if quick else (0, 1))]

        def onep(job):
            i, (name, a, b, kf), o = job
            return kf, run_pair(work, f"{i}-{o}", name, a, b, o)

        with ThreadPoolExecutor(4) as ex:
            presults = list(ex.map(onep, pair_jobs))
        for kf, (name, order, multi, sa, sbb) in presults:
            chk.case(key=("pair", name, order), nontrivial=True)
            chk.traces_validated += 1
            replay = {"pair": name, "order": order, "multi": multi, "single_a": sa, "single_b": sbb}
            if sa[0] != 0 or sbb[0] != 0:
                chk.violation(f"pair {name}: a configuration fails even alone: {sa[3] or sbb[3]}", replay)
                continue
            if multi[0] != 0:
                chk.violation(f"pair {name}: building both configurations in one invocation fails: {multi[3][-200:]}",
                              replay, finding_key=kf)
                continue
            if multi[1] != sa[1] or multi[2] != sbb[2]:
                which = "A" if multi[1] != sa[1] else "B"
                chk.violation(f"pair {name}: font {which} built together with the other configuration differs from "
                              f"the font its configuration produces alone", replay, finding_key=kf)
        chk.sample({"pairs": [p[0] for p in PAIRS]})
    chk.assumptions += ["observables per option as listed in the property text; ignore_reuse_error has none and is "
                        "checked only through the resolved TOML (C10)"]


def replay(path):
    print(open(path).read()[:6000])
    return 0
