"""C11: reordering glyphs leaves every table's meaning intact.

Reorder.tla (a coverage with its parallel array and a glyph-keyed list under any permutation that keeps .notdef first)
is model-checked for MeaningAction and Sorted (and, as a vacuity control, violated when the rule forgets the parallel
array).  Template fonts containing every lookup type/format named in the property (feaLib where it emits the format,
direct otTables construction otherwise) are permuted by the real reorder_glyphs, saved and reloaded; a name-keyed
semantic extraction written from the OpenType spec (independent of _REORDER_RULES) is compared before / after, and
every coverage of the saved binary must be in increasing glyph-id order."""
import io
import itertools
import json

from . import common
from .common import MachineryError

GLYPHS = [".notdef", "a", "b", "c", "d", "e", "f", "acute", "grave", "dot", "f_i"]

FEA = """
languagesystem DFLT dflt;
@marks = [acute grave];
markClass acute <anchor 100 500> @TOP;
markClass grave <anchor 120 510> @TOP;
markClass dot <anchor 50 -20> @BOT;
lookup singlepos1 { pos a 30; pos b 30; pos c 30; } singlepos1;
lookup singlepos2 { pos a <10 0 20 0>; pos b <11 0 21 0>; pos d <12 0 22 0>; } singlepos2;
lookup pair1 { pos a b -40; pos a c -41; pos d a -42; pos b e -43; } pair1;
lookup pair2 { pos [a b] [c d] -50; pos [e f] [a b] -51; } pair2;
lookup curs { pos cursive a <anchor 0 10> <anchor 500 20>; pos cursive c <anchor 1 11> <anchor 501 21>; pos cursive b <anchor NULL> <anchor 502 22>; } curs;
lookup mkbase { pos base a <anchor 250 600> mark @TOP <anchor 240 -10> mark @BOT; pos base e <anchor 260 610> mark @TOP <anchor 230 -12> mark @BOT; pos base c <anchor 255 605> mark @TOP <anchor 235 -11> mark @BOT; } mkbase;
lookup mklig { pos ligature f_i <anchor 100 600> mark @TOP <anchor 90 -5> mark @BOT ligComponent <anchor 300 601> mark @TOP <anchor 290 -6> mark @BOT; } mklig;
lookup mkmk { pos mark acute <anchor 100 700> mark @TOP; pos mark grave <anchor 110 710> mark @TOP; } mkmk;
lookup single { sub a by b; sub c by d; sub e by f; } single;
lookup multi { sub f_i by f a; sub d by a b; } multi;
lookup alt { sub a from [b c d]; sub e from [f a]; } alt;
lookup liga { sub f a by f_i; sub a b c by d; sub a b by e; } liga;
lookup chainsub { sub [a b] c' lookup single [d e]; sub e' lookup single a; } chainsub;
lookup chainpos { pos [c d] a' lookup singlepos1 b; } chainpos;
lookup rev { rsub [a b] c' [d e] by f; rsub a' by b; } rev;
# several slots of one rule carrying the SAME glyph set (distinct Coverage objects with equal content)
lookup chainsame { sub [a b c] [a b c] e' lookup single; sub c' lookup single [b d f] [b d f]; } chainsame;
lookup ctxsame { sub [a c]' lookup single [a c]' lookup single; } ctxsame;
lookup chainpossame { pos [b d e] [b d e] a' lookup singlepos1 [c f] [c f]; } chainpossame;
lookup revsame { rsub [a b d] [a b d] c' [e f] [e f] by f; } revsame;
# reverse chaining over several covered glyphs with different substitutes (the coverage-indexed Substitute array)
lookup revmulti { rsub [d e] [a b c]' by [f a b]; rsub [c e f]' [a] by [d f e]; } revmulti;
lookup extrevmulti useExtension { rsub [b d f]' by [a c e]; } extrevmulti;
# the same kinds of rules inside Extension lookups (GSUB type 7 / GPOS type 9 wrap the real subtable)
lookup extpair useExtension { pos b c -31; pos e a -32; pos [c d] [e f] -33; } extpair;
lookup extsinglepos useExtension { pos d 44; pos a 45; pos f 46; } extsinglepos;
lookup extsingle useExtension { sub b by c; sub d by e; sub f by a; } extsingle;
lookup extchain useExtension { sub [b c f] a' lookup single [d e]; } extchain;
lookup extliga useExtension { sub e d by f_i; sub c a by b; } extliga;
lookup filt { lookupflag UseMarkFilteringSet @marks; pos a acute -10; } filt;
# tables that are EQUAL in content to another one (the same rules written twice, first glyphs with identical pair lists):
# a walk that recognises tables by their content rather than their identity would take them for one
lookup pair1dup { pos a b -40; pos a c -41; pos d a -42; pos b e -43; } pair1dup;
lookup pairtwins { pos a e -7; pos a f -8; pos c e -7; pos c f -8; pos b e -7; pos b f -8; } pairtwins;
lookup singlepos1dup { pos a 30; pos b 30; pos c 30; } singlepos1dup;
lookup chainsubdup { sub [a b] c' lookup single [d e]; sub e' lookup single a; } chainsubdup;
lookup revdup { rsub [a b] c' [d e] by f; rsub a' by b; } revdup;
feature kern { lookup singlepos1; lookup singlepos2; lookup pair1; lookup pair2; lookup curs; lookup chainpos; lookup chainpossame; lookup filt; lookup extpair; lookup extsinglepos; lookup pair1dup; lookup pairtwins; lookup singlepos1dup; } kern;
feature mark { lookup mkbase; lookup mklig; } mark;
feature mkmk { lookup mkmk; } mkmk;
feature liga { lookup multi; lookup alt; lookup liga; lookup chainsub; lookup rev; lookup chainsame; lookup ctxsame; lookup revsame; lookup extsingle; lookup extchain; lookup extliga; lookup revmulti; lookup extrevmulti; lookup chainsubdup; lookup revdup; } liga;
table GDEF {
  GlyphClassDef [a b c d e f], [f_i], [acute grave dot], ;
  LigatureCaretByPos f_i 300;
  LigatureCaretByPos d 111 222;
  Attach a 1 2;
  Attach e 3;
  Attach c 4 5 6;
} GDEF;
"""


def template_font():
    from fontTools.fontBuilder import FontBuilder
    from fontTools.pens.ttGlyphPen import TTGlyphPen
    from fontTools.ttLib.tables import otTables as ot
    from fontTools.otlLib import builder as otl

    fb = FontBuilder(1000, isTTF=True)
    fb.setupGlyphOrder(GLYPHS)
    fb.setupCharacterMap({0x61 + i: g for i, g in enumerate(GLYPHS[1:7])})
    glyphs = {}
    for i, g in enumerate(GLYPHS):
        pen = TTGlyphPen(None)
        pen.moveTo((0, 0)); pen.lineTo((100 + 10 * i, 0)); pen.lineTo((100 + 10 * i, 50 + i)); pen.closePath()
        glyphs[g] = pen.glyph()
    fb.setupGlyf(glyphs)
    fb.setupHorizontalMetrics({g: (500 + 7 * i, i) for i, g in enumerate(GLYPHS)})
    fb.setupHorizontalHeader()
    fb.setupNameTable({})
    fb.setupOS2()
    fb.setupPost()
    fb.addOpenTypeFeatures(FEA)
    font = fb.font
    gm = font.getReverseGlyphMap()
    gsub, gpos = font["GSUB"].table, font["GPOS"].table
    single_idx = 0  # lookup 'single' index in GSUB
    for i, lk in enumerate(gsub.LookupList.Lookup):
        if lk.LookupType == 1:
            single_idx = i
            break
    pos1_idx = 0

    def add_lookup(table, ltype, subtables):
        lk = ot.Lookup()
        lk.LookupType, lk.LookupFlag, lk.SubTable = ltype, 0, subtables
        lk.SubTableCount = len(subtables)
        table.LookupList.Lookup.append(lk)
        table.LookupList.LookupCount = len(table.LookupList.Lookup)
        idx = len(table.LookupList.Lookup) - 1
        table.FeatureList.FeatureRecord[0].Feature.LookupListIndex.append(idx)
        table.FeatureList.FeatureRecord[0].Feature.LookupCount += 1
        return idx

    def rec(cls, seq, lookup):
        r = cls()
        r.SequenceIndex, r.LookupListIndex = seq, lookup
        return r

    # ContextSubst format 1: first glyphs a, c, e with different rule sets
    def ctx1(kind, firsts, lookup_idx):
        Sub = kind == "Subst"
        st = getattr(ot, f"Context{kind}")()
        st.Format = 1
        st.Coverage = otl.buildCoverage(firsts, gm)
        sets = []
        for n, g in enumerate(sorted(firsts, key=gm.get)):
            rs = getattr(ot, "SubRuleSet" if Sub else "PosRuleSet")()
            rule = getattr(ot, "SubRule" if Sub else "PosRule")()
            rule.Input = [GLYPHS[1 + (n + 2) % 6]]
            rule.GlyphCount = 2
            recs = [rec(ot.SubstLookupRecord if Sub else ot.PosLookupRecord, n % 2, lookup_idx)]
            setattr(rule, "SubstLookupRecord" if Sub else "PosLookupRecord", recs)
            setattr(rule, "SubstCount" if Sub else "PosCount", 1)
            setattr(rs, "SubRule" if Sub else "PosRule", [rule])
            setattr(rs, "SubRuleCount" if Sub else "PosRuleCount", 1)
            sets.append(rs)
        setattr(st, "SubRuleSet" if Sub else "PosRuleSet", sets)
        setattr(st, "SubRuleSetCount" if Sub else "PosRuleSetCount", len(sets))
        return st

    def ctx2(kind, cov, lookup_idx):
        Sub = kind == "Subst"
        st = getattr(ot, f"Context{kind}")()
        st.Format = 2
        st.Coverage = otl.buildCoverage(cov, gm)
        cd = ot.ClassDef()
        cd.classDefs = {"a": 1, "b": 1, "c": 2, "e": 2}
        st.ClassDef = cd
        sets = []
        for cl in range(3):
            if cl == 0:
                sets.append(None)
                continue
            rs = getattr(ot, "SubClassSet" if Sub else "PosClassSet")()
            rule = getattr(ot, "SubClassRule" if Sub else "PosClassRule")()
            rule.Class = [3 - cl]
            rule.GlyphCount = 2
            recs = [rec(ot.SubstLookupRecord if Sub else ot.PosLookupRecord, 0, lookup_idx)]
            setattr(rule, "SubstLookupRecord" if Sub else "PosLookupRecord", recs)
            setattr(rule, "SubstCount" if Sub else "PosCount", 1)
            setattr(rs, "SubClassRule" if Sub else "PosClassRule", [rule])
            setattr(rs, "SubClassRuleCount" if Sub else "PosClassRuleCount", 1)
            sets.append(rs)
        setattr(st, "SubClassSet" if Sub else "PosClassSet", sets)
        setattr(st, "SubClassSetCount" if Sub else "PosClassSetCount", len(sets))
        return st

    def ctx3(kind, covs, lookup_idx):
        Sub = kind == "Subst"
        st = getattr(ot, f"Context{kind}")()
        st.Format = 3
        st.Coverage = [otl.buildCoverage(c, gm) for c in covs]
        st.GlyphCount = len(covs)
        recs = [rec(ot.SubstLookupRecord if Sub else ot.PosLookupRecord, 0, lookup_idx)]
        setattr(st, "SubstLookupRecord" if Sub else "PosLookupRecord", recs)
        setattr(st, "SubstCount" if Sub else "PosCount", 1)
        return st

    def chain1(kind, firsts, lookup_idx):
        Sub = kind == "Subst"
        st = getattr(ot, f"ChainContext{kind}")()
        st.Format = 1
        st.Coverage = otl.buildCoverage(firsts, gm)
        sets = []
        for n, g in enumerate(sorted(firsts, key=gm.get)):
            rs = getattr(ot, "ChainSubRuleSet" if Sub else "ChainPosRuleSet")()
            rule = getattr(ot, "ChainSubRule" if Sub else "ChainPosRule")()
            rule.Backtrack, rule.Input, rule.LookAhead = [GLYPHS[1 + n % 6]], [GLYPHS[2 + n % 5]], [GLYPHS[3 + n % 4]]
            rule.BacktrackGlyphCount, rule.InputGlyphCount, rule.LookAheadGlyphCount = 1, 2, 1
            recs = [rec(ot.SubstLookupRecord if Sub else ot.PosLookupRecord, n % 2, lookup_idx)]
            setattr(rule, "SubstLookupRecord" if Sub else "PosLookupRecord", recs)
            setattr(rule, "SubstCount" if Sub else "PosCount", 1)
            setattr(rs, "ChainSubRule" if Sub else "ChainPosRule", [rule])
            setattr(rs, "ChainSubRuleCount" if Sub else "ChainPosRuleCount", 1)
            sets.append(rs)
        setattr(st, "ChainSubRuleSet" if Sub else "ChainPosRuleSet", sets)
        setattr(st, "ChainSubRuleSetCount" if Sub else "ChainPosRuleSetCount", len(sets))
        return st

    def chain2(kind, cov, lookup_idx):
        Sub = kind == "Subst"
        st = getattr(ot, f"ChainContext{kind}")()
        st.Format = 2
        st.Coverage = otl.buildCoverage(cov, gm)
        for nm, defs in (("BacktrackClassDef", {"a": 1}), ("InputClassDef", {"b": 1, "c": 1, "d": 2}), ("LookAheadClassDef", {"e": 1})):
            cd = ot.ClassDef()
            cd.classDefs = defs
            setattr(st, nm, cd)
        sets = [None]
        for cl in (1, 2):
            rs = getattr(ot, "ChainSubClassSet" if Sub else "ChainPosClassSet")()
            rule = getattr(ot, "ChainSubClassRule" if Sub else "ChainPosClassRule")()
            rule.Backtrack, rule.Input, rule.LookAhead = [1], [3 - cl], [1]
            rule.BacktrackGlyphCount, rule.InputGlyphCount, rule.LookAheadGlyphCount = 1, 2, 1
            recs = [rec(ot.SubstLookupRecord if Sub else ot.PosLookupRecord, 0, lookup_idx)]
            setattr(rule, "SubstLookupRecord" if Sub else "PosLookupRecord", recs)
            setattr(rule, "SubstCount" if Sub else "PosCount", 1)
            setattr(rs, "ChainSubClassRule" if Sub else "ChainPosClassRule", [rule])
            setattr(rs, "ChainSubClassRuleCount" if Sub else "ChainPosClassRuleCount", 1)
            sets.append(rs)
        setattr(st, "ChainSubClassSet" if Sub else "ChainPosClassSet", sets)
        setattr(st, "ChainSubClassSetCount" if Sub else "ChainPosClassSetCount", len(sets))
        return st

    add_lookup(gsub, 5, [ctx1("Subst", ["a", "c", "e"], single_idx), ctx2("Subst", ["a", "b", "c", "e"], single_idx),
                         ctx3("Subst", [["a", "c"], ["b", "d", "e"]], single_idx)])
    add_lookup(gsub, 6, [chain1("Subst", ["b", "d", "f"], single_idx), chain2("Subst", ["b", "c", "d"], single_idx)])
    add_lookup(gpos, 7, [ctx1("Pos", ["b", "d", "f"], pos1_idx), ctx2("Pos", ["a", "c", "e"], pos1_idx),
                         ctx3("Pos", [["e", "a"], ["c", "b"]], pos1_idx)])
    add_lookup(gpos, 8, [chain1("Pos", ["a", "e"], pos1_idx), chain2("Pos", ["c", "d", "b"], pos1_idx)])
    buf = io.BytesIO()
    font.save(buf)
    return buf.getvalue()


# ---------------------------------------------------------------- name-keyed meaning, from the OpenType spec
# arrays that are indexed by a coverage: (class name, format) -> [(coverage attribute, array attribute)]
COVERAGE_INDEXED = {
    ("SinglePos", 2): [("Coverage", "Value")],
    ("PairPos", 1): [("Coverage", "PairSet")],
    ("CursivePos", 1): [("Coverage", "EntryExitRecord")],
    ("MarkBasePos", 1): [("MarkCoverage", "MarkArray.MarkRecord"), ("BaseCoverage", "BaseArray.BaseRecord")],
    ("MarkLigPos", 1): [("MarkCoverage", "MarkArray.MarkRecord"), ("LigatureCoverage", "LigatureArray.LigatureAttach")],
    ("MarkMarkPos", 1): [("Mark1Coverage", "Mark1Array.MarkRecord"), ("Mark2Coverage", "Mark2Array.Mark2Record")],
    ("ContextSubst", 1): [("Coverage", "SubRuleSet")], ("ContextPos", 1): [("Coverage", "PosRuleSet")],
    ("ChainContextSubst", 1): [("Coverage", "ChainSubRuleSet")], ("ChainContextPos", 1): [("Coverage", "ChainPosRuleSet")],
    ("ReverseChainSingleSubst", 1): [("Coverage", "Substitute")],
    ("AttachList", None): [("Coverage", "AttachPoint")],
    ("LigCaretList", None): [("Coverage", "LigGlyph")],
}


def _get(obj, dotted):
    for a in dotted.split("."):
        obj = getattr(obj, a)
    return obj


def dump(obj, skip=()):
    from fontTools.ttLib.tables import otBase
    from fontTools.ttLib.tables import otTables as ot

    if obj is None or isinstance(obj, (int, float, str, bool)):
        return obj
    if isinstance(obj, (list, tuple)):
        return [dump(x) for x in obj]
    if isinstance(obj, dict):
        return {str(k): dump(v) for k, v in sorted(obj.items(), key=lambda kv: str(kv[0]))}
    if isinstance(obj, ot.Coverage):
        return {"coverage": sorted(obj.glyphs)}
    if isinstance(obj, ot.ClassDef):
        return {"classdef": dict(sorted(obj.classDefs.items()))}
    if isinstance(obj, otBase.ValueRecord):
        return {k: v for k, v in sorted(obj.__dict__.items()) if isinstance(v, (int, float))}
    if isinstance(obj, otBase.BaseTable):
        name = type(obj).__name__
        fmt = getattr(obj, "Format", None)
        out = {"_type": name, "_format": fmt}
        handled = set(skip)
        for cov_attr, arr_attr in COVERAGE_INDEXED.get((name, fmt), []):
            cov = _get(obj, cov_attr)
            arr = _get(obj, arr_attr)
            out[f"{cov_attr}=>{arr_attr}"] = {g: dump(e) for g, e in zip(cov.glyphs, arr)}
            handled.add(cov_attr.split(".")[0])
            handled.add(arr_attr.split(".")[0])
        if name == "PairSet":
            out["by_second"] = {r.SecondGlyph: [dump(r.Value1), dump(r.Value2)] for r in obj.PairValueRecord}
            handled.add("PairValueRecord")
        for k, v in sorted(obj.__dict__.items()):
            if k in handled or k.endswith("Count") or k in ("Format", "reader", "sortCoverageLast"):
                continue
            out[k] = dump(v)
        return out
    return repr(obj)


def meaning(font):
    """Everything C11 names, keyed by glyph name."""
    m = {"cmap": {f"{cp:04x}": g for cp, g in sorted(font.getBestCmap().items())},
         "hmtx": dict(sorted(font["hmtx"].metrics.items())),
         "glyf": ({g: (list(map(tuple, font["glyf"][g].coordinates)) if font["glyf"][g].numberOfContours > 0 else []) for g in font.getGlyphOrder()}
                  if "glyf" in font else {})}
    for tag in ("GSUB", "GPOS", "GDEF"):
        if tag in font:
            m[tag] = dump(font[tag].table)
    return m


def coverages_sorted(font):
    """Every Coverage of the reloaded binary lists glyphs in increasing glyph id."""
    from fontTools.ttLib.tables import otBase
    from fontTools.ttLib.tables import otTables as ot

    bad = []
    gm = font.getReverseGlyphMap()
    seen = set()

    def walk(o, path):
        if id(o) in seen:
            return
        seen.add(id(o))
        if isinstance(o, ot.Coverage):
            ids = [gm[g] for g in o.glyphs]
            if ids != sorted(ids):
                bad.append((path, o.glyphs))
            return
        if isinstance(o, ot.PairSet):   # records are looked up by binary search on SecondGlyph
            ids = [gm[r.SecondGlyph] for r in o.PairValueRecord]
            if ids != sorted(ids):
                bad.append((path + ".PairValueRecord", [r.SecondGlyph for r in o.PairValueRecord]))
        if isinstance(o, otBase.BaseTable):
            for k, v in o.__dict__.items():
                walk(v, f"{path}.{k}")
        elif isinstance(o, (list, tuple)):
            for i, v in enumerate(o):
                walk(v, f"{path}[{i}]")

    for tag in ("GSUB", "GPOS", "GDEF"):
        if tag in font:
            walk(font[tag].table, tag)
    return bad


def formats_present(font):
    from fontTools.ttLib.tables import otBase

    found = set()
    seen = set()

    def walk(o):
        if id(o) in seen:
            return
        seen.add(id(o))
        if isinstance(o, otBase.BaseTable):
            found.add((type(o).__name__, getattr(o, "Format", None)))
            for v in o.__dict__.values():
                walk(v)
        elif isinstance(o, (list, tuple)):
            for v in o:
                walk(v)

    for tag in ("GSUB", "GPOS", "GDEF"):
        if tag in font:
            walk(font[tag].table)
    return found


REQUIRED = {("SinglePos", 1), ("SinglePos", 2), ("PairPos", 1), ("PairPos", 2), ("CursivePos", 1), ("MarkBasePos", 1),
            ("MarkLigPos", 1), ("MarkMarkPos", 1), ("ContextSubst", 1), ("ContextSubst", 2), ("ContextSubst", 3),
            ("ContextPos", 1), ("ContextPos", 2), ("ContextPos", 3), ("ChainContextSubst", 1), ("ChainContextSubst", 2),
            ("ChainContextSubst", 3), ("ChainContextPos", 1), ("ChainContextPos", 2), ("ChainContextPos", 3),
            ("ReverseChainSingleSubst", 1), ("AttachList", None), ("LigCaretList", None), ("MarkGlyphSetsDef", None)}


def _name_facts(font):
    from fontTools.pens.recordingPen import RecordingPen

    gs = font.getGlyphSet()
    facts = {"cmap": dict(font.getBestCmap()), "hmtx": {g: tuple(font["hmtx"][g]) for g in font.getGlyphOrder()}, "outline": {}}
    for g in font.getGlyphOrder():
        pen = RecordingPen()
        gs[g].draw(pen)
        facts["outline"][g] = repr(pen.value)
    if "COLR" in font:
        colr = font["COLR"]
        if colr.version == 0:
            facts["colr"] = {g: [(l.name, l.colorID) for l in ls] for g, ls in colr.ColorLayers.items()}
        else:
            from fontTools.misc.testTools import getXML

            facts["colr"] = {r.BaseGlyph: "\n".join(getXML(r.Paint.toXML, font)) for r in colr.table.BaseGlyphList.BaseGlyphPaintRecord}
    facts["layout"] = meaning(font)
    return facts


def flavours(chk, n_perms):
    from fontTools.ttLib import TTFont
    from nanoemoji import reorder_glyphs

    from . import build, c04, scenarios as S

    for fi, fmt in enumerate(["cff_colr_1", "cff2_colr_1", "glyf_colr_1", "cff_colr_0", "glyf"]):
        cfg = build.base_config(color_format=fmt, keep_glyph_names=True, clip_to_viewbox=False)
        vb = (0, 0, 100, 100)
        srcs = [build.Src(S.filename_for(S.CODEPOINTS[i]), c04.svg_for(i, vb), None) for i in range(4)]
        try:
            _, built = build.build(cfg, srcs, reload=False)
            data = build.font_bytes(built)
        except Exception as e:
            raise MachineryError(f"cannot build the {fmt} font to reorder: {e}")
        base = TTFont(io.BytesIO(data), lazy=False)
        want = _name_facts(base)
        order0 = base.getGlyphOrder()
        for k in range(n_perms):
            r = common.rng("C11", "flavour", fmt, k)
            rest = order0[1:]
            r.shuffle(rest)
            order = [order0[0]] + rest
            font = TTFont(io.BytesIO(data), lazy=False)
            for tag in font.keys():
                font[tag]
            replay = {"kind": "flavour", "format": fmt, "new_order": order}
            chk.case(key=("flavour", fmt, tuple(order)), nontrivial=order != order0)
            chk.traces_validated += 1
            try:
                reorder_glyphs.reorder_glyphs(font, order)
                buf = io.BytesIO()
                font.save(buf)
                again = TTFont(io.BytesIO(buf.getvalue()), lazy=False)
            except Exception as e:
                chk.violation(f"{fmt}: reorder_glyphs/save fails for {order}: {type(e).__name__}: {str(e)[:160]}", replay)
                continue
            if again.getGlyphOrder() != order:
                chk.violation(f"{fmt}: glyph order after reorder and reload is {again.getGlyphOrder()}, asked for {order}", replay)
                continue
            got = _name_facts(again)
            for what in want:
                if got.get(what) != want[what]:
                    chk.violation(f"{fmt}: {what} by glyph name changed under the permutation {order}: {_first_diff(want[what], got.get(what))}", replay)
                    break
            bad = coverages_sorted(again)
            if bad:
                chk.violation(f"{fmt}: coverage not in increasing glyph-id order in the saved binary: {bad[:2]}", replay)


def run(chk):
    from fontTools.ttLib import TTFont
    from nanoemoji import reorder_glyphs

    quick = chk.tier == "quick"
    chk.rule = (
        "Reorder.tla over all coverage subsets x payload assignments x sequences of two permutations of 4 glyphs; a template font with "
        "every lookup type/format of the property (24 subtable kinds) permuted by the real reorder_glyphs under "
        "random permutations keeping .notdef first (thorough: 2000), saved, reloaded; name-keyed meaning and coverage "
        "order compared.  Non-trivial = the permutation is not the identity; distinct by permutation."
    )
    res = common.run_tlc("Reorder", "Reorder.cfg", timeout=900)
    chk.add_tlc(res, "Reorder (exhaustive)")
    if not res.ok:
        chk.tlc_violation(res, "Reorder")
    if res.vacuous_actions():
        raise MachineryError(f"vacuous: {res.vacuous_actions()}")
    for cfg, what in (("Reorder_noparallel.cfg", "a rule that forgets its parallel array: expected to violate MeaningAction"),
                      ("Reorder_memo.cfg", "sort permutation remembered from the first call: expected to violate Sorted in the second")):
        neg = common.run_tlc("Reorder", cfg, timeout=900, coverage=False)
        chk.add_tlc(neg, f"{cfg[:-4]} ({what})")
        if neg.ok:
            raise MachineryError(f"{cfg} holds: the property it should break is vacuous")
    chk.exhaustive = True
    data = template_font()
    base = TTFont(io.BytesIO(data), lazy=False)
    have = formats_present(base)
    missing = REQUIRED - have
    if missing:
        raise MachineryError(f"template font lacks {sorted(missing, key=str)}")
    chk.notes["subtable_kinds_in_template"] = sorted(f"{a}/{b}" for a, b in have if (a, b) in REQUIRED)
    want = meaning(base)
    r = common.rng("C11")
    rest = GLYPHS[1:]
    perms = []
    for _ in range(60 if quick else 2000):
        p = list(rest)
        r.shuffle(p)
        perms.append([".notdef"] + p)
    perms.append([".notdef"] + list(reversed(rest)))
    for k, order in enumerate(perms):
        font = TTFont(io.BytesIO(data), lazy=False)
        for tag in font.keys():
            font[tag]
        chk.case(key=tuple(order), nontrivial=order != GLYPHS)
        chk.traces_validated += 1
        # Reorder.tla's MeaningAction speaks about every call in a sequence of calls on one font: a third of the cases
        # permute the SAME font object two or three times (saving in between), ending in `order`
        chain = [order]
        if k % 3 == 0:
            for _ in range(1 + k % 2):
                p = list(rest)
                r.shuffle(p)
                chain.insert(0, [".notdef"] + p)
        replay = {"new_order": order, "successive_orders_on_one_font_object": chain}
        try:
            for step in chain:
                reorder_glyphs.reorder_glyphs(font, step)
                buf = io.BytesIO()
                font.save(buf)
            again = TTFont(io.BytesIO(buf.getvalue()), lazy=False)
        except Exception as e:
            chk.violation(f"reorder_glyphs/save fails for {order}: {type(e).__name__}: {str(e)[:160]}", replay)
            continue
        if again.getGlyphOrder() != order:
            chk.violation(f"glyph order after reorder is {again.getGlyphOrder()}", replay)
            continue
        got = meaning(again)
        for tag in want:
            if got.get(tag) != want[tag]:
                detail = _first_diff(want[tag], got.get(tag))
                chk.violation(f"{tag}: name-keyed meaning changed under permutation {order}: {detail}", replay)
        bad = coverages_sorted(again)
        if bad:
            chk.violation(f"coverage not in increasing glyph-id order in the saved binary: {bad[:2]}", replay)
    # the same on fonts the compiler itself writes, in every outline flavour (glyf, CFF, CFF2): outlines, metrics, character
    # map, colour records and the ccmp ligatures by glyph NAME before and after
    flavours(chk, 4 if quick else 40)
    chk.sample({"glyphs": GLYPHS, "permutation": perms[0]})
    chk.assumptions += ["fontTools decompilation of the reloaded binary is the reference reader"]


def _first_diff(a, b, path=""):
    if type(a) != type(b):
        return f"{path}: {str(a)[:60]} != {str(b)[:60]}"
    if isinstance(a, dict):
        for k in sorted(set(a) | set(b), key=str):
            if a.get(k) != b.get(k):
                return _first_diff(a.get(k), b.get(k), f"{path}.{k}")
    if isinstance(a, list):
        for i, (x, y) in enumerate(zip(a, b)):
            if x != y:
                return _first_diff(x, y, f"{path}[{i}]")
        if len(a) != len(b):
            return f"{path}: lengths {len(a)} != {len(b)}"
    return f"{path}: {str(a)[:60]} != {str(b)[:60]}"


def replay(path):
    print(open(path).read()[:8000])
    return 0
