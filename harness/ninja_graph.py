"""B3: extract the ninja graph the real driver writes for a given world (sources + options), using ninja's own
parser (`-t compdb`, `-t query`, `-t targets`), and measure what each step really reads (strace)."""
import json
import os
import re
import subprocess
from pathlib import Path

from . import cli, common
from .common import MachineryError


def parse_build_dir(sb: cli.Sandbox):
    """-> list of edges {out, rule, cmd, ins, implicit, order_only}; paths relative to the build dir."""
    rc, out = sb.ninja(["-t", "targets", "all"])
    if rc != 0:
        raise MachineryError(f"ninja -t targets failed: {out[-500:]}")
    targets = []
    for line in out.splitlines():
        m = re.match(r"^(.*): (\S+)$", line)
        if m and m.group(2) != "phony":
            targets.append((m.group(1), m.group(2)))
    rc, out = sb.ninja(["-t", "compdb"])
    if rc != 0:
        raise MachineryError(f"ninja -t compdb failed: {out[-500:]}")
    cmds = {e["output"]: e["command"] for e in json.loads(out)}
    edges = []
    for tgt, rule in targets:
        rc, out = sb.ninja(["-t", "query", tgt])
        if rc != 0:
            raise MachineryError(f"ninja -t query {tgt} failed: {out[-500:]}")
        ins, implicit, order_only = [], [], []
        mode = None
        for line in out.splitlines():
            if line.startswith("  input:"):
                mode = "in"
                continue
            if line.startswith("  outputs:"):
                mode = "out"
                continue
            if mode == "in" and line.startswith("    "):
                item = line[4:]
                if item.startswith("| "):
                    implicit.append(item[2:])
                elif item.startswith("|| "):
                    order_only.append(item[3:])
                else:
                    ins.append(item)
        edges.append({"out": tgt, "rule": rule, "cmd": cmds.get(tgt, ""), "ins": ins, "implicit": implicit,
                      "order_only": order_only})
    return edges


def driver_files(sb: cli.Sandbox, edges):
    """Files in the build dir that the driver wrote and that edges consume (inputs without a producing edge,
    inside the build dir): the resolved TOMLs."""
    outs = {e["out"] for e in edges}
    res = {}
    for e in edges:
        for p in e["ins"] + e["implicit"]:
            if p not in outs and not p.startswith(".."):
                f = sb.build / p
                if f.exists():
                    res[p] = f.read_text()
    return res


def measure_reads(sb: cli.Sandbox, edges):
    """Run the real build under strace -f with -j1 and attribute successful read-opens inside the sandbox to the
    edge whose `sh -c <command>` was exec'ed last.  -> {out: sorted list of paths relative to build dir}"""
    trace = sb.root / "strace.out"
    env = cli.env_for()
    p = subprocess.run(
        ["strace", "-f", "-o", str(trace), "-e", "trace=openat,execve,chdir", "-s", "8192",
         "ninja", "-C", str(sb.build), "-j1"],
        env=env, stdout=subprocess.PIPE, stderr=subprocess.STDOUT, text=True, errors="replace",
    )
    if p.returncode != 0:
        raise MachineryError(f"traced build failed: {p.stdout[-800:]}")
    by_cmd = {e["cmd"]: e["out"] for e in edges}
    reads = {e["out"]: set() for e in edges}
    writes = {e["out"]: set() for e in edges}
    cur = None
    root = str(sb.root.resolve())
    bdir = str(sb.build.resolve())
    for line in trace.read_text(errors="replace").splitlines():
        m = re.search(r'execve\("[^"]*", \["/bin/sh", "-c", "((?:[^"\\]|\\.)*)"\]', line)
        if m:
            cmd = bytes(m.group(1), "utf-8").decode("unicode_escape")
            cur = by_cmd.get(cmd)
            continue
        if cur is None:
            continue
        m = re.search(r'openat\(AT_FDCWD, "((?:[^"\\]|\\.)*)", ([A-Z_|]+)[^)]*\)\s+= (\d+)', line)
        if not m:
            continue
        path, flags = m.group(1), m.group(2)
        ap = os.path.normpath(path if os.path.isabs(path) else os.path.join(bdir, path))
        if not ap.startswith(root + os.sep) or os.path.isdir(ap):
            continue
        rel = os.path.relpath(ap, bdir)
        if rel.endswith(".rsp") or rel.startswith(".ninja") or "__pycache__" in rel or rel == "strace.out":
            continue
        if "O_WRONLY" in flags or "O_RDWR" in flags or "O_CREAT" in flags:
            writes[cur].add(rel)
        else:
            reads[cur].add(rel)
    trace.unlink()
    return {k: sorted(v - writes[k]) for k, v in reads.items()}, {k: sorted(v) for k, v in writes.items()}


def extract(root: Path, sources: dict, args, configs: dict = None, measure=False):
    """sources: {relative path under root: text}; args: CLI args (flags + source/config paths relative to root).
    Runs the real driver with --noexec_ninja and returns {edges, driver_files, rc, log}."""
    sb = cli.Sandbox(root)
    for rel, text in sources.items():
        sb.write(rel, text)
    for rel, text in (configs or {}).items():
        sb.write(rel, text)
    rc, log = sb.run(["--noexec_ninja"] + list(args))
    if rc != 0:
        return {"rc": rc, "log": log, "edges": [], "driver_files": {}}
    edges = parse_build_dir(sb)
    res = {"rc": 0, "log": log, "edges": edges, "driver_files": driver_files(sb, edges)}
    if measure:
        res["reads"], res["writes"] = measure_reads(sb, edges)
    return res
