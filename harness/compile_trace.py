"""B2: record reuse-cache events of real builds with harness-side wrappers (no change to /repo) and validate the batch
against CompileTrace.tla with one TLC run."""
import json
import re

from . import build, common, scenarios as S
from . import compile_check as CC
from .common import MachineryError


class Recorder:
    """Wraps GlyphReuseCache.try_reuse/add_glyph and write_font._migrate_paths_to_ufo_glyphs while active."""

    def __init__(self):
        self.events = []
        self.keys = {}
        self._saved = None

    def _key(self, path, tol):
        from picosvg.svg_reuse import normalize
        from picosvg.svg_types import SVGPath

        k = path if tol == -1 else normalize(SVGPath(d=path), tol / 10).d
        return self.keys.setdefault(k, len(self.keys) + 1)

    def __enter__(self):
        from nanoemoji import glyph_reuse, write_font
        from nanoemoji.fixed import fixed_safe
        from picosvg.svg_reuse import affine_between
        from picosvg.svg_types import SVGPath

        rec = self
        GRC = glyph_reuse.GlyphReuseCache
        o_try, o_add, o_mig = GRC.try_reuse, GRC.add_glyph, write_font._migrate_paths_to_ufo_glyphs
        self._saved = (GRC, o_try, o_add, write_font, o_mig)
        paths = {}

        def try_reuse(self_, path):
            res = o_try(self_, path)
            tol = self_._reuse_tolerance
            k = rec._key(path, tol)
            ev = {"ev": "TryReuse", "k": k, "hit": res is not None, "name": res.glyph_name if res else "", "why": ""}
            if res is None:
                if tol == -1:
                    ev["why"] = "disabled"
                elif k not in paths:
                    ev["why"] = "absent"
                else:
                    aff = affine_between(SVGPath(d=paths[k]), SVGPath(d=path), tol)
                    ev["why"] = "noaffine" if aff is None else ("overflow" if not fixed_safe(*aff) else "unknown")
            rec.events.append(ev)
            return res

        def add_glyph(self_, name, path):
            k = rec._key(path, self_._reuse_tolerance)
            paths[k] = path
            rec.events.append({"ev": "AddGlyph", "name": name, "k": k, "g": name.rpartition(".")[0]})
            return o_add(self_, name, path)

        def count(cg):
            from nanoemoji.paint import PaintGlyph

            n = [0]
            cg.traverse(lambda p: n.__setitem__(0, n[0] + (1 if isinstance(p, PaintGlyph) else 0)))
            return n[0]

        def migrate(color_glyph, cache):
            rec.events.append({"ev": "Begin", "g": color_glyph.ufo_glyph_name})
            nin = count(color_glyph)
            out = o_mig(color_glyph, cache)
            rec.events.append({"ev": "End", "g": color_glyph.ufo_glyph_name, "nin": nin, "nout": count(out)})
            return out

        GRC.try_reuse, GRC.add_glyph = try_reuse, add_glyph
        write_font._migrate_paths_to_ufo_glyphs = migrate
        return self

    def __exit__(self, *a):
        GRC, o_try, o_add, wf, o_mig = self._saved
        GRC.try_reuse, GRC.add_glyph = o_try, o_add
        wf._migrate_paths_to_ufo_glyphs = o_mig


def validate(traces):
    """-> (accepted tids, rejected {tid: (index, event)}) ; tids are 1-based."""
    with common.scratch("ctrace-") as d:
        f = d / "traces.json"
        f.write_text(json.dumps(traces))
        res = common.run_tlc("CompileTrace", "CompileTrace.cfg", env={"TRACE_FILE": str(f)}, timeout=1200,
                             coverage=False, workers=4)
    acc = {int(x) for x in re.findall(r'<<"ACCEPT", (\d+)>>', res.stdout)}
    rej = {int(a): (int(b), c) for a, b, c in re.findall(r'<<"REJECT", (\d+), (\d+), "([^"]*)">>', res.stdout)}
    return res, acc, rej


def run(chk, n):
    """Random continuous scenarios built with the recorder on; every trace must be accepted."""
    traces, meta = [], []
    for k in range(n):
        r = common.rng("ctrace", k)
        glyphs = S.random_scenario(r, reuse_bias=0.7)
        tol = r.choice([0.1, 0.1, 0.5, -1.0])
        fmt = r.choice(["glyf_colr_1", "glyf_colr_0", "glyf"])
        cfg = build.base_config(color_format=fmt, reuse_tolerance=tol, keep_glyph_names=True, clip_to_viewbox=False)
        srcs = CC.sources_from(glyphs)
        with Recorder() as rec:
            try:
                build.build(cfg, srcs, already_pico=True, reload=False)
            except Exception as e:
                chk.notes.setdefault("trace_build_failures", []).append(f"{type(e).__name__}: {str(e)[:80]}")
                continue
        if rec.events:
            traces.append(rec.events)
            meta.append({"k": k, "fmt": fmt, "tol": tol, "svgs": [s.svg_text for s in srcs]})
    if not traces:
        raise MachineryError("no reuse traces recorded")
    res, acc, rej = validate(traces)
    chk.add_tlc(res, f"CompileTrace: {len(traces)} recorded executions")
    chk.traces_validated += len(traces)
    hits = sum(1 for t in traces for e in t if e["ev"] == "TryReuse" and e["hit"])
    chk.notes["trace_events"] = sum(len(t) for t in traces)
    chk.notes["trace_reuse_hits"] = hits
    if hits == 0:
        raise MachineryError("recorded traces contain no reuse hit (vacuous)")
    chk.sample({"trace": traces[0][:8]})
    for tid in range(1, len(traces) + 1):
        if tid in acc:
            continue
        where = rej.get(tid, (None, "no verdict"))
        ev = traces[tid - 1][where[0] - 1] if where[0] and where[0] <= len(traces[tid - 1]) else None
        chk.violation(f"reuse-cache trace rejected by CompileTrace at event {where[0]} ({where[1]}): {ev}",
                      {"trace": traces[tid - 1], "meta": meta[tid - 1]})
    if not res.ok:
        chk.tlc_violation(res, "CompileTrace")
