"""setup_cmd: verify tools are present and every spec parses.  Fetches nothing."""
import shutil
import subprocess
import sys
from concurrent.futures import ThreadPoolExecutor

from . import common


def main():
    bad = []
    for tool in ("java", "ninja", "picosvg", "resvg", "nanoemoji", "maximum_color"):
        if not shutil.which(tool):
            bad.append(f"missing tool {tool}")
    try:
        common.setup_repo_imports()
    except Exception as e:  # noqa
        bad.append(f"cannot import nanoemoji: {e}")
    mods = sorted(p.stem for p in common.SPEC.glob("*.tla"))

    def one(m):
        ok, out = common.sany(m)
        return m, ok, out

    with ThreadPoolExecutor(8) as ex:
        for m, ok, out in ex.map(one, mods):
            if not ok:
                bad.append(f"SANY failed for {m}:\n{out[-1500:]}")
    for b in bad:
        print("SETUP-ERROR", b, file=sys.stderr)
    print(f"setup: {len(mods)} spec modules parsed, {len(bad)} problems")
    return 2 if bad else 0
