"""setup_cmd: verify tools are present and every spec parses.  Fetches nothing."""
import shutil
import subprocess
import sys
from concurrent.futures import ThreadPoolExecutor

from . import common


def main():
    bad = []
    for tool in ("java", "ninja", "picosvg", "resvg", "nanoemoji", "maximum_color", "tlapm"):
        if not shutil.which(tool):
            bad.append(f"missing tool {tool}")
    try:
        common.setup_repo_imports()
    except Exception as e:  # noqa
        bad.append(f"cannot import nanoemoji: {e}")
    mods = sorted(p.stem for p in common.SPEC.glob("*.tla") if not p.stem.endswith("Proof"))
    # proof modules extend TLAPS (not on SANY's path): tlapm reads and re-checks them
    proofs = {"ScratchProof": ("Scratch",), "QuantizeProof": ("Quantize",), "GlyphNameProof": ("GlyphName",), "PartsProof": ("Parts",)}
    missing = sorted(p.stem for p in common.SPEC.glob("*Proof.tla") if p.stem not in proofs)
    if missing:
        bad.append(f"proof modules without a registered dependency list: {missing}")

    def one(m):
        ok, out = common.sany(m)
        return m, ok, out

    with ThreadPoolExecutor(8) as ex:
        for m, ok, out in ex.map(one, mods):
            if not ok:
                bad.append(f"SANY failed for {m}:\n{out[-1500:]}")
    with ThreadPoolExecutor(4) as ex:
        for (name, deps), (ok, line) in zip(proofs.items(), ex.map(lambda kv: common.run_tlapm(kv[0], kv[1]), proofs.items())):
            print("setup:", line)
            if ok is not True:
                bad.append(f"proof {name} does not check: {line}")
    for b in bad:
        print("SETUP-ERROR", b, file=sys.stderr)
    print(f"setup: {len(mods)} spec modules parsed, {len(proofs)} proofs checked, {len(bad)} problems")
    return 2 if bad else 0
