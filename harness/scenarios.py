"""Concretisation of abstract scenarios (from Compile.tla / OTSVG.tla or generated at random from the same grammar)
into real SVG sources, plus the random continuous scenario generator (design §3.4).

Ground truth stays available: which layers are copies of which class, the placing affine of every layer, the fill."""
import math

from . import oracle_grad as G

# canonical, origin-centred class geometry (unit = one cell); each is a list of contours of (x, y)
CLASS_GEOM = {
    # F-pentomino: no symmetry
    "F": [[(-0.5, -1.5), (1.5, -1.5), (1.5, -0.5), (0.5, -0.5), (0.5, 1.5), (-0.5, 1.5), (-0.5, 0.5), (-1.5, 0.5),
           (-1.5, -0.5), (-0.5, -0.5)]],
    # 3 x 1 bar (affine image of the square: same affine class)
    "bar": [[(-1.5, -0.5), (1.5, -0.5), (1.5, 0.5), (-1.5, 0.5)]],
    # T-tetromino: one mirror symmetry (x -> -x)
    "T": [[(-1.5, 0.0), (-0.5, 0.0), (-0.5, -1.0), (0.5, -1.0), (0.5, 0.0), (1.5, 0.0), (1.5, 1.0), (-1.5, 1.0)]],
    # 2 x 2 square: D4
    "sq": [[(-1.0, -1.0), (1.0, -1.0), (1.0, 1.0), (-1.0, 1.0)]],
}
K = 0.5522847498  # cubic approximation of a quarter circle


def _ellipse_cmds(rx, ry):
    return [("M", (rx, 0)), ("C", (rx, K * ry, K * rx, ry, 0, ry)), ("C", (-K * rx, ry, -rx, K * ry, -rx, 0)),
            ("C", (-rx, -K * ry, -K * rx, -ry, 0, -ry)), ("C", (K * rx, -ry, rx, -K * ry, rx, 0)), ("Z", ())]


def affine_class(cls):
    """picosvg's normalisation is affine-invariant: every parallelogram is one class, every ellipse is one class."""
    if cls in ("sq", "bar"):
        return "para"
    if cls.startswith("ellipse:"):
        return "ellipse"
    return cls


def class_commands(cls, r=None):
    """Path commands [(cmd, args)] of a class in canonical coordinates.  Random classes ('blob:<seed>', ...) are
    deterministic functions of their name."""
    import random

    if cls in CLASS_GEOM:
        out = []
        for c in CLASS_GEOM[cls]:
            out.append(("M", c[0]))
            out += [("L", p) for p in c[1:]]
            out.append(("Z", ()))
        return out
    kind, _, seed = cls.partition(":")
    rr = random.Random(seed)
    if kind == "poly":  # irregular polygon, no symmetry
        n = rr.randrange(5, 9)
        pts = []
        for i in range(n):
            a = 2 * math.pi * i / n + rr.uniform(-0.2, 0.2)
            rad = rr.uniform(0.7, 1.6)
            pts.append((rad * math.cos(a), rad * math.sin(a)))
        return [("M", pts[0])] + [("L", p) for p in pts[1:]] + [("Z", ())]
    if kind == "blob":  # closed cubic spline through irregular points
        n = rr.randrange(4, 7)
        pts = []
        for i in range(n):
            a = 2 * math.pi * i / n + rr.uniform(-0.15, 0.15)
            rad = rr.uniform(0.8, 1.5)
            pts.append((rad * math.cos(a), rad * math.sin(a)))
        out = [("M", pts[0])]
        for i in range(n):
            p0, p1 = pts[i], pts[(i + 1) % n]
            pm, pn = pts[i - 1], pts[(i + 2) % n]
            c1 = (p0[0] + (p1[0] - pm[0]) / 5, p0[1] + (p1[1] - pm[1]) / 5)
            c2 = (p1[0] - (pn[0] - p0[0]) / 5, p1[1] - (pn[1] - p0[1]) / 5)
            out.append(("C", (c1[0], c1[1], c2[0], c2[1], p1[0], p1[1])))
        out.append(("Z", ()))
        return out
    if kind == "ellipse":
        return _ellipse_cmds(rr.uniform(1.0, 1.6), rr.uniform(0.5, 0.9))
    if kind == "ring":  # outer ellipse + reversed inner one: a hole (non-zero winding)
        rx, ry = rr.uniform(1.2, 1.6), rr.uniform(0.9, 1.2)
        outer = _ellipse_cmds(rx, ry)
        k = rr.uniform(0.4, 0.6)
        inner_pts = [("M", (k * rx, 0)), ("C", (k * rx, -K * k * ry, K * k * rx, -k * ry, 0, -k * ry)),
                     ("C", (-K * k * rx, -k * ry, -k * rx, -K * k * ry, -k * rx, 0)),
                     ("C", (-k * rx, K * k * ry, -K * k * rx, k * ry, 0, k * ry)),
                     ("C", (K * k * rx, k * ry, k * rx, K * k * ry, k * rx, 0)), ("Z", ())]
        return outer + inner_pts
    raise ValueError(cls)


def path_d(cls, m, ndigits=4, jitter=None):
    """SVG path data of class `cls` placed by affine m (a,b,c,d,e,f).  jitter: (random, amplitude) moves every
    coordinate independently (near-miss copies)."""
    parts = []
    for cmd, args in class_commands(cls):
        if cmd == "Z":
            parts.append("Z")
            continue
        pts = [(args[i], args[i + 1]) for i in range(0, len(args), 2)]
        out = []
        for p in pts:
            x, y = G.mapp(m, p)
            if jitter:
                x += jitter[0].uniform(-jitter[1], jitter[1])
                y += jitter[0].uniform(-jitter[1], jitter[1])
            out.append(f"{round(x, ndigits):g},{round(y, ndigits):g}")
        parts.append(cmd + " ".join(out))
    return " ".join(parts)


def rat_affine(j):
    return tuple(x["n"] / x["d"] for x in j)


# ------------------------------------------------------------------ fills
PALETTE = ["#E53935", "#8E24AA", "#3949AB", "#039BE5", "#00897B", "#7CB342", "#FDD835", "#FB8C00", "#6D4C41"]


class FillSpec:
    """kind: solid | current | linear | radial; everything needed to write the SVG attributes/defs."""

    def __init__(self, kind, **kw):
        self.kind = kind
        self.__dict__.update(kw)


def random_fill(r, allow_gradients=True, allow_special=True):
    k = r.random()
    if not allow_gradients or k < 0.45:
        if allow_special and r.random() < 0.12:
            return FillSpec("current")
        ci = r.randrange(len(PALETTE))
        col = PALETTE[ci]
        # an explicit palette index is tied to its colour (two colours for one index is a C17 defect, not a C01 input)
        idx = ci if (allow_special and ci < 4 and r.random() < 0.3) else None
        return FillSpec("solid", color=col, index=idx)
    stops = sorted({0.0, 1.0} | {round(r.uniform(0.2, 0.8), 2) for _ in range(r.randrange(0, 2))})
    st = [(o, r.choice(PALETTE), r.choice([1, 1, 0.5])) for o in stops]
    units = r.choice(["objectBoundingBox", "userSpaceOnUse"])
    spread = r.choice(["pad", "pad", "reflect", "repeat"])
    gt = None
    if r.random() < 0.4:
        gt = r.choice(["rotate(30)", "scale(1.5 0.7)", "matrix(0.8 0.3 -0.2 1.1 0.05 0.02)", "skewX(20)"])
    if k < 0.75:
        return FillSpec("linear", stops=st, units=units, spread=spread, gt=gt,
                        geom=(r.uniform(0, 0.3), r.uniform(0, 0.3), r.uniform(0.7, 1), r.uniform(0.4, 1)))
    focal = r.random() < 0.4
    return FillSpec("radial", stops=st, units=units, spread=spread, gt=gt,
                    geom=(0.5, 0.5, r.uniform(0.35, 0.6)),
                    focal=(r.uniform(0.4, 0.6), r.uniform(0.4, 0.6), r.choice([0, 0, 0.08])) if focal else None)


def fill_markup(fill: FillSpec, gid, bbox_user):
    if getattr(fill, "abs_geom", None) is not None:   # absolute userSpaceOnUse geometry, independent of the shape
        bbox_user = fill.abs_geom
    """-> (fill attribute value, defs markup).  userSpaceOnUse geometry is laid over bbox_user (x,y,w,h)."""
    if fill.kind == "current":
        return "currentColor", ""
    if fill.kind == "solid":
        if fill.index is not None:
            return f"var(--color{fill.index}, {fill.color})", ""
        return fill.color, ""
    stops = "".join(
        f'<stop offset="{o:g}" stop-color="{c}"' + (f' stop-opacity="{a:g}"' if a != 1 else "") + "/>" for o, c, a in fill.stops)
    common = f'id="{gid}" gradientUnits="{fill.units}"'
    if fill.spread != "pad":
        common += f' spreadMethod="{fill.spread}"'
    if fill.gt:
        common += f' gradientTransform="{fill.gt}"'

    def sx(v):
        return v if fill.units == "objectBoundingBox" else bbox_user[0] + v * bbox_user[2]

    def sy(v):
        return v if fill.units == "objectBoundingBox" else bbox_user[1] + v * bbox_user[3]

    def sr(v):
        return v if fill.units == "objectBoundingBox" else v * (bbox_user[2] + bbox_user[3]) / 2

    if fill.kind == "linear":
        x1, y1, x2, y2 = fill.geom
        el = (f'<linearGradient {common} x1="{sx(x1):.4g}" y1="{sy(y1):.4g}" x2="{sx(x2):.4g}" y2="{sy(y2):.4g}">'
              f"{stops}</linearGradient>")
    else:
        cx, cy, rad = fill.geom
        extra = ""
        if fill.focal:
            fx, fy, fr = fill.focal
            extra = f' fx="{sx(fx):.4g}" fy="{sy(fy):.4g}"' + (f' fr="{sr(fr):.4g}"' if fr else "")
        el = (f'<radialGradient {common} cx="{sx(cx):.4g}" cy="{sy(cy):.4g}" r="{sr(rad):.4g}"{extra}>'
              f"{stops}</radialGradient>")
    return f"url(#{gid})", el


# ------------------------------------------------------------------ documents
class LayerSpec:
    def __init__(self, cls, place, fill, opacity=1.0, group=None, jitter=None):
        self.cls, self.place, self.fill, self.opacity, self.group, self.jitter = cls, place, fill, opacity, group, jitter


def bbox_of(cls, m):
    pts = []
    for cmd, args in class_commands(cls):
        pts += [G.mapp(m, (args[i], args[i + 1])) for i in range(0, len(args), 2)]
    xs, ys = [p[0] for p in pts], [p[1] for p in pts]
    return (min(xs), min(ys), max(xs) - min(xs), max(ys) - min(ys))


def _group_path(g):
    """LayerSpec.group: None | (id, opacity) | ((id, opacity), ...) from the outermost group to the innermost"""
    if g is None:
        return ()
    if g and isinstance(g[0], (tuple, list)):
        return tuple(tuple(x) for x in g)
    return (tuple(g),)


def svg_document(layers, view_box=(0, 0, 100, 100)):
    """layers: [LayerSpec] in z-order; consecutive layers whose group paths share a prefix sit in the same (nested)
    <g opacity> elements.  Returns SVG text."""
    defs, body = [], []
    shared = {}
    open_path = ()
    for i, L in enumerate(layers):
        path = _group_path(L.group)
        common = 0
        while common < min(len(path), len(open_path)) and path[common] == open_path[common]:
            common += 1
        body.extend("</g>" for _ in open_path[common:])
        body.extend(f'<g opacity="{g[1]:g}">' for g in path[common:])
        open_path = path
        attr, d = fill_markup(L.fill, f"g{i}", bbox_of(L.cls, L.place))
        if d:
            # layers whose gradient definitions are literally equal (same FillSpec in bounding-box units) reference ONE
            # element, as authoring tools write them
            body_d = d.replace(f'id="g{i}"', 'id="@"')
            if body_d in shared:
                attr = f"url(#{shared[body_d]})"
            else:
                shared[body_d] = f"g{i}"
                defs.append(d)
        op = f' opacity="{L.opacity:g}"' if L.opacity != 1 else ""
        body.append(f'<path d="{path_d(L.cls, L.place, jitter=L.jitter)}" fill="{attr}"{op}/>')
    body.extend("</g>" for _ in open_path)
    vb = " ".join(f"{v:g}" for v in view_box)
    return (f'<svg xmlns="http://www.w3.org/2000/svg" viewBox="{vb}"><defs>{"".join(defs)}</defs>'
            f'{"".join(body)}</svg>\n')


# nested opacity groups: every way a group can end relative to its parent (inner group last / first / in the middle,
# two and three levels, a sibling or the end of the document after the outer group)
NESTED_GROUP_SHAPES = {
    "inner-last-then-sibling": ["A", "AB", "AB", ""],
    "inner-first": ["AB", "AB", "A", ""],
    "inner-middle": ["A", "AB", "AB", "A"],
    "three-levels-then-sibling": ["A", "AB", "ABC", "ABC", ""],
    "inner-last-at-end": ["", "A", "AB", "AB"],
    "siblings": ["A", "A", "B", "B"],
    "nested-then-group": ["A", "AB", "AB", "C", "C"],
    "inner-pair-of-groups": ["AB", "AB", "AC", "AC", ""],
}


def nested_group_scenario(r, shape_name):
    """One glyph whose layers sit in nested <g opacity> groups as NESTED_GROUP_SHAPES[shape_name] says (each string is
    the path of group letters of one layer, outermost first)."""
    paths = NESTED_GROUP_SHAPES[shape_name]
    ops = {"A": r.choice([0.6, 0.5]), "B": r.choice([0.4, 0.25]), "C": r.choice([0.8, 0.7])}
    colours = ["#E53935", "#1E88E5", "#43A047", "#FDD835", "#8E24AA"]
    r.shuffle(colours)
    layers = []
    for i, pth in enumerate(paths):
        cls = r.choice(["F", "T", "bar", "sq"])
        cell = r.uniform(5, 8)
        m = (cell, 0, 0, cell, 12 + 14 * i + r.uniform(-2, 2), 15 + 11 * i + r.uniform(-2, 2))
        grp = tuple((f"{shape_name}-{pth[:k + 1]}", ops[pth[k]]) for k in range(len(pth))) or None
        layers.append(LayerSpec(cls, m, FillSpec("solid", color=colours[i % len(colours)], index=None), r.choice([1, 1, 0.5]), grp))
    return [(CODEPOINTS[0], (0, 0, 100, 100), layers)]


CODEPOINTS = [(0x1F600,), (0x1F601,), (0x1F468, 0x200D, 0x1F469), (0x1F602,), (0x2764, 0xFE0F), (0x1F1E6, 0x1F1E7)]


def filename_for(cps):
    return "emoji_u" + "_".join("%04x" % c for c in cps) + ".svg"


# ------------------------------------------------------------------ random continuous scenarios
def random_isometry(r, span=100.0, scale=1.0):
    a = r.uniform(0, 2 * math.pi)
    cs, sn = math.cos(a) * scale, math.sin(a) * scale
    m = (cs, sn, -sn, cs, 0, 0)
    if r.random() < 0.5:
        m = G.mul(m, (-1, 0, 0, 1, 0, 0))
    return (m[0], m[1], m[2], m[3], r.uniform(0.2, 0.8) * span, r.uniform(0.2, 0.8) * span)


def random_affine(r, span=100.0):
    kind = r.randrange(5)
    cell = r.uniform(4, 9) * span / 100
    if kind == 0:
        m = (cell, 0, 0, cell, 0, 0)
    elif kind == 1:
        m = random_isometry(r, span, cell)
    elif kind == 2:
        m = (cell * r.uniform(0.5, 2), 0, 0, cell * r.uniform(0.5, 2), 0, 0)
    elif kind == 3:
        a = r.uniform(0, 6.28)
        m = G.mul((math.cos(a), math.sin(a), -math.sin(a), math.cos(a), 0, 0), (cell * 1.5, 0, cell * r.uniform(-0.5, 0.5), cell * 0.8, 0, 0))
    else:
        m = (-cell, 0, 0, cell * r.uniform(0.6, 1.4), 0, 0)
    return (m[0], m[1], m[2], m[3], r.uniform(0.25, 0.75) * span, r.uniform(0.25, 0.75) * span)


def random_scenario(r, n_glyphs=None, reuse_bias=0.5, allow_gradients=True, allow_groups=True, allow_special=True,
                    view_box=None):
    """-> list of (cps, view_box, [LayerSpec]) with shapes recurring across and within glyphs."""
    n_glyphs = n_glyphs or r.randrange(1, 4)
    pool = [r.choice(["poly", "blob", "ellipse", "ring"]) + f":{r.randrange(10**6)}" for _ in range(3)] + ["F", "bar", "sq"]
    used = []
    glyphs = []
    for g in range(n_glyphs):
        vb = view_box or r.choice([(0, 0, 100, 100), (0, 0, 100, 100), (10, -20, 128, 128), (0, 0, 200, 100), (0, 0, 60, 120),
                                   (-50, -50, 100, 100), (0, 0, 24, 24)])
        span = min(vb[2], vb[3])
        layers = []
        n_layers = r.randrange(1, 5)
        group = None
        for i in range(n_layers):
            if used and r.random() < reuse_bias:
                cls = r.choice(used)
            else:
                cls = r.choice(pool)
            used.append(cls)
            m = random_affine(r, span)
            m = (m[0], m[1], m[2], m[3], vb[0] + m[4] * vb[2] / span if vb[2] != span else vb[0] + m[4],
                 vb[1] + m[5] * vb[3] / span if vb[3] != span else vb[1] + m[5])
            if allow_groups and group is None and i < n_layers - 1 and r.random() < 0.25:
                group = (f"{g}-{i}", r.choice([0.5, 0.25, 0.8]))
                glen = 2
            L = LayerSpec(cls, m, random_fill(r, allow_gradients, allow_special), r.choice([1, 1, 1, 0.5, 0.3]), group)
            layers.append(L)
            if group is not None:
                glen -= 1
                if glen == 0:
                    group = None
        # a group must have 2+ children (picosvg would ungroup otherwise)
        if layers and layers[-1].group is not None and (len(layers) < 2 or layers[-2].group != layers[-1].group):
            layers[-1].group = None
        glyphs.append((CODEPOINTS[g % len(CODEPOINTS)], vb, layers))
    return glyphs


# ------------------------------------------------------------------ coincidence-seeking families
# Random floats never hit the exact coincidences some encoder branches test for (integer scale centres, a scale of
# exactly 1 on one axis, identical gradients in different documents, int16 overflow fallbacks).  These generators aim
# at them on purpose; they are used by C01/C02/C05/C06 next to the model scenarios and the random ones.
LATTICE_CONFIG = {"upem": 1000, "ascender": 800, "descender": -200, "width": 1000}   # viewBox 100 -> 10 units per unit


def lattice_scenario(r, n_glyphs=None, same_gradient=None):
    """Axis-aligned copies on an integer lattice: per-axis scales from {1, 2, 3, 1/2, -1}, integer translations, so
    that reuse transforms are scale(+translate) with a scale of exactly 1 on one axis and integer scale centres."""
    n_glyphs = n_glyphs or r.randrange(1, 3)
    cls = r.choice(["F", "T", "sq", "bar"])
    cell = r.choice([2, 4])
    glyphs = []
    specs_all = []
    # sometimes every copy carries "the same" gradient, laid corner to corner over its own box in user space: after the
    # counter-transform of a non-uniformly scaled copy its end points coincide with the donor's while its normal (P2)
    # does not - gradients that are equal up to one field
    st = [(0.0, r.choice(PALETTE[:4]), 1), (1.0, r.choice(PALETTE[4:]), 1)]
    same = None
    if same_gradient or (same_gradient is None and r.random() < 0.35):
        # (in bounding-box units the definitions are literally equal and become one shared element)
        same = FillSpec("linear", stops=st, units=r.choice(["userSpaceOnUse", "objectBoundingBox"]), spread=r.choice(["pad", "reflect"]),
                        gt=None, geom=(0.0, 0.0, 1.0, 1.0))
    for g in range(n_glyphs):
        specs = []
        for i in range(r.randrange(2, 4)):
            sx = r.choice([1, 1, 2, 3, 0.5, -1])
            sy = r.choice([1, 1, 2, 0.5, 3])
            if r.random() < 0.2:
                sx, sy = -1, -1          # half turn
            elif r.random() < 0.1:
                sx, sy = r.choice([(-2, -1), (1, -1), (-1, -2)])
            tx, ty = r.randrange(15, 80), r.randrange(15, 80)
            fill = same if same is not None else random_fill(r, allow_gradients=(r.random() < 0.4), allow_special=False)
            specs.append(LayerSpec(cls, (cell * sx, 0, 0, cell * sy, tx, ty), fill, r.choice([1, 1, 0.5]) if same is None else 1.0))
            if r.random() < 0.25:
                # the very same shape drawn twice in a row, translucent (a highlight painted twice): two layers, not one
                L = specs[-1]
                dup_fill = L.fill if L.fill.kind == "solid" else FillSpec("solid", color=r.choice(PALETTE), index=None)
                specs[-1] = LayerSpec(L.cls, L.place, dup_fill, 0.5)
                specs.append(LayerSpec(L.cls, L.place, dup_fill, 0.5))
        glyphs.append((CODEPOINTS[g], (0, 0, 100, 100), specs))
    return glyphs


def thin_bar_scenario(r, parse_overflow=False):
    """A solid donor bar and a far-away copy of extreme aspect ratio carrying an objectBoundingBox radial gradient
    (elliptical, so it is wrapped in a transform).  With LATTICE_CONFIG the gradient parses, but counter-transforming
    it into the donor's frame overflows int16 and takes the fallback branches of the migration.
    parse_overflow=True puts the gradient bar where even parsing overflows (known finding KF-C01-radial-overflow)."""
    long_side = r.choice([70, 80, 90])
    thin = r.choice([2, 3])
    horizontal = r.random() < 0.5
    st = [(0.0, r.choice(PALETTE), 1), (1.0, r.choice(PALETTE), 1)]
    grad = FillSpec("radial", stops=st, units="objectBoundingBox", spread="pad", gt=None, geom=(0.5, 0.5, 0.5), focal=None)
    solid = FillSpec("solid", color=r.choice(PALETTE), index=None)
    # the copy (with the gradient) sits where its font-space bbox origin is small; the donor far away on the thin axis
    near, far = (r.choice([88, 92, 85]), r.choice([6, 8, 10])) if horizontal else (r.choice([6, 8, 10]), r.choice([88, 92]))
    if parse_overflow:
        near = far
    if horizontal:
        donor = LayerSpec("sq", (long_side / 2, 0, 0, thin / 2, 50, far), solid)
        copy = LayerSpec("sq", (long_side / 2, 0, 0, thin / 2, 50, near), grad)
    else:
        donor = LayerSpec("sq", (thin / 2, 0, 0, long_side / 2, far, 50), solid)
        copy = LayerSpec("sq", (thin / 2, 0, 0, long_side / 2, near, 50), grad)
    if parse_overflow:
        return [(CODEPOINTS[0], (0, 0, 100, 100), [copy])]
    if r.random() < 0.5:
        return [(CODEPOINTS[0], (0, 0, 100, 100), [donor, copy])]
    return [(CODEPOINTS[0], (0, 0, 100, 100), [donor]), (CODEPOINTS[1], (0, 0, 100, 100), [copy])]


USER_TRANSFORMS = ["matrix(0.9 0 0.1 0.9 20 10)", "rotate(15)", "scale(1.1 0.8)", "matrix(0.8 0.3 -0.2 1.1 30 -20)",
                   "translate(0, -50)", "matrix(-1 0 0 1 1200 0)", "matrix(1 0.2 0 1 0 0)"]


def transform_fill_grid():
    """Every user transform kind (skew, rotation, non-uniform scale, general affine, translation, mirror) x every gradient
    kind (linear / radial, both unit systems, gradientTransform, focal point, spread): one glyph of two layers each.
    -> [(label, transform string, glyphs)]"""
    st = [(0.0, PALETTE[0], 1), (0.55, PALETTE[6], 0.5), (1.0, PALETTE[3], 1)]
    fills = {
        "linear-bbox": FillSpec("linear", stops=st, units="objectBoundingBox", spread="pad", gt=None, geom=(0.1, 0.2, 0.9, 0.6)),
        "linear-user-gt": FillSpec("linear", stops=st, units="userSpaceOnUse", spread="reflect", gt="rotate(30)", geom=(0.1, 0.1, 0.6, 0.5)),
        "radial-bbox": FillSpec("radial", stops=st, units="objectBoundingBox", spread="pad", gt=None, geom=(0.5, 0.5, 0.5), focal=None),
        "radial-user-gt": FillSpec("radial", stops=st, units="userSpaceOnUse", spread="repeat", gt="matrix(1.5 0 0 0.7 0 0)", geom=(0.4, 0.5, 0.25), focal=None),
        "radial-focal": FillSpec("radial", stops=st, units="objectBoundingBox", spread="pad", gt="matrix(0.8 0.3 -0.2 1.1 0.05 0.02)",
                                 geom=(0.5, 0.5, 0.45), focal=(0.4, 0.55, 0.05)),
    }
    out = []
    for ti, t in enumerate(USER_TRANSFORMS):
        for fi, (name, fill) in enumerate(fills.items()):
            cls = ["poly:5", "blob:3", "F", "ellipse"][(ti + fi) % 4]
            layers = [LayerSpec(cls, (7, 0, 0, 7, 42, 48), fill, 1.0),
                      LayerSpec("T", (5, 2, -2, 5, 70, 30), FillSpec("solid", color=PALETTE[(ti + fi) % len(PALETTE)], index=None), 0.5)]
            out.append((f"{t} x {name}", t, [(CODEPOINTS[0], (0, 0, 100, 100), layers)]))
    return out


REUSE_KINDS = {
    "translate": (6, 0, 0, 6, 66, 62), "uniform": (3, 0, 0, 3, 72, 66), "nonuniform": (9, 0, 0, 4, 64, 72),
    "mirror-x": (-6, 0, 0, 6, 70, 64), "mirror-y": (6, 0, 0, -6, 64, 70), "half-turn": (-6, 0, 0, -6, 70, 70),
    "quarter": (0, 6, -6, 0, 70, 64), "rot30": (5.196152, 3.0, -3.0, 5.196152, 68, 66), "skew": (6, 0, 2, 6, 62, 66),
}


def reuse_fill_grid(solid_only=False):
    """Every kind of reuse transform (translation, uniform / non-uniform scale, both mirrors, half and quarter turn,
    a 30 degree rotation, a skew) x every kind of fill on the COPY, donor and copy in one glyph or in two.
    -> [(label, glyphs)]"""
    st = [(0.0, PALETTE[1], 1), (0.5, PALETTE[5], 0.6), (1.0, PALETTE[7], 1)]
    fills = {"solid": FillSpec("solid", color=PALETTE[4], index=None)}
    if not solid_only:
        fills.update({
            "linear-bbox": FillSpec("linear", stops=st, units="objectBoundingBox", spread="pad", gt=None, geom=(0.1, 0.2, 0.9, 0.7)),
            "linear-user": FillSpec("linear", stops=st, units="userSpaceOnUse", spread="reflect", gt=None, geom=(0.0, 0.0, 1.0, 1.0)),
            "radial-bbox": FillSpec("radial", stops=st, units="objectBoundingBox", spread="pad", gt=None, geom=(0.5, 0.5, 0.5), focal=None),
            "radial-user-gt": FillSpec("radial", stops=st, units="userSpaceOnUse", spread="pad", gt="matrix(1 0 0 0.6 0 0)", geom=(0.5, 0.8, 0.6), focal=None),
            "radial-focal": FillSpec("radial", stops=st, units="objectBoundingBox", spread="repeat", gt=None, geom=(0.5, 0.5, 0.4), focal=(0.4, 0.55, 0.05)),
        })
    donor_fill = FillSpec("solid", color=PALETTE[0], index=None)
    out = []
    n = 0
    for kind, place in REUSE_KINDS.items():
        for fname, fill in fills.items():
            donor = LayerSpec("F", (6, 0, 0, 6, 28, 32), donor_fill, 1.0)
            copy = LayerSpec("F", place, fill, 0.5 if n % 5 == 0 else 1.0)
            if n % 2 == 0:
                glyphs = [(CODEPOINTS[0], (0, 0, 100, 100), [donor, copy])]
            else:
                glyphs = [(CODEPOINTS[0], (0, 0, 100, 100), [donor]), (CODEPOINTS[1], (0, 0, 100, 100), [copy])]
            out.append((f"{kind} x {fname}", glyphs))
            n += 1
    return out


TINY_CONFIG = {"upem": 2048, "ascender": 1638, "descender": -410, "width": 2048}   # 20.48 units per viewBox unit


def tiny_copy_scenario(r):
    """A large solid donor and a gradient-filled copy 25-45 times smaller, far from the origin: the copy->donor transform
    is fine, but its INVERSE (needed to counter-transform the gradient) leaves the 16.16 range at the larger ratios,
    which is the overflow branch of the gradient migration; the smaller ratios take the normal branch."""
    big = r.choice([36, 40, 44])
    ratio = r.choice([25, 40, 45])
    small = big / ratio
    cls = r.choice(["sq", "T", "F"])
    st = [(0.0, r.choice(PALETTE[:4]), 1), (1.0, r.choice(PALETTE[4:]), 1)]
    if r.random() < 0.5:
        grad = FillSpec("linear", stops=st, units="objectBoundingBox", spread="pad", gt=None, geom=(0.0, 0.0, 1.0, 0.3))
    else:
        # circular, or elliptical / rotated (then the gradient carries a residual transform wrapper of its own)
        grad = FillSpec("radial", stops=st, units="objectBoundingBox", spread="pad",
                        gt=r.choice([None, "scale(1 0.5)", "matrix(0.8 0.3 -0.2 1.1 0.05 0.02)"]), geom=(0.5, 0.5, 0.5), focal=None)
    solid = FillSpec("solid", color=r.choice(PALETTE), index=None)
    donor = LayerSpec(cls, (big, 0, 0, big, 46, 46), solid)
    cx, cy = r.choice([(96, 96), (96, 8), (95, 50)])
    if grad.kind == "radial" and r.random() < 0.6:
        # the OverflowError fallback: a moderate ratio (the inverse reuse transform still fits 16.16 anywhere in the em)
        # and an elliptical gradient far wider than the viewBox (radius 200 units: magnified it exceeds uint16), with the
        # copy on its slope, 60 units from the centre along the squashed axis and well away from the font origin (where
        # a lost or misplaced wrapper would cancel out)
        ratio = r.choice([20, 25])
        small = big / ratio
        cx, cy = r.choice([(50, 40), (60, 30), (40, 50)])
        squash = r.choice(["scale(1 0.5)", "scale(0.5 1)", "scale(1 0.4)"])
        c0, c1 = (cx + 3, cy + 45) if squash.startswith("scale(1 ") else (cx - 35, cy + 3)
        grad = FillSpec("radial", stops=st, units="userSpaceOnUse", spread="pad", geom=(c0 / 100, c1 / 100, 2.0), focal=None,
                        gt=f"translate({c0} {c1}) {squash} translate({-c0} {-c1})")
        grad.abs_geom = (0, 0, 100, 100)
    copy = LayerSpec(cls, (small, 0, 0, small, cx, cy), grad)
    if r.random() < 0.5:
        return [(CODEPOINTS[0], (0, 0, 100, 100), [donor, copy])]
    return [(CODEPOINTS[0], (0, 0, 100, 100), [donor]), (CODEPOINTS[1], (0, 0, 100, 100), [copy])]


def shared_gradient_docs_scenario(r):
    """Two or three OT-SVG documents (sharing groups) whose glyphs use IDENTICAL userSpaceOnUse gradients; in the later
    groups the first glyph is solid-only and shares a shape with the next glyph (so <defs> is non-empty before the
    document's first gradient is emitted)."""
    st = [(0.0, r.choice(PALETTE), 1), (1.0, r.choice(PALETTE), r.choice([1, 0.5]))]
    kind = r.choice(["linear", "radial"])

    def grad():
        if kind == "linear":
            return FillSpec("linear", stops=st, units="userSpaceOnUse", spread="pad", gt=None, geom=(0.0, 0.0, 1.0, 1.0),
                            abs_geom=(20, 10, 70, 70))
        return FillSpec("radial", stops=st, units="userSpaceOnUse", spread="pad", gt=None, geom=(0.5, 0.5, 0.5), focal=None,
                        abs_geom=(20, 10, 70, 70))

    glyphs = []
    cp = 0x1F600
    for grp in range(r.randrange(2, 4)):
        shared_cls = ["F", "T", f"poly:{grp + 11}"][grp % 3]
        own_cls = [f"blob:{grp + 3}", f"poly:{grp + 40}"][grp % 2]
        m1 = random_isometry(r, 100.0, 6)
        m2 = random_isometry(r, 100.0, 6)
        # the gradient geometry must be IDENTICAL across documents: same shape, same place, same bbox
        gm = (5, 0, 0, 5, 30, 60)
        solid = FillSpec("solid", color=r.choice(PALETTE), index=None)
        first = [LayerSpec(shared_cls, m1, solid)]
        # the gradient-carrying shape differs per group (else the groups would merge into one document); the
        # userSpaceOnUse gradient itself is identical
        second = [LayerSpec(shared_cls, m2, FillSpec("solid", color=r.choice(PALETTE), index=None)), LayerSpec(own_cls, gm, grad())]
        if grp == 0 and r.random() < 0.5:
            first.append(LayerSpec(f"poly:{grp + 70}", gm, grad()))
        glyphs.append(((cp,), (0, 0, 100, 100), first))
        glyphs.append(((cp + 1,), (0, 0, 100, 100), second))
        cp += 2
    return glyphs


def stop_alpha_grid():
    """Where a colour's alpha can come from, multiplied together: the colour's own spelling (#rrggbb / #rrggbbaa / #rgba)
    x stop-opacity x the shape's opacity, for gradient stops (linear, radial) and for solid fills.
    -> [(label, glyphs)]"""
    out = []
    spellings = {"rgb": ("#E53935", "#3949AB"), "rrggbbaa": ("#E5393580", "#3949ABC0"), "rgba": ("#e358", "#34ac")}
    for sp, (c1, c2) in spellings.items():
        for so in (1, 0.5):
            for op in (1.0, 0.8):
                for kind in ("linear", "radial", "solid"):
                    if kind == "solid":
                        if so != 1:
                            continue
                        fill = FillSpec("solid", color=c1, index=None)
                    elif kind == "linear":
                        fill = FillSpec("linear", stops=[(0.0, c1, so), (1.0, c2, 1)], units="objectBoundingBox", spread="pad", gt=None,
                                        geom=(0.0, 0.1, 1.0, 0.9))
                    else:
                        fill = FillSpec("radial", stops=[(0.0, c2, 1), (1.0, c1, so)], units="objectBoundingBox", spread="pad", gt=None,
                                        geom=(0.5, 0.5, 0.5), focal=None)
                    layers = [LayerSpec("blob:3", (7, 0, 0, 7, 40, 45), fill, op),
                              LayerSpec("T", (5, 0, 0, 5, 72, 30), FillSpec("solid", color=PALETTE[4], index=None), 1.0)]
                    out.append((f"{kind} {sp} stop-opacity={so} opacity={op}", [(CODEPOINTS[0], (0, 0, 100, 100), layers)]))
    return out
