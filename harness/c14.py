"""C14: bitmap glyphs carry the right image at the right place.

Bitmap.tla (exact-rational transcription of _ppem / _width_in_pixels / BitmapMetrics.create / the CBDT guard / the
strike-splitting loop, with the OpenType placement semantics as invariants) is model-checked on a grid of
upem x vertical metrics x width mode x bitmap height x aspect x glyph-id sets; EVERY state is replayed into the real
functions and into real CBDT and sbix tables that are compiled, reloaded and read back; the property's inequalities are
evaluated on the binary's metrics; image bytes must be identical; a CLI build checks the PNG pipeline end to end."""
import hashlib
import io
import json

from . import build, cli, common
from .common import MachineryError

_png_cache = {}


def png(w, h, k=0):
    key = (w, h, k)
    if key not in _png_cache:
        from PIL import Image

        img = Image.new("RGBA", (w, h), ((37 * k) % 256, 120, (200 - 11 * k) % 256, 255))
        buf = io.BytesIO()
        img.save(buf, "PNG")
        _png_cache[key] = buf.getvalue()
    return _png_cache[key]


def base_font(nglyphs):
    """A compiled TTFont with glyphs .notdef, .space, g2..g{n} (what make_*_table receives after ufo2ft)."""
    from fontTools.fontBuilder import FontBuilder
    from fontTools.pens.ttGlyphPen import TTGlyphPen

    names = [".notdef", ".space"] + [f"g{i}" for i in range(2, nglyphs)]
    fb = FontBuilder(1000, isTTF=True)
    fb.setupGlyphOrder(names)
    fb.setupCharacterMap({0x20: ".space"})
    empty = TTGlyphPen(None).glyph()
    fb.setupGlyf({n: empty for n in names})
    fb.setupHorizontalMetrics({n: (500, 0) for n in names})
    fb.setupHorizontalHeader()
    fb.setupNameTable({})
    fb.setupOS2()
    fb.setupPost()
    return fb.font


def replay_state(chk, rec, n):
    from nanoemoji import bitmap_tables
    from nanoemoji.color_glyph import ColorGlyph
    from nanoemoji.png import PNG
    from picosvg.svg_transform import Affine2D

    c, im = rec["cfg"], rec["img"]
    replay = {"kind": "bitmap-state", "model": rec}
    if im["w"] == 0:
        return
    cfg = build.base_config(color_format="cbdt", upem=c["upem"], ascender=c["asc"], descender=c["desc"], width=c["width"],
                            bitmap_resolution=im["h"], keep_glyph_names=True)
    gids = sorted(rec["gids"])
    font = base_font(max(gids) + 2)
    cgs = [ColorGlyph(None, "", f"g{g}.png", f"g{g}", g, (), None, None, Affine2D.identity(), PNG(png(im["w"], im["h"], g))) for g in gids]
    chk.case(key=("state", n), nontrivial=rec["outcome"] == "ok" and (im["w"] != im["h"] or len(gids) > 1))
    em = c["asc"] - c["desc"]
    for fmt in ("cbdt", "sbix"):
        f2 = build.reload_font(font)
        try:
            if fmt == "cbdt":
                bitmap_tables.make_cbdt_table(cfg, f2, cgs)
            else:
                bitmap_tables.make_sbix_table(cfg, f2, cgs)
            f2 = build.reload_font(f2)
            err = None
        except Exception as e:
            err = f"{type(e).__name__}: {str(e)[:100]}"
        too_big = fmt == "cbdt" and (im["w"] > 255 or im["h"] > 255)
        if too_big:
            if err is None:
                chk.violation(f"cbdt: a {im['w']}x{im['h']} bitmap was accepted (format limit 255)", replay)
            continue
        if rec["outcome"] != "ok" and fmt == "cbdt":
            if err is None:
                chk.notes["reject_drift"] = chk.notes.get("reject_drift", 0) + 1
            continue
        if rec["outcome"] not in ("ok", "PackError"):
            continue
        if err is not None:
            if fmt == "sbix" and (im["w"] > 255 or im["h"] > 255):
                continue
            chk.violation(f"{fmt}: representable bitmap/metrics rejected: {err}", replay)
            continue
        s = rec["ppem"] / c["upem"]
        adv_units = max(c["width"], round(em * im["w"] / im["h"]))
        left_want = (adv_units - em * im["w"] / im["h"]) / 2 * s
        proportional = c["width"] == 0 or im["w"] == im["h"]
        # ppem is rounded: lengths scaled by it carry a relative error of 1 / (2 ppem) - Bitmap.tla PpemSlack(widthPx)
        slack = rec["widthPx"] / (2 * rec["ppem"]) if rec["ppem"] else 0
        if fmt == "cbdt":
            cblc, cbdt = f2["CBLC"], f2["CBDT"]
            # strikes partition the bitmap glyphs into maximal runs of consecutive ids
            runs = [(st.bitmapSizeTable.startGlyphIndex, st.bitmapSizeTable.endGlyphIndex) for st in cblc.strikes]
            want_runs = [(r["first"], r["last"]) for r in rec["strikes"]]
            if runs != want_runs:
                covered = [g for a, b in runs for g in range(a, b + 1)]
                if sorted(covered) != gids or len(set(covered)) != len(covered):
                    chk.violation(f"cbdt: strikes {runs} do not partition bitmap glyph ids {gids}", replay)
                else:
                    chk.notes["strike_drift"] = chk.notes.get("strike_drift", 0) + 1
            for st, data in zip(cblc.strikes, cbdt.strikeData):
                if st.bitmapSizeTable.ppemX != rec["ppem"] or st.bitmapSizeTable.ppemY != rec["ppem"]:
                    chk.violation(f"cbdt: strike ppem {st.bitmapSizeTable.ppemX} != round(upem*h/em) = {rec['ppem']}", replay)
                names = [n2 for sub in st.indexSubTables for n2 in sub.names]
                if sorted(names) != sorted(data.keys()):
                    chk.violation("cbdt: index subtable names and strike data disagree", replay)
                for gname, d in data.items():
                    g = int(gname[1:])
                    if bytes(d.imageData) != png(im["w"], im["h"], g):
                        chk.violation(f"cbdt: image bytes of {gname} differ from the PNG the build produced", replay)
                    mt = d.metrics
                    if (mt.width, mt.height) != (im["w"], im["h"]):
                        chk.violation(f"cbdt: metrics size {(mt.width, mt.height)} != bitmap {(im['w'], im['h'])}", replay)
                    tol = 2 if mt.BearingY in (-128, 127) else 1
                    if abs(mt.BearingY - c["asc"] * s) > tol + 1e-9 or abs((mt.BearingY - im["h"]) - c["desc"] * s) > tol + 1 + 1e-9:
                        chk.violation(f"cbdt: vertical box [{mt.BearingY - im['h']}, {mt.BearingY}] vs scaled em box "
                                      f"[{c['desc'] * s:.2f}, {c['asc'] * s:.2f}]", replay)
                    if proportional and mt.BearingX < 127 and abs(mt.BearingX - left_want) > 1 + slack + 1e-9:
                        chk.violation(f"cbdt: BearingX {mt.BearingX} but the bitmap's box starts at {left_want:.2f} px "
                                      f"(advance {mt.Advance} px, bitmap {im['w']} px wide)", replay)
                    if abs(mt.Advance - adv_units * s) > 1 + slack + 1e-9:
                        chk.violation(f"cbdt: pixel advance {mt.Advance} vs scaled font advance {adv_units * s:.2f}", replay)
                    if (mt.BearingX, mt.BearingY, mt.Advance) != (rec["m"]["x"], rec["m"]["y"], rec["widthPx"]):
                        chk.notes["metric_drift"] = chk.notes.get("metric_drift", 0) + 1
        else:
            sb = f2["sbix"]
            if sorted(sb.strikes) != [rec["ppem"]]:
                chk.violation(f"sbix: strikes {sorted(sb.strikes)} != [{rec['ppem']}]", replay)
                continue
            st = sb.strikes[rec["ppem"]]
            for g in gids:
                gl = st.glyphs.get(f"g{g}")
                if gl is None or bytes(gl.imageData or b"") != png(im["w"], im["h"], g):
                    chk.violation(f"sbix: image bytes of g{g} differ from the PNG the build produced", replay)
                    continue
                if abs(gl.originOffsetY - c["desc"] * s) > 1 + 1e-9:
                    chk.violation(f"sbix: originOffsetY {gl.originOffsetY} vs scaled descender {c['desc'] * s:.2f}", replay)
                # int16 in sbix: nothing is clamped; the shared int8 nudge moves a value of exactly 128 to 127 (one more pixel)
                if proportional and abs(gl.originOffsetX - left_want) > 1 + slack + (1 if gl.originOffsetX == 127 else 0) + 1e-9:
                    chk.violation(f"sbix: originOffsetX {gl.originOffsetX} but the bitmap's box starts at {left_want:.2f} px", replay)


def cli_bytes(chk):
    """End to end: resvg -> pngquant -> zopflipng -> CBDT / sbix through the real driver (flags -> resolved TOML ->
    write_font): embedded bytes = final PNG in the build dir, and strike size / placement follow the resolution the
    bitmaps were really rendered at."""
    import struct

    from fontTools.ttLib import TTFont

    files = {"src/emoji_u1f600.svg": cli.SVG_A, "src/emoji_u1f601.svg": cli.SVG_B}
    upem, asc, desc = 1024, 950, -250   # the defaults the CLI builds below run with
    em = asc - desc
    jobs = [("cbdt", [], 64), ("sbix", ["--nouse_zopflipng"], 64), ("cbdt", ["--nouse_pngquant"], 160)]
    if chk.tier != "quick":
        # (200 px with the default metrics puts the top at 158 px: beyond CBDT's 8-bit bearings, see below)
        jobs += [("cbdt", [], 32), ("sbix", [], 96), ("cbdt", [], 120), ("sbix", ["--nouse_pngquant"], 160), ("cbdt", [], 200)]
    with common.scratch("c14-") as work:
        for n, (fmt, flags, res) in enumerate(jobs):
            sb = cli.Sandbox(work / f"{fmt}-{n}")
            for p, t in files.items():
                sb.write(p, t)
            rc, out = sb.run(["--color_format", fmt, "--keep_glyph_names", "--bitmap_resolution", str(res)] + flags + sorted(files))
            chk.case(key=("cli", fmt, res, tuple(flags)), nontrivial=True)
            chk.traces_validated += 1
            replay = {"kind": "cli", "format": fmt, "flags": flags, "bitmap_resolution": res}
            # what CBDT's small glyph metrics cannot hold (a bearing beyond int8) must be refused, not written
            unrepresentable = fmt == "cbdt" and asc * round(upem * res / em) / upem > 127.5
            if unrepresentable:
                if rc == 0:
                    chk.violation(f"CLI cbdt at {res} px: the top bearing ({asc * round(upem * res / em) / upem:.1f} px) does not fit "
                                  f"the format, yet a font was written", replay)
                continue
            if rc != 0:
                chk.violation(f"CLI {fmt} build fails", dict(replay, log=out[-500:]))
                continue
            f = TTFont(str(sb.build / "Font.ttf"), lazy=False)
            d = "pngquant" if "--nouse_zopflipng" in flags else ("bitmap" if "--nouse_pngquant" in flags and "--nouse_zopflipng" in flags else "zopflipng")
            want = {p.stem: p.read_bytes() for p in (sb.build / d).glob("*.png")}
            got, metrics = {}, {}
            if fmt == "cbdt":
                for st, sd in zip(f["CBLC"].strikes, f["CBDT"].strikeData):
                    for gn, rec in sd.items():
                        got[gn] = bytes(rec.imageData)
                        metrics[gn] = (st.bitmapSizeTable.ppemX, rec.metrics)
            else:
                for ppem, st in f["sbix"].strikes.items():
                    for gn, gl in st.glyphs.items():
                        if gl.imageData:
                            got[gn] = bytes(gl.imageData)
                            metrics[gn] = (ppem, gl)
            pairs = {"g_1f600": "emoji_u1f600", "g_1f601": "emoji_u1f601"}
            for gn, stem in pairs.items():
                if got.get(gn) != want.get(stem):
                    chk.violation(f"CLI {fmt}: image stored for {gn} is not build/{d}/{stem}.png", replay)
                    continue
                w, h = struct.unpack(">II", got[gn][16:24])
                if h != res:
                    chk.violation(f"CLI {fmt}: --bitmap_resolution {res} but the bitmap of {gn} is {h} px high", replay)
                ppem_want = round(upem * h / em)
                ppem, m = metrics[gn]
                sc = ppem_want / upem
                if ppem != ppem_want:
                    chk.violation(f"CLI {fmt}: strike ppem {ppem}, round(upem * bitmap height / em height) = {ppem_want}", replay)
                    continue
                adv = f["hmtx"][gn][0]
                if fmt == "cbdt":
                    tol = 2 if m.BearingY in (-128, 127) else 1
                    if abs(m.BearingY - asc * sc) > tol + 1e-9 or abs((m.BearingY - h) - desc * sc) > tol + 1 + 1e-9:
                        chk.violation(f"CLI cbdt ({res} px): vertical box [{m.BearingY - h}, {m.BearingY}] of {gn} vs the scaled em box "
                                      f"[{desc * sc:.2f}, {asc * sc:.2f}]", replay)
                    if abs(m.Advance - adv * sc) > 1.5:
                        chk.violation(f"CLI cbdt ({res} px): pixel advance {m.Advance} vs scaled font advance {adv * sc:.2f}", replay)
                else:
                    if abs(m.originOffsetY - desc * sc) > 1 + 1e-9:
                        chk.violation(f"CLI sbix ({res} px): originOffsetY {m.originOffsetY} vs scaled descender {desc * sc:.2f}", replay)


def run(chk):
    quick = chk.tier == "quick"
    chk.rule = (
        "Bitmap.tla on the grid upem {100,1000,1024,2048} x 4 vertical metrics x width {0, em/2, em, 2em} x height "
        "{32,64,128,136,255,256} x aspect {1:2,1:1,3:2,2:1} x 4 glyph-id sets (with gaps); every state replayed into real "
        "CBDT and sbix tables read back from the binary.  Non-trivial = non-square bitmap or several glyph ids."
    )
    res = common.run_tlc("Bitmap", "Bitmap.cfg", timeout=1800)
    chk.add_tlc(res, "Bitmap (exhaustive grid)")
    if not res.ok:
        chk.tlc_violation(res, "Bitmap")
    if res.vacuous_actions():
        raise MachineryError(f"vacuous: {res.vacuous_actions()}")
    recs = res.records
    if len(recs) < 1000:
        raise MachineryError("too few Bitmap states")
    chk.exhaustive = True
    chk.sample(recs[len(recs) // 3])
    r = common.rng("C14")
    r.shuffle(recs)
    for n, rec in enumerate(recs if not quick else recs[:1500]):
        replay_state(chk, rec, n)
        chk.traces_validated += 1
    cli_bytes(chk)
    chk.assumptions += ["CBDT small-metrics / sbix origin semantics per the OpenType spec; bitmap_resolution equals the bitmap height (as in CLI builds)"]


def replay(path):
    print(open(path).read()[:8000])
    return 0
