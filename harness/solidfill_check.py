"""SolidFill.tla <-> svg._apply_solid_paint (shared by the OT-SVG writer and colr_to_svg): every colour class of the model
is given to the real function on a fresh element and the attributes it leaves are compared with the model's."""
import re

from . import common
from .common import MachineryError


def run(chk):
    res = common.run_tlc("SolidFill", "SolidFill.cfg", timeout=600)
    chk.add_tlc(res, "SolidFill (every colour class x every selected palette: FollowsPalette, AlphaKept, Minimal)")
    if not res.ok:
        chk.tlc_violation(res, "SolidFill")
    neg = common.run_tlc("SolidFill", "SolidFill_rgbonly.cfg", timeout=600, coverage=False)
    chk.add_tlc(neg, "SolidFill_rgbonly (blackness decided on the rgb triple alone: expected to violate FollowsPalette)")
    if neg.ok:
        raise MachineryError("SolidFill_rgbonly.cfg holds: FollowsPalette is vacuous")
    common.setup_repo_imports()
    from lxml import etree
    from nanoemoji import svg as nsvg
    from nanoemoji.colors import Color
    from nanoemoji.paint import PaintSolid

    from . import oracle_svg

    RGB = {"black": (0, 0, 0), "other": (200, 30, 30)}
    seen = set()
    for rec in res.records:
        key = (rec["rgb"], rec["idx"], rec["fg"], rec["opaque"])
        if key in seen:
            continue
        seen.add(key)
        alpha = 1.0 if rec["opaque"] else 0.5
        if rec["fg"]:
            col = Color.current_color(alpha)
        else:
            col = Color(*RGB[rec["rgb"]], alpha)
            if rec["idx"] >= 0:
                col = col._replace(palette_index=rec["idx"])
        el = etree.Element("path")
        chk.case(key=("solidfill",) + key, nontrivial=rec["idx"] >= 0)
        chk.traces_validated += 1
        replay = {"kind": "solid-fill", "colour": rec}
        try:
            nsvg._apply_solid_paint(el, PaintSolid(color=col))
        except Exception as e:
            chk.violation(f"_apply_solid_paint refuses the colour {key}: {type(e).__name__}: {e}", replay)
            continue
        fill = el.attrib.get("fill")
        want = rec["fill"]
        if want["k"] == "none":
            ok = fill is None
        elif want["k"] == "fg":
            ok = fill == "currentColor"
        elif want["k"] == "plain":
            ok = fill is not None and "var(" not in fill and fill != "currentColor" and oracle_svg.parse_color(fill)[0][:3] == RGB[want["rgb"]]
        else:
            m = re.match(r"var\(--color(\d+),\s*(.+)\)$", fill or "")
            ok = bool(m) and int(m.group(1)) == want["idx"] and oracle_svg.parse_color(m.group(2))[0][:3] == RGB[want["rgb"]]
        if not ok:
            chk.violation(f"a solid paint of colour {key} (rgb, palette index, foreground, opaque) leaves fill={fill!r} on its element; "
                          f"it must leave {want} for the element to follow the selected palette", replay)
        if ("opacity" in el.attrib) != rec["opacity"]:
            chk.violation(f"a solid paint of colour {key} leaves opacity={el.attrib.get('opacity')!r}", replay)
    if len(seen) < 10:
        raise MachineryError("too few SolidFill classes exported")
