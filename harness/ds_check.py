"""DisjointSet.tla <-> nanoemoji.disjoint_set.DisjointSet (the grouping of glyphs into OT-SVG documents rests on it).

Every exported behaviour (one witness call sequence per reachable abstract state) is replayed into the real class;
`parent` and `rank` are compared field by field (the model is a statement-level transcription, including the
no-op path compression and the comparison of the arguments' ranks), `find`'s answer and `sets()` too.
A divergence of the partition is what C02 rests on and is reported by the caller; a divergence of the internal
fields only is a SPEC-DRIFT note."""
import json

from . import common
from .common import MachineryError


def run(chk):
    """-> (partition_problems, internal_drift)"""
    res = common.run_tlc("DisjointSet", "DisjointSet.cfg", timeout=900)
    chk.add_tlc(res, "DisjointSet (every sequence of <=5 make_set / find / union calls over 4 elements; one witness per state exported)")
    if not res.ok:
        raise MachineryError("DisjointSet.tla: an invariant fails in the model itself:\n" + res.stdout[-1500:])
    neg = common.run_tlc("DisjointSet", "DisjointSet_linkleaf.cfg", timeout=600, coverage=False)
    chk.add_tlc(neg, "DisjointSet_linkleaf (hang the element, not its root: expected to violate PartitionIsClosure)")
    if neg.ok:
        raise MachineryError("DisjointSet_linkleaf.cfg holds: PartitionIsClosure is vacuous")
    common.setup_repo_imports()
    from nanoemoji.disjoint_set import DisjointSet

    recs = list(res.records)
    r = common.rng("ds-replay")
    r.shuffle(recs)
    n = 3000 if chk.tier == "quick" else len(recs)
    bad, drift, replayed = [], [], 0
    for rec in recs[:n]:
        ds = DisjointSet()
        joined = set()
        ok = True
        for st in rec["hist"]:
            if st["op"] == "make":
                ds.make_set(st["x"])
            elif st["op"] == "find":
                got = ds.find(st["x"])
                if got != st["y"]:
                    # which element is the root is internal; that it is in the same set is not
                    drift.append(f"{json.dumps(rec['hist'])}: find({st['x']}) = {got}, model {st['y']}")
            else:
                ds.union(st["x"], st["y"])
                joined.add((st["x"], st["y"]))
        replayed += 1
        parent = rec["parent"]
        parent = {int(k): v for k, v in (parent.items() if isinstance(parent, dict) else enumerate(parent, 1))}
        rank = rec["rank"]
        rank = {int(k): v for k, v in (rank.items() if isinstance(rank, dict) else enumerate(rank, 1))}
        known = {e for e, p in parent.items() if p}
        # the partition the model's state denotes
        def root(e):
            for _ in range(10):
                if parent[e] == e:
                    return e
                e = parent[e]
            return e
        want = {}
        for e in known:
            want.setdefault(root(e), set()).add(e)
        want = frozenset(frozenset(s) for s in want.values())
        got = ds.sets()
        if got != want:
            bad.append(f"calls {json.dumps(rec['hist'])}: sets() = {sorted(sorted(s) for s in got)}, "
                       f"the united pairs give {sorted(sorted(s) for s in want)}")
            continue
        if ds.sorted() != tuple(sorted(tuple(sorted(s)) for s in want)):
            bad.append(f"calls {json.dumps(rec['hist'])}: sorted() = {ds.sorted()}")
        if {e: p for e, p in parent.items() if p} != dict(ds.parent) or {e: rank[e] for e in known} != dict(ds.rank):
            drift.append(f"{json.dumps(rec['hist'])}: parent/rank {dict(ds.parent)}/{dict(ds.rank)}, model {parent}/{rank}")
    chk.traces_validated += replayed
    chk.notes["disjoint_set_model"] = {"behaviours_replayed": replayed, "exported": len(recs),
                                       "partition_problems": len(bad), "internal_drift": drift[:3], "internal_drift_count": len(drift)}
    for d in drift[:3]:
        print(f"SPEC-DRIFT module=DisjointSet {d[:300]}")
    return bad, drift
