"""OT-SVG side of the layer oracle: renders the element id="glyph<ID>" of the SVG-table document covering a glyph ID,
under the OT-SVG coordinate system (one user unit per font unit, y down, origin on the baseline), into the same layer
list the other oracles produce (in font space, y up).  Written from the SVG 1.1 / OT-SVG specifications (g, path, use,
defs, rect/circle/ellipse, fill inheritance, opacity, gradients); does not import nanoemoji."""
import gzip
import math
import re

from lxml import etree

from . import oracle_cmp, oracle_geom as OG, oracle_grad as G, oracle_svg

FLIP = (1, 0, 0, -1, 0, 0)
XLINK_HREF = "{http://www.w3.org/1999/xlink}href"


def svg_records(font):
    """[(text, startGID, endGID)] of the SVG table, decompressed."""
    out = []
    for rec in font["SVG "].docList:
        data = rec.data if hasattr(rec, "data") else rec[0]
        start = rec.startGlyphID if hasattr(rec, "startGlyphID") else rec[1]
        end = rec.endGlyphID if hasattr(rec, "endGlyphID") else rec[2]
        if isinstance(data, bytes):
            if data[:2] == b"\x1f\x8b":
                data = gzip.decompress(data)
            data = data.decode("utf-8")
        out.append((data, start, end))
    return out


def _local(el):
    return etree.QName(el).localname if isinstance(el.tag, str) else None


def _basic_shape_d(el):
    t = _local(el)
    a = el.attrib
    if t == "path":
        return a.get("d", "")
    if t == "rect":
        x, y, w, h = float(a.get("x", 0)), float(a.get("y", 0)), float(a["width"]), float(a["height"])
        return f"M{x},{y} L{x + w},{y} L{x + w},{y + h} L{x},{y + h} Z"
    if t in ("circle", "ellipse"):
        cx, cy = float(a.get("cx", 0)), float(a.get("cy", 0))
        rx = float(a.get("r", a.get("rx", 0)))
        ry = float(a.get("r", a.get("ry", 0)))
        return (f"M{cx + rx},{cy} A{rx} {ry} 0 1 1 {cx - rx},{cy} A{rx} {ry} 0 1 1 {cx + rx},{cy} Z")
    return None


class Doc:
    def __init__(self, text):
        self.root = etree.fromstring(text.encode("utf-8") if isinstance(text, str) else text)
        self.by_id = {}
        self.dup_ids = []
        for e in self.root.iter():
            if isinstance(e.tag, str) and "id" in e.attrib:
                if e.attrib["id"] in self.by_id:
                    self.dup_ids.append(e.attrib["id"])
                self.by_id[e.attrib["id"]] = e

    def glyph_layers(self, gid):
        el = self.by_id.get(f"glyph{gid}")
        if el is None:
            return None
        # ancestors' transforms apply too (normally the svg root has none)
        ctm = G.IDENT
        chain = []
        p = el.getparent()
        while p is not None:
            chain.append(p)
            p = p.getparent()
        for anc in reversed(chain):
            ctm = G.mul(ctm, oracle_svg.parse_transform(anc.attrib.get("transform", "")))
        return self.render(el, ctm)

    def render(self, el, ctm):
        """Layers painted by element `el` under coordinate transform ctm (to OT-SVG space; y is flipped at the end)."""
        layers = []
        counter = [0]
        self._walk(el, ctm, {"fill": None}, (), 1.0, layers, counter, 0)
        return layers

    def _walk(self, el, ctm, inherited, groups, alpha, layers, counter, depth):
        if depth > 32:
            raise ValueError("use/g nesting too deep or cyclic")
        t = _local(el)
        if t is None or t == "defs":
            return
        ctm = G.mul(ctm, oracle_svg.parse_transform(el.attrib.get("transform", "")))
        inh = dict(inherited)
        if "fill" in el.attrib:
            inh["fill"] = el.attrib["fill"]
        op = float(el.attrib.get("opacity", "1"))
        if t in ("g", "svg"):
            g2 = groups
            if op != 1.0:
                counter[0] += 1
                g2 = groups + ((counter[0], op),)
            for ch in el:
                self._walk(ch, ctm, inh, g2, alpha, layers, counter, depth + 1)
            return
        if t == "use":
            ref = el.attrib.get(XLINK_HREF, el.attrib.get("href", ""))
            target = self.by_id.get(ref.lstrip("#"))
            if target is None:
                raise ValueError(f"unresolved href {ref}")
            x, y = float(el.attrib.get("x", 0)), float(el.attrib.get("y", 0))
            ctm2 = G.mul(ctm, (1, 0, 0, 1, x, y))
            # opacity on <use> is a group opacity around the referenced content; for a single shape it is an alpha factor
            if _local(target) in ("g", "svg") and op != 1.0:
                counter[0] += 1
                self._walk(target, ctm2, inh, groups + ((counter[0], op),), alpha, layers, counter, depth + 1)
            else:
                self._walk(target, ctm2, inh, groups, alpha * op, layers, counter, depth + 1)
            return
        d = _basic_shape_d(el)
        if d is None:
            raise ValueError(f"unsupported element <{t}>")
        a = alpha * op * float(el.attrib.get("fill-opacity", "1"))
        user_shape = OG.svg_path_shape(d) if d.strip() else OG.Shape([])
        to_font = G.mul(FLIP, ctm)
        fill = inh["fill"] if inh["fill"] is not None else "black"
        if fill == "none":
            return
        if fill.startswith("url("):
            gid = re.match(r"url\(\s*#([^)]+)\)", fill).group(1).strip()
            f = oracle_svg._gradient(self.root, gid, user_shape, (0, 0, 1, 1), a, to_font)
        else:
            c, _ = oracle_svg.parse_color(fill, a)
            f = oracle_svg.SvgFill("solid", color=c)
        layers.append(oracle_cmp.Produced([user_shape.transformed(to_font)], f, groups))
        layers[-1].element = el


def glyph_layers(font, gid, _cache=None):
    """Produced layers of glyph `gid` from the SVG table; (None, reason) when no/ambiguous document."""
    recs = [(i, r) for i, r in enumerate(svg_records(font)) if r[1] <= gid <= r[2]]
    if len(recs) != 1:
        return None, f"{len(recs)} SVG documents cover glyph id {gid}"
    i, (text, start, end) = recs[0]
    _cache = _cache if _cache is not None else {}
    if i not in _cache:
        _cache[i] = Doc(text)
    doc = _cache[i]
    n = sum(1 for e in doc.root.iter() if isinstance(e.tag, str) and e.attrib.get("id") == f"glyph{gid}")
    if n != 1:
        return None, f"{n} elements with id glyph{gid} in the document for glyph ids {start}..{end}"
    return doc.glyph_layers(gid), None
