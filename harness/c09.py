"""C09: re-running after any edit or interruption converges to the clean build; a failing step exits non-zero.

Build.tla on the graphs the real driver writes for every world of a small family (B3), exhaustively over
histories of user operations x invocations x faults; model histories replayed on the real CLI (B1), where the
set of edges real ninja executes validates the model's dirtiness rules at every successful invocation."""
import json
from concurrent.futures import ThreadPoolExecutor
from pathlib import Path

from . import build_model as bm
from . import common, replay_cli
from .common import MachineryError

SAFE_OPS = ["Edit", "Remove", "Add", "ToggleOpt"]
MTIME_OPS = ["RestoreOlder", "AddOld"]
FAULTS = ["Fail", "Trunc", "KillBeforeNinja", "KillMidNinja"]
INVS = ["FreshOKx", "AllFreshx", "FailStopx", "NoFreshFontOnFailurex"]
KNOWN_KEY = "source-content-changes-without-newer-mtime"


def family(quick, fmt="glyf_colr_1", name="colr"):
    srcs = ["src/emoji_u1f600.svg", "src/emoji_u1f601.svg"]
    if not quick:
        srcs.append("src/emoji_u1f601_200d_1f600.svg")
    # the second option value changes the graph (picosvg rule, part-file variables) AND options that reach the
    # font only through the resolved TOML (width, ascender)
    return bm.Family(name, srcs, {"clip": ["--clip_to_viewbox"],
                                  "alt": ["--noclip_to_viewbox", "--width", "900", "--ascender", "900"]},
                     ["--color_format", fmt])


def family_fmt(quick):
    """Option change = colour format (vector COLR <-> OT-SVG): a different set of rules and intermediate files on the
    same build directory and the same output path."""
    srcs = ["src/emoji_u1f600.svg", "src/emoji_u1f601.svg"]
    return bm.Family("fmt", srcs, {"colr": ["--color_format", "glyf_colr_1"], "svg": ["--color_format", "picosvg"]}, [])


def family_bitmap():
    """Option change = bitmap options on a bitmap format (resolution reaches the PNG rule's command line)."""
    srcs = ["src/emoji_u1f600.svg", "src/emoji_u1f601.svg"]
    return bm.Family("bitmap", srcs, {"r48": ["--color_format", "cbdt", "--bitmap_resolution", "48"],
                                      "r64": ["--color_format", "cbdt", "--bitmap_resolution", "64"]}, [])


def family_compress():
    """Option change = bitmap compression options (pngquant / zopflipng, a quality pngquant cannot meet: its copy-through
    path): three option values, so that a value can be left and come back to."""
    srcs = ["src/emoji_u1f9e0.svg", "src/emoji_u1f9e1.svg"]     # gradient-rich: pngquant cannot reach quality 100
    base = ["--color_format", "cbdt", "--use_pngquant"]
    return bm.Family("compress", srcs, {"zq": base + ["--use_zopflipng"],
                                        "q100": base + ["--nouse_zopflipng", "--pngquant_flags=--quality 100-100"],
                                        "zq100": base + ["--use_zopflipng", "--pngquant_flags=--quality 100-100"]}, [])


def family_vf():
    """A two-master variable font driven by a config file: per-master UFO edges feeding the write_variable_font edge.
    User operations: editing a master's source (structure kept), toggling flags that reach the font through the TOMLs."""
    srcs = ["thin/emoji_u1f600.svg", "bold/emoji_u1f600.svg"]
    toml = ('output_file = "Font.ttf"\n[axis.wght]\nname = "Weight"\ndefault = 300\n'
            '[master.thin]\nstyle_name = "Thin"\nsrcs = ["thin/*.svg"]\n[master.thin.position]\nwght = 300\n'
            '[master.bold]\nstyle_name = "Bold"\nsrcs = ["bold/*.svg"]\n[master.bold.position]\nwght = 700\n')
    return bm.Family("vf", srcs, {"plain": [], "fam": ["--family", "Other Family", "--ascender", "900"]}, [],
                     configs={"config.toml": toml}, full_only=True, positional=["config.toml"])


def option_cycles(chk, fam, work, quick, fault_outs=()):
    """Every way of walking through the family's option values on one build directory (quick: one walk): the font after
    each invocation must be the clean build for that value; thorough adds a failed run in the middle."""
    import itertools

    opts = sorted(fam.opts)
    walks = [tuple(p) + (p[0],) for p in itertools.permutations(opts, min(3, len(opts)))]
    if quick:
        walks = walks[:1]
    jobs = [(w, None) for w in walks]
    jobs += [(w, (len(w) - 2, o)) for w in walks[: (1 if quick else 3)] for o in fault_outs[: (1 if quick else None)]]

    def one(k_job):
        k, (w, fault) = k_job
        return w, fault, replay_cli.replay_option_cycle(fam, w, work, f"{fam.name}-{k}", fault_at=fault)

    with ThreadPoolExecutor(3) as ex:
        results = list(ex.map(one, enumerate(jobs)))
    for w, fault, problems in results:
        chk.case(key=("cycle", fam.name, w, str(fault)), nontrivial=True)
        chk.traces_validated += 1
        for p in problems:
            if p["kind"] == "clean_build":
                raise MachineryError(p["detail"])
            chk.violation(f"[{fam.name}] {p['detail']}", {"family": fam.name, "walk": list(w), "fault": fault, "problem": p})


def select_histories(records, n, r):
    """Dedupe; keep histories with >=2 invocations and a user operation; cover every operation and fault kind
    (each followed by a later successful invocation where possible) before filling up at random."""
    seen, pool = set(), []
    for rec in records:
        if rec.get("violated"):
            continue
        k = json.dumps(rec["hist"], sort_keys=True)
        if k in seen:
            continue
        seen.add(k)
        ops = [h["op"] for h in rec["hist"]]
        users = sum(ops.count(x) for x in SAFE_OPS + MTIME_OPS)
        if ops.count("Invoke") >= 2 and users >= 1:
            pool.append(rec)
    r.shuffle(pool)

    def kinds(rec, sandwiched=False):
        """operation kinds that are followed by a later successful invocation (so their effect is judged); sandwiched:
        and preceded by a successful one (the operation hits a build directory that already holds a finished build -
        the incremental case proper)"""
        h = rec["hist"]
        oks = [i for i, x in enumerate(h) if x["op"] == "Done" and x["exit"] == 0]
        last_ok = max(oks or [-1])
        first_ok = min(oks or [len(h)])
        return {x["op"] for i, x in enumerate(h) if i < last_ok and (not sandwiched or i > first_ok) and x["op"] in SAFE_OPS + FAULTS}

    picks, covered = [], set()
    # always there, whatever order TLC exported the histories in: for every source, the plain incremental case
    # "build, edit that source, build again" (the first edit of a source changes a colour only)
    plain = {}
    for rec in sorted(pool, key=lambda x: json.dumps(x["hist"], sort_keys=True)):
        h = rec["hist"]
        for i in range(len(h) - 3):
            if (h[i]["op"] == "Done" and h[i]["exit"] == 0 and h[i + 1]["op"] == "Edit" and h[i + 2]["op"] == "Invoke"
                    and h[i + 3]["op"] == "Done" and h[i + 3]["exit"] == 0 and h[i + 1]["s"] not in plain
                    and not any(x.get("s") == h[i + 1]["s"] and x["op"] in ("Edit", "RestoreOlder", "AddOld", "Remove", "Add") for x in h[:i + 1])):
                plain[h[i + 1]["s"]] = rec
                break
    for src in sorted(plain):
        picks.append(plain[src])
        covered |= kinds(plain[src])
    # then the incremental case proper for every operation, then any operation not yet covered at all
    for sandwiched in (True, False):
        done = set()
        for want in SAFE_OPS + FAULTS:
            if want in done or (not sandwiched and want in covered):
                continue
            for rec in pool:
                if want in kinds(rec, sandwiched) and (rec not in picks or sandwiched):
                    if rec not in picks:
                        picks.append(rec)
                    done |= kinds(rec, sandwiched)
                    covered |= kinds(rec)
                    break
    for rec in pool:
        if len(picks) >= n:
            break
        if rec not in picks:
            picks.append(rec)
    return picks[:max(n, len(covered), len(plain) + len(covered))], len(seen), sorted(covered)


def run_models(chk, fam, data, sd, quick, user_ops=None):
    """TLC part shared by C09/C17; returns records for replay."""
    base = dict(UserOps=user_ops or SAFE_OPS, FaultKinds=FAULTS, MaxFaults=1, MaxVer=2, FreeSchedule=False,
                MaxOps=5 if quick else 6)
    mc = bm.write_mc(data, sd, "hist", base, INVS)
    res = common.run_tlc(mc, mc + ".cfg", spec_dir=sd, timeout=3000, coverage=False)
    chk.add_tlc(res, f"Build hist: all histories of <= {base['MaxOps']} operations, <= 1 fault, canonical schedule")
    if not res.ok:
        chk.tlc_violation(res, "Build/hist")
        hist = [r for r in res.records if r.get("violated")]
        if hist:
            chk.notes["tlc_counterexample_hist"] = hist[0]["hist"]
    # all schedules of one invocation (any -j), with one fault
    sched = dict(base, FreeSchedule=True, MaxOps=1, UserOps=[])
    mc2 = bm.write_mc(data, sd, "sched", sched, INVS + ["DeclaredCoversRead"])
    res2 = common.run_tlc(mc2, mc2 + ".cfg", spec_dir=sd, timeout=3000, coverage=False)
    chk.add_tlc(res2, "Build sched: every interleaving of one invocation from an empty build dir, <= 1 fault")
    if not res2.ok:
        chk.tlc_violation(res2, "Build/sched")
    # liveness: every started ninja run finishes (no fault), under weak fairness
    live = dict(base, MaxOps=3, FaultKinds=[], UserOps=["Edit"])
    mc3 = bm.write_mc(data, sd, "live", live, [], properties=["Converges"], spec="HFairSpec", view_hist=False)
    res3 = common.run_tlc(mc3, mc3 + ".cfg", spec_dir=sd, timeout=3000, coverage=False)
    chk.add_tlc(res3, "Build live: <>idle after every ninja start under WF (no state constraint)")
    if not res3.ok:
        chk.tlc_violation(res3, "Build/live")
    return base


def known_finding_model(chk, fam, data, sd, work, quick):
    """The mtime limitation (design §7.4): TLC must find it when mtime-regressing operations are allowed; the
    counterexample is replayed on the real CLI; reported as KNOWN-FINDING, not VIOLATION."""
    consts = dict(UserOps=SAFE_OPS + MTIME_OPS, FaultKinds=[], MaxFaults=0, MaxVer=2, FreeSchedule=False, MaxOps=4)
    mc = bm.write_mc(data, sd, "mtime", consts, ["FreshOKx"])
    res = common.run_tlc(mc, mc + ".cfg", spec_dir=sd, timeout=1800, coverage=False, workers=1)
    chk.add_tlc(res, "Build mtime: histories with RestoreOlder/AddOld (expected to violate FreshOK)")
    if res.ok:
        chk.notes["mtime_model"] = "no violation found with mtime-regressing operations"
        return
    cex = [r for r in res.records if r.get("violated")]
    if not cex:
        raise MachineryError("mtime config violated but no history exported")
    hist = cex[0]["hist"]
    ops = [h["op"] for h in hist]
    if not any(o in MTIME_OPS for o in ops):
        chk.violation("model: stale font without any mtime-regressing operation", {"hist": hist})
        return
    problems, stats = replay_cli.replay_history(fam, {"hist": hist}, work, "known-mtime")
    stale = [p for p in problems if p["kind"] == "stale"]
    chk.case(key="known-mtime", nontrivial=True)
    chk.sample({"known_finding_history": hist})
    if stale:
        chk.violation("stale font after a source's content changed while its mtime did not advance",
                      {"hist": hist, "problems": problems}, finding_key=KNOWN_KEY)
    else:
        chk.notes["mtime_real"] = f"model predicts a stale font but the real CLI converged: {problems}"


def replay_sample(chk, fam, data, sd, work, base, n, pid="C09"):
    sim = dict(base, MaxOps=6)
    mc = bm.write_mc(data, sd, "sim", sim, INVS, export=True, view_hist=False)
    res = common.run_tlc(mc, mc + ".cfg", spec_dir=sd, timeout=900, coverage=False,
                         simulate=f"num={600 if n <= 16 else 4000}", depth=70, workers=4)
    chk.notes["simulated_behaviours"] = len(res.records)
    if not res.ok:
        chk.tlc_violation(res, "Build/sim")
    r = common.rng(pid, "histories")
    # faults are injected through a Python start-up shim: steps run by native binaries (resvg) cannot be made to fail on
    # cue, so histories that fault there are model-checked but not replayed
    native = {e["out"] for w in data["worlds"] for e in w["edges"] if e["rule"] == "write_bitmap"}
    records = [x for x in res.records if not any(h.get("op") in ("Fail", "Trunc") and h.get("out") in native for h in x["hist"])]
    chk.notes.setdefault("histories_not_replayed_native_step_faults", 0)
    chk.notes["histories_not_replayed_native_step_faults"] += len(res.records) - len(records)
    picks, distinct, covered = select_histories(records, n, r)
    chk.notes["op_kinds_judged_by_a_later_successful_invocation"] = covered
    if len(picks) < min(n, 4):
        raise MachineryError(f"only {len(picks)} usable histories from simulation ({distinct} distinct)")
    chk.notes["distinct_histories_simulated"] = distinct

    def one(k_rec):
        k, rec = k_rec
        return rec, replay_cli.replay_history(fam, rec, work, f"{pid}-{k}")

    with ThreadPoolExecutor(6) as ex:
        results = list(ex.map(one, enumerate(picks)))
    tot = {"invocations": 0, "faults": 0, "user_ops": 0, "compared_ran": 0, "compared_fresh": 0}
    for rec, (problems, stats) in results:
        for k in tot:
            tot[k] += stats[k]
        ops = [h["op"] for h in rec["hist"]]
        chk.case(key=json.dumps(rec["hist"], sort_keys=True), nontrivial=True)
        chk.traces_validated += 1
        chk.sample({"history": [h if h["op"] != "Done" else {"op": "Done", "exit": h["exit"], "ran": len(h["ran"])}
                                for h in rec["hist"]]}, limit=4)
        for p in problems:
            replay = {"family": fam.name, "hist": rec["hist"], "problem": p}
            if p["kind"] == "ran":
                # the model and the real driver/ninja disagree on what runs: MODEL-DRIFT (design §8c), not by itself
                # a violation of the property; the property's own observables are judged below
                chk.notes.setdefault("model_drift_ran", []).append(p["detail"])
            elif p["kind"] == "clean_build":
                raise MachineryError(p["detail"])
            else:
                chk.violation(f"{p['kind']}: {p['detail']}", replay)
    chk.notes["replay_totals"] = tot
    return tot


def run(chk):
    quick = chk.tier == "quick"
    fam = family(quick)
    chk.rule = (
        "Build.tla instantiated on the ninja graphs the real driver writes for every world (subsets of the sources x "
        "clip option); TLC enumerates all histories of user operations (edit/remove/add source, toggle option), "
        "invocations and faults (step fails, step killed after truncated output, driver killed before/while writing "
        "build.ninja) within the bounds; sampled model histories are replayed on the real CLI and exit status, "
        "executed edge set and sha256(font) vs a clean build compared.  Non-trivial = >=2 invocations with a user "
        "operation between them; distinct by history."
    )
    with common.scratch("c09-") as work:
        data = bm.extract_family(fam, work / "x")
        chk.notes["worlds"] = len(data["worlds"])
        chk.notes["edges_in_largest_world"] = max(len(w["edges"]) for w in data["worlds"])
        sd = work / "spec"
        base = run_models(chk, fam, data, sd, quick)
        known_finding_model(chk, fam, data, sd, work, quick)
        replay_sample(chk, fam, data, sd, work, base, 12 if quick else 120)
        option_cycles(chk, fam, work, quick)
        # further option kinds of the property's quantifier: colour format, bitmap options
        for fam2, n2 in [(family_fmt(quick), 6 if quick else 60)] + ([] if quick else [(family_bitmap(), 40)]):
            w2 = work / fam2.name
            data2 = bm.extract_family(fam2, w2 / "x")
            base2 = run_models(chk, fam2, data2, w2 / "spec", quick)
            replay_sample(chk, fam2, data2, w2 / "spec", w2, base2, n2, pid="C09-" + fam2.name)
            option_cycles(chk, fam2, w2, quick)
        # a variable font: masters' UFOs feed one merging edge (sources cannot be added or removed one master at a time)
        fv = family_vf()
        wv = work / "vf"
        datav = bm.extract_family(fv, wv / "x")
        basev = run_models(chk, fv, datav, wv / "spec", quick, user_ops=["Edit", "ToggleOpt"])
        replay_sample(chk, fv, datav, wv / "spec", wv, basev, 5 if quick else 60, pid="C09-vf")
        option_cycles(chk, fv, wv, quick)
        # three compression option values: walks only (the model of this family is the bitmap family's)
        option_cycles(chk, family_compress(), work / "compress", quick,
                      fault_outs=("zopflipng/emoji_u1f9e0.png", "pngquant/emoji_u1f9e0.png"))
    chk.assumptions += [
        "ninja 1.13 dirtiness rules as transcribed in Build.tla (validated against real ninja on every replayed "
        "successful invocation: executed edge set must equal the model's)",
        "a step's output is a function of the files it reads (measured with strace on the maximal world)",
    ]


def replay(path):
    data = json.loads(open(path).read())
    print(json.dumps(data, indent=1)[:6000])
    return 0
