"""Shared by C01/C03/C05/C06/C19: Compile.tla scenarios -> real sources -> real fonts -> projection + layer oracle."""
import json
import math

from . import build, common, oracle_cmp, oracle_colr, oracle_geom as OG, oracle_grad as G, oracle_svg, scenarios as S, shaper
from .common import MachineryError

VARIANTS = [
    {},
    {"upem": 1000, "ascender": 800, "descender": -200, "width": 1000},
    {"upem": 2048, "ascender": 1900, "descender": -500, "width": 0},
    {"upem": 100, "ascender": 100, "descender": 0, "width": 100},
    {"transform": "translate(0, -50)"},
    {"transform": "matrix(0.9 0 0.1 0.9 20 10)"},
    {"clipbox_quantization": 1},
    {"clipbox_quantization": 7, "upem": 1000, "ascender": 880, "descender": -120, "width": 1000},
]
FLAVOURS = ["glyf_colr_1", "cff_colr_1", "cff2_colr_1"]


def oracle_cfg(cfg):
    return {"ascender": cfg.ascender, "descender": cfg.descender, "width": cfg.width, "transform": tuple(cfg.transform)}


def run_compile_model(chk, level, label="Compile"):
    if level != "quick":
        # the deeper levels (1.8 million states and more) are checked for the invariants only; the scenarios replayed
        # into the code come from the quick level (exporting every terminal state of the deeper ones is hundreds of MB)
        deep = common.run_tlc("Compile", f"Compile_{level}.cfg", timeout=6000, coverage=False)
        chk.add_tlc(deep, f"{label}_{level} (exhaustive, invariants only)")
        if not deep.ok:
            chk.tlc_violation(deep, f"Compile_{level}")
    res = common.run_tlc("Compile", "Compile_quick.cfg", timeout=3000, coverage=False)
    chk.add_tlc(res, f"{label}_quick (exhaustive, exported)")
    if not res.ok:
        chk.tlc_violation(res, "Compile_quick")
    # vacuity (coverage statistics triple the run time of this rational-arithmetic model): every branch of the
    # protocol must occur among the exported terminal states
    kinds = {o["kind"] for rec in res.records for g in rec["out"] for o in g}
    fallbacks = sum(sum(rec["fallbacks"].values()) for rec in res.records)
    chk.notes["compile_model_branches"] = {"kinds": sorted(kinds), "fallback_misses": fallbacks}
    if kinds != {"hit", "miss"} or fallbacks == 0:
        raise MachineryError(f"Compile model did not exercise every branch: {kinds}, fallbacks={fallbacks}")
    # group the possible outcomes per source scenario (affine_between's choice is nondeterministic in the model)
    by_src = {}
    for rec in res.records:
        k = json.dumps([rec["reuse"], rec["src"]], sort_keys=True)
        by_src.setdefault(k, {"reuse": rec["reuse"], "src": rec["src"], "outs": []})
        o = json.dumps(rec["out"], sort_keys=True)
        if o not in [json.dumps(x, sort_keys=True) for x in by_src[k]["outs"]]:
            by_src[k]["outs"].append(rec["out"])
    if len(by_src) < 100:
        raise MachineryError(f"only {len(by_src)} Compile scenarios")
    return list(by_src.values())


def fill_for(kind, r):
    if kind == "solid":
        return S.FillSpec("solid", color=r.choice(S.PALETTE), index=None)
    st = [(0.0, r.choice(S.PALETTE), 1), (1.0, r.choice(S.PALETTE), r.choice([1, 0.5]))]
    if kind == "gradBBox":
        if r.random() < 0.5:
            return S.FillSpec("linear", stops=st, units="objectBoundingBox", spread="pad", gt=None, geom=(0.1, 0.2, 0.9, 0.7))
        return S.FillSpec("radial", stops=st, units="objectBoundingBox", spread=r.choice(["pad", "reflect"]), gt=None,
                          geom=(0.5, 0.5, 0.5), focal=None)
    if kind == "gradUser":
        return S.FillSpec("linear", stops=st, units="userSpaceOnUse", spread="pad", gt=None, geom=(0.0, 0.0, 1.0, 1.0))
    raise ValueError(kind)


def concretise(sc, r, cell=4.0):
    """Compile.tla scenario -> [(cps, viewBox, [LayerSpec])]; class geometry scaled by `cell` viewBox units."""
    glyphs = []
    cell = 3.0
    for g, layers in enumerate(sc["src"]):
        specs = []
        for L in layers:
            p = S.rat_affine(L["p"])
            place = G.mul(p, (cell, 0, 0, cell, 0, 0))
            specs.append(S.LayerSpec(L["c"], place, fill_for(L["f"], r)))
        glyphs.append((S.CODEPOINTS[g], (0, 0, 100, 100), specs))
    return glyphs


def sources_from(glyphs, clip=False):
    """-> ([build.Src with picosvg-normal text], [normalised text])"""
    srcs = []
    for cps, vb, specs in glyphs:
        text = S.svg_document(specs, vb)
        pico = build.to_picosvg(text, clip_to_viewbox=clip).tostring()
        srcs.append(build.Src(S.filename_for(cps), pico))
    return srcs


def _sigma_max(m):
    a, b, c, d = m[:4]
    s1 = a * a + b * b + c * c + d * d
    s2 = math.sqrt(max(s1 * s1 - 4 * (a * d - b * c) ** 2, 0.0))
    return math.sqrt((s1 + s2) / 2)


def layer_deltas(glyphs, cfg, tol):
    """Geometric tolerance per layer from GROUND TRUTH (the scenario), never from the font: outlines are stored in
    integer font units (+-0.5, and cu2qu's 1 unit) in the DONOR's space and reach the copy through the reuse
    transform, so the admissible displacement of a copy is that error times the largest stretch of
    (copy placement o donor placement^-1) in font space, plus reuse_tolerance in font units (property text:
    'a few font units, scaled by any reuse transform').  Any earlier layer of the same class may be the donor."""
    oc = oracle_cfg(cfg)
    earlier = {}
    out = []
    for cps, vb, specs in glyphs:
        A = oracle_svg.viewbox_to_font(vb, oc)
        s = (cfg.ascender - cfg.descender) / vb[3]
        row = []
        for L in specs:
            pf = G.mul(A, L.place)
            ratio = 1.0
            ac = S.affine_class(L.cls)
            for q in earlier.get(ac, []):
                qi = G.inv(q)
                if qi is not None:
                    ratio = max(ratio, _sigma_max(G.mul(pf, qi)))
            earlier.setdefault(ac, []).append(pf)
            row.append(2.5 + (1.5 + max(tol, 0) * s) * ratio)
        out.append(row)
    return out


def clip_names(font, glyph):
    """glyph names referenced by the PaintGlyphs of a colour glyph, in layer order (COLRv1)."""
    return [L.clips[-1][0] if L.clips else None for L in oracle_colr.flatten_v1(font, glyph)]


def check_font_pictures(chk, font, cfg, srcs, glyph_specs, tol, ctx, replay, grid=16, deltas=None):
    """C01 core: for every source, the glyph reached from its codepoints paints the expected layers."""
    oc = oracle_cfg(cfg)
    cache = {}
    bad = 0
    s_units = (cfg.ascender - cfg.descender) / 100.0
    for gi, src in enumerate(srcs):
        reached = shaper.shape(font, src.cps)
        if reached is None or len(reached) != 1:
            chk.violation(f"{ctx}: codepoints {src.cps} shape to {reached}, not to one glyph", replay)
            bad += 1
            continue
        gname = reached[0]
        exp, adv, A = oracle_svg.expected_layers(src.svg_text, oc)
        if font["hmtx"][gname][0] != adv:
            chk.violation(f"{ctx}: advance of {gname} is {font['hmtx'][gname][0]}, rule gives {adv}", replay)
            bad += 1
        got = oracle_cmp.colr_layers(font, gname, cache) if "COLR" in font else []
        vbh = oracle_svg.view_box(__import__("lxml.etree", fromlist=["x"]).fromstring(src.svg_text.encode()))[3]
        s = (cfg.ascender - cfg.descender) / vbh
        if deltas is not None:
            d = deltas[gi]
        else:
            d = 2.5 + max(tol, 0) * s + 1.0
        before = oracle_cmp.ROUNDING_DOMINATED[0]
        probs = oracle_cmp.compare(exp, got, d, grid=grid, ctx=f"{ctx} glyph {gi}: ")
        # COLRv1 rendering semantics include the clip box: what it cuts off a layer is not painted
        if "COLR" in font and font["COLR"].version == 1 and font["COLR"].table.ClipList:
            cb = font["COLR"].table.ClipList.clips.get(gname)
            if cb is not None:
                dmax = max(d) if isinstance(d, (list, tuple)) else d
                for li, L in enumerate(exp):
                    b = L.shape.bounds
                    if b is None:
                        continue
                    cut = max(cb.xMin - b[0], cb.yMin - b[1], b[2] - cb.xMax, b[3] - cb.yMax)
                    if cut > dmax + 1.0:
                        probs.append(f"{ctx} glyph {gi}: layer {li} spans {tuple(round(v, 1) for v in b)} but the clip box "
                                     f"({cb.xMin}, {cb.yMin}, {cb.xMax}, {cb.yMax}) cuts {cut:.1f} units off it")
        if oracle_cmp.ROUNDING_DOMINATED[0] > before:
            chk.notes["layers_with_points_accepted_by_int16_rounding_bound"] = (
                chk.notes.get("layers_with_points_accepted_by_int16_rounding_bound", 0) + oracle_cmp.ROUNDING_DOMINATED[0] - before)
        for p in probs:
            if "too small to judge" in p:
                chk.notes["too_small_to_judge"] = chk.notes.get("too_small_to_judge", 0) + 1
                continue
            chk.violation(p, replay)
            bad += 1
    return bad
