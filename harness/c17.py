"""C17: ambiguous or unusable input stops the build instead of yielding a wrong glyph.

Defects.tla enumerates (defect class x format family x position x number of valid neighbours); every scenario is
concretised to real source files and run through the real CLI (and, for SVG formats, through
write_font._generate_color_font in-process).  Build.tla's FailStop / NoFreshFontOnFailure are checked on the
extracted graphs (shared with C09)."""
import json
import os
import time
from concurrent.futures import ThreadPoolExecutor
from pathlib import Path

from . import build_model as bm
from . import c09, cli, common
from .common import MachineryError

FMT = {"colr1": "glyf_colr_1", "colr0": "glyf_colr_0", "glyf": "glyf", "picosvg": "picosvg",
       "untouchedsvg": "untouchedsvg", "cbdt": "cbdt", "sbix": "sbix", "vf": "glyf_colr_1"}


def _svg(body):
    return f'<svg xmlns="http://www.w3.org/2000/svg" viewBox="0 0 100 100">{body}</svg>\n'


def _valid(k):
    x = 10 + 7 * k
    return _svg(f'<rect x="{x}" y="{x}" width="40" height="30" fill="#{(40 * k + 20) % 256:02X}3050"/>')


DEFECT_SVG = {
    "unparsable": "<svg xmlns='http://www.w3.org/2000/svg' viewBox='0 0 100 100'><rect x='1' y=",
    "badfill": _svg('<rect x="1" y="1" width="50" height="50" fill="notacolor"/>'),
    "missingpaint": _svg('<rect x="1" y="1" width="50" height="50" fill="url(#nope)"/>'),
    "badspread": _svg('<defs><linearGradient id="g" spreadMethod="bogus"><stop offset="0" stop-color="red"/>'
                      '<stop offset="1" stop-color="blue"/></linearGradient></defs>'
                      '<rect x="1" y="1" width="50" height="50" fill="url(#g)"/>'),
    "palconflict": _svg('<rect x="1" y="1" width="30" height="30" fill="var(--color1, red)"/>'
                        '<rect x="50" y="50" width="30" height="40" fill="var(--color1, blue)"/>'),
}


def _grad(stop_color="red", spread=None, kind="linearGradient", extra=""):
    sp = f' spreadMethod="{spread}"' if spread else ""
    return _svg(f'<defs><{kind} id="g"{sp}{extra}><stop offset="0" stop-color="{stop_color}"/>'
                f'<stop offset="1" stop-color="blue"/></{kind}></defs><rect x="1" y="1" width="50" height="50" fill="url(#g)"/>')


# several concrete instances per defect class (index 0 is the one used in CLI runs unless a variant is requested)
DEFECT_VARIANTS = {
    "unparsable": [DEFECT_SVG["unparsable"], "<svg xmlns='http://www.w3.org/2000/svg' viewBox='0 0 100 100'><g><rect x='1' y='1' width='5' height='5'/></svg>",
                   "not xml at all"],
    "badfill": [DEFECT_SVG["badfill"]] + [_svg(f'<rect x="1" y="1" width="50" height="50" fill="{c}"/>') for c in
                                          ("#ff00000", "#ff", "#ggg", "#ff0000000", "rgb(1,2)", "var(--color1, #12)")]
               + [_grad(stop_color="#ff00000"), _grad(stop_color="nosuchcolour")],
    "missingpaint": [DEFECT_SVG["missingpaint"], _svg('<defs><linearGradient id="g"/></defs><rect x="1" y="1" width="5" height="5" fill="url(#other)"/>')],
    "badspread": [DEFECT_SVG["badspread"], _grad(spread="bogus", kind="radialGradient"), _grad(spread="mirror")],
    "palconflict": [DEFECT_SVG["palconflict"],
                    _svg('<rect x="1" y="1" width="30" height="30" fill="var(--color2, red)"/><rect x="40" y="40" width="20" height="30" fill="red"/>'
                         '<rect x="50" y="5" width="30" height="20" fill="var(--color2, #00ff00)"/>'),
                    _svg('<defs><linearGradient id="g"><stop offset="0" stop-color="var(--color0, red)"/><stop offset="1" stop-color="var(--color0, blue)"/>'
                         '</linearGradient></defs><rect x="1" y="1" width="50" height="50" fill="url(#g)"/>')],
}


def concretise(sc, variant=0):
    """-> (files {rel: text}, args list, expect_stop bool)"""
    files, order = {}, []
    neighbours = [f"src/emoji_u1f6{10 + k:02d}.svg" for k in range(sc["n"])]
    for k, p in enumerate(neighbours):
        files[p] = _valid(k)
    cls = sc["cls"]
    extra_flags = []
    defect_paths = []
    if cls == "none":
        if not neighbours:
            files["src/emoji_u1f600.svg"] = _valid(5)
            neighbours = ["src/emoji_u1f600.svg"]
    elif cls == "dupname":
        files["src/emoji_u1f600.svg"] = _valid(5)
        files["src/1f600.svg"] = _valid(6)
        defect_paths = ["src/emoji_u1f600.svg", "src/1f600.svg"]
        if variant % 2 == 1:
            # a valid source whose path sorts BETWEEN the two colliding ones (inputs reach the gate in path order)
            files["src/1f699.svg"] = _valid(7)
            defect_paths = ["src/emoji_u1f600.svg", "src/1f699.svg", "src/1f600.svg"]
    elif cls == "dupfilename":
        files["src/emoji_u1f600.svg"] = _valid(5)
        files["other/emoji_u1f600.svg"] = _valid(6)
        defect_paths = ["src/emoji_u1f600.svg", "other/emoji_u1f600.svg"]
    elif cls == "toobig":
        files["src/emoji_u1f600.svg"] = _valid(5)
        defect_paths = ["src/emoji_u1f600.svg"]
        extra_flags = ["--bitmap_resolution", "300"]
    elif cls == "mastermismatch":
        defect_paths = []
    else:
        vs = DEFECT_VARIANTS[cls]
        files["src/emoji_u1f600.svg"] = vs[variant % len(vs)]
        defect_paths = ["src/emoji_u1f600.svg"]
    order = list(neighbours)
    pos = min(sc["pos"], len(order))
    order[pos:pos] = defect_paths
    args = ["--color_format", FMT[sc["fmt"]]] + extra_flags
    if sc["fmt"] == "vf":
        # two masters; each source exists in both master directories
        m_files = {}
        for p, t in files.items():
            name = Path(p).name if not p.startswith("other/") else "other_" + Path(p).name
            m_files[f"thin/{name}"] = t
            m_files[f"bold/{name}"] = t.replace('width="40"', 'width="44"')
        if cls == "dupfilename":  # same file name twice inside one master
            m_files = {k: v for k, v in m_files.items() if "other_" not in k}
            m_files["thin/x/emoji_u1f600.svg"] = _valid(6)
            m_files["bold/x/emoji_u1f600.svg"] = _valid(6)
        if cls == "mastermismatch":
            m_files["thin/emoji_u1f600.svg"] = _valid(5)
            m_files["bold/emoji_u1f600.svg"] = _valid(5)
            # the ways two masters can disagree (same artwork and colours everywhere, so that nothing but the source
            # sets differs): an extra source sorting last / first, a missing last source, a renamed source
            v = variant % 5
            bold5 = _valid(5).replace('width="40"', 'width="44"')   # bold artwork, like every other bold file
            m_files["bold/emoji_u1f600.svg"] = bold5
            if v == 0:
                m_files["bold/emoji_u1f6ff.svg"] = _valid(6)  # only in one master (and with colours of its own)
            elif v == 1:
                m_files["bold/emoji_u1f6ff.svg"] = bold5
            elif v == 2:
                m_files["thin/emoji_u1f6ff.svg"] = _valid(5)
            elif v == 3:
                m_files["bold/emoji_u1f5ff.svg"] = bold5
            else:
                m_files["thin/emoji_u1f6fe.svg"] = _valid(5)
                m_files["bold/emoji_u1f6ff.svg"] = bold5
        srcs_thin = '["thin/*.svg", "thin/x/*.svg"]' if cls == "dupfilename" else '["thin/*.svg"]'
        srcs_bold = '["bold/*.svg", "bold/x/*.svg"]' if cls == "dupfilename" else '["bold/*.svg"]'
        m_files["config.toml"] = (
            # reuse off: masters whose shapes happen to be reused differently fail to merge for that reason alone
            'output_file = "Font.ttf"\ncolor_format = "glyf_colr_1"\nreuse_tolerance = -1\n[axis.wght]\nname = "Weight"\ndefault = 300\n'
            f'[master.thin]\nstyle_name = "Thin"\nsrcs = {srcs_thin}\n[master.thin.position]\nwght = 300\n'
            f'[master.bold]\nstyle_name = "Bold"\nsrcs = {srcs_bold}\n[master.bold.position]\nwght = 700\n'
        )
        return m_files, extra_flags + ["config.toml"], sc["outcome"] == "error", len(
            {Path(k).name for k in m_files if k.endswith(".svg")})
    return files, args + order, sc["outcome"] == "error", len(order)


def _count_colour_glyphs(font_path, fmt):
    from fontTools.ttLib import TTFont

    f = TTFont(str(font_path), lazy=False)
    cmap = f.getBestCmap() or {}
    return len([cp for cp in cmap if cp >= 0x1F000])


def run_scenario(sc, work: Path, tag, prebuild, variant=0):
    files, args, expect_stop, nsrc = concretise(sc, variant)
    d = work / f"s-{tag}"
    sb = cli.Sandbox(d)
    problems = []
    try:
        if prebuild and sc["n"] > 0 and sc["fmt"] != "vf":
            neigh = {p: t for p, t in files.items() if "1f6" in p and int(Path(p).stem[-2:], 10) >= 10}
            for p, t in neigh.items():
                sb.write(p, t)
            rc0, out0 = sb.run(["--color_format", FMT[sc["fmt"]]] + sorted(neigh))
            if rc0 != 0:
                raise MachineryError(f"pre-build of valid neighbours failed: {out0[-400:]}")
            sb.tick()
        for p, t in files.items():
            sb.write(p, t)
        font = sb.build / "Font.ttf"
        before = font.stat().st_mtime_ns if font.exists() else None
        rc, out = sb.run(args)
        after = font.stat().st_mtime_ns if font.exists() else None
        fresh = after is not None and after != before
        failed_step = [l for l in out.splitlines() if l.startswith("FAILED:")]
        info = {"rc": rc, "fresh_font": fresh, "failed": failed_step[:2], "tail": out[-300:] if rc else ""}
        if expect_stop:
            if rc == 0:
                problems.append(("violation", f"defect '{sc['cls']}' in a {sc['fmt']} build: exit 0", info))
            elif fresh:
                problems.append(("violation", f"defect '{sc['cls']}' in a {sc['fmt']} build: exit {rc} but a freshly "
                                              f"written font was left behind", info))
        else:
            if rc != 0:
                kind = "machinery" if sc["cls"] == "none" else "drift"
                problems.append((kind, f"{sc['cls']}/{sc['fmt']}: expected success, rc={rc}: {out[-300:]}", info))
            elif sc["cls"] == "none":
                got = _count_colour_glyphs(font, sc["fmt"])
                if got != nsrc:
                    problems.append(("violation", f"valid build of {nsrc} sources maps {got} emoji codepoints", info))
    finally:
        import shutil

        shutil.rmtree(d, ignore_errors=True)
    return problems


def inprocess(chk, scenarios):
    """write_font._generate_color_font on the SVG formats: the same gate, without ninja in the way."""
    from . import build

    done = 0
    for sc in scenarios:
        if sc["fmt"] in ("cbdt", "sbix", "vf") or sc["cls"] in ("dupfilename", "mastermismatch", "toobig"):
            continue
        for variant in range(len(DEFECT_VARIANTS.get(sc["cls"], [None]))):
            files, args, expect_stop, nsrc = concretise(sc, variant)
            order = [a for a in args if a.endswith(".svg")]
            cfg = build.base_config(color_format=FMT[sc["fmt"]])
            srcs = [build.Src(p, files[p]) for p in order]
            chk.case(key=("inproc", json.dumps(sc, sort_keys=True), variant), nontrivial=sc["cls"] != "none")
            try:
                _, font = build.build(cfg, srcs)
                err = None
            except Exception as e:
                err = f"{type(e).__name__}: {str(e)[:120]}"
            done += 1
            if expect_stop and err is None:
                chk.violation(f"in-process: defect '{sc['cls']}' (instance {variant}) in {sc['fmt']} produced a font",
                              {"scenario": sc, "files": files, "order": order})
            if not expect_stop and sc["cls"] == "none" and err is not None:
                raise MachineryError(f"valid in-process build failed: {err}")
    # the same glyph name twice where the later row has NO codepoints (a hand-written or generated glyph map): ambiguous all
    # the same, at every position among valid rows and in every format family that places artwork by glyph
    for k, fmt in enumerate(["glyf_colr_1", "picosvg", "untouchedsvg", "glyf_colr_0", "glyf"]):
        cfg = build.base_config(color_format=fmt)
        valid = [build.Src(f"src/emoji_u1f6{10 + i:02d}.svg", _valid(i)) for i in range(2)]
        first = build.Src("src/emoji_u1f600.svg", _valid(5))
        dup = build.Src("src/extra.svg", _valid(6), cps=(), glyph_name=first.glyph_name)
        orders = [[first, dup] + valid, valid[:1] + [first] + valid[1:] + [dup], [dup, first] + valid]
        srcs = orders[k % 3]
        chk.case(key=("inproc-dupname-unmapped", fmt), nontrivial=True)
        done += 1
        try:
            build.build(cfg, srcs, fea=False)     # (the generated ccmp feature has nothing to say about an unmapped row)
            chk.violation(f"in-process: two glyph-map rows named {first.glyph_name!r} (the other one without codepoints) in {fmt} produced a font",
                          {"format": fmt, "rows": [(s2.filename, s2.glyph_name, list(s2.cps)) for s2 in srcs]})
        except Exception:
            pass
    chk.notes["inprocess_scenarios"] = done


def run(chk):
    quick = chk.tier == "quick"
    chk.rule = (
        "Defects.tla enumerates defect class x format family x argument position x valid neighbours and predicts "
        "stop/written per the pipeline's gates; scenarios are concretised and run through the real CLI (exit status, "
        "fresh font) and in-process; Build.tla FailStop/NoFreshFontOnFailure on extracted graphs for every fault "
        "placement.  Non-trivial = a defect class that applies to the format; distinct by scenario."
    )
    res = common.run_tlc("Defects", "Defects.cfg", timeout=600)
    chk.add_tlc(res, "Defects (exhaustive)")
    if not res.ok:
        chk.tlc_violation(res, "Defects")
    if res.vacuous_actions():
        raise MachineryError(f"vacuous: {res.vacuous_actions()}")
    scenarios = res.records
    if len(scenarios) < 100:
        raise MachineryError("too few Defects scenarios")
    chk.sample(scenarios[0])
    inprocess(chk, scenarios)
    # CLI sample: every applicable (class, format) once in quick; everything in thorough
    r = common.rng("c17")
    pool = list(scenarios)
    r.shuffle(pool)
    if quick:
        seen, picks = set(), []
        for sc in pool:
            key = (sc["cls"], sc["fmt"])
            if sc["outcome"] == "error" and key not in seen:
                seen.add(key)
                picks.append(sc)
        picks += [sc for sc in pool if sc["cls"] == "none" and sc["n"] == 2][:4]
        # every way masters can disagree (5 instances), on scenarios with different numbers of valid neighbours
        mm = [sc for sc in pool if sc["cls"] == "mastermismatch" and sc["fmt"] == "vf" and sc["outcome"] == "error"]
        picks = [sc for sc in picks if sc["cls"] != "mastermismatch"] + [dict(mm[i % len(mm)], _variant=i) for i in range(5)]
        # colliding sources next to each other / separated by a valid source, in every format family
        dn = [sc for sc in pool if sc["cls"] == "dupname" and sc["outcome"] == "error"]
        seen_fmt = set()
        for sc in dn:
            if sc["fmt"] not in seen_fmt:
                seen_fmt.add(sc["fmt"])
                picks.append(dict(sc, _variant=1))
    else:
        picks = pool
    with common.scratch("c17-") as work:
        def one(k_sc):
            k, sc = k_sc
            v = sc.get("_variant", k)
            sc = {a: b for a, b in sc.items() if a != "_variant"}
            return sc, run_scenario(sc, work, k, prebuild=(k % 3 == 0), variant=v)

        with ThreadPoolExecutor(8) as ex:
            results = list(ex.map(one, enumerate(picks)))
        for sc, problems in results:
            chk.case(key=("cli", json.dumps(sc, sort_keys=True)), nontrivial=sc["outcome"] == "error")
            chk.traces_validated += 1
            chk.sample({"cli_scenario": sc}, limit=5)
            for kind, what, info in problems:
                if kind == "violation":
                    chk.violation(what, {"scenario": sc, "info": info, "files": concretise(sc)[0], "args": concretise(sc)[1]})
                elif kind == "machinery":
                    raise MachineryError(what)
                else:
                    chk.notes.setdefault("model_drift", []).append(what[:200])
        # graph-level fail-stop on the real graphs, every fault placement
        fam = c09.family(True)
        data = bm.extract_family(fam, work / "x")
        consts = dict(UserOps=["Edit"], FaultKinds=["Fail", "Trunc"], MaxFaults=1, MaxVer=1, FreeSchedule=True, MaxOps=3)
        mc = bm.write_mc(data, work / "spec", "failstop", consts, ["FailStopx", "NoFreshFontOnFailurex"])
        res2 = common.run_tlc(mc, mc + ".cfg", spec_dir=work / "spec", timeout=1800, coverage=False)
        chk.add_tlc(res2, "Build failstop: every fault at every edge, all schedules")
        if not res2.ok:
            chk.tlc_violation(res2, "Build/failstop")
    chk.assumptions += ["defect classes are those listed in the property; each is represented by one concrete instance"]


def replay(path):
    data = json.loads(open(path).read())
    print(json.dumps(data, indent=1)[:6000])
    return 0
