"""Build.tla instantiated on graphs extracted from the real driver (B3), run by TLC; histories exported for
replay against the real CLI (B1)."""
import itertools
import json
import shutil
from concurrent.futures import ThreadPoolExecutor
from pathlib import Path

from . import cli, common, ninja_graph
from .common import MachineryError

SRC_TEXT = {
    "src/emoji_u1f600.svg": cli.SVG_A,
    "src/emoji_u1f601.svg": cli.SVG_B,
    "src/emoji_u1f601_200d_1f600.svg": cli.SVG_C,
    # smooth multi-stop gradients with translucency: more colours than a 256-entry palette can hold at full quality
    # two masters of a variable font (same structure, different numbers)
    "thin/emoji_u1f600.svg": '<svg xmlns="http://www.w3.org/2000/svg" viewBox="0 0 100 100"><!--vf--><rect x="10" y="10" width="40" height="30" fill="#FF0000"/><path d="M60,60 L90,60 L75,90 Z" fill="#0000FF" opacity="0.5"/></svg>\n',
    "bold/emoji_u1f600.svg": '<svg xmlns="http://www.w3.org/2000/svg" viewBox="0 0 100 100"><!--vf--><rect x="5" y="5" width="40" height="45" fill="#FF0000"/><path d="M55,55 L95,55 L75,95 Z" fill="#0000FF" opacity="0.5"/></svg>\n',
    "src/emoji_u1f9e0.svg": ('<svg xmlns="http://www.w3.org/2000/svg" viewBox="0 0 100 100"><defs><radialGradient id="a" cx="0.4" cy="0.4" r="0.7">'
                             '<stop offset="0" stop-color="#FFEB3B"/><stop offset="0.4" stop-color="#E53935"/><stop offset="0.7" stop-color="#3949AB" stop-opacity="0.6"/>'
                             '<stop offset="1" stop-color="#00897B"/></radialGradient><linearGradient id="b" x1="0" y1="0" x2="1" y2="1"><stop offset="0" stop-color="#8E24AA"/>'
                             '<stop offset="0.5" stop-color="#7CB342" stop-opacity="0.5"/><stop offset="1" stop-color="#FB8C00"/></linearGradient></defs>'
                             '<path d="M5,5 L95,5 L95,95 L5,95 Z" fill="url(#a)"/><path d="M20,30 L80,20 L70,85 L30,70 Z" fill="url(#b)" opacity="0.8"/></svg>\n'),
    "src/emoji_u1f9e1.svg": ('<svg xmlns="http://www.w3.org/2000/svg" viewBox="0 0 100 100"><defs><linearGradient id="a" x1="0" y1="1" x2="1" y2="0">'
                             '<stop offset="0" stop-color="#039BE5"/><stop offset="0.3" stop-color="#FDD835"/><stop offset="0.6" stop-color="#E53935" stop-opacity="0.7"/>'
                             '<stop offset="1" stop-color="#6D4C41"/></linearGradient></defs><path d="M50,4 L96,50 L50,96 L4,50 Z" fill="url(#a)"/></svg>\n'),
}


# ---------------------------------------------------------------- TLA+ literals
def tla(v):
    if isinstance(v, bool):
        return "TRUE" if v else "FALSE"
    if isinstance(v, int):
        return str(v)
    if isinstance(v, str):
        return '"' + v.replace("\\", "\\\\").replace('"', '\\"') + '"'
    if isinstance(v, (list, tuple)):
        return "<<" + ", ".join(tla(x) for x in v) + ">>"
    if isinstance(v, (set, frozenset)):
        return "{" + ", ".join(sorted(tla(x) for x in v)) + "}"
    if isinstance(v, dict):  # record
        return "[" + ", ".join(f"{k} |-> {tla(x)}" for k, x in v.items()) + "]"
    raise TypeError(type(v))


def tla_fun(pairs):
    """explicit function from arbitrary keys"""
    if not pairs:
        return "[x \\in {} |-> x]"
    return "(" + " @@ ".join(f"{tla(k)} :> {v if isinstance(v, Raw) else tla(v)}" for k, v in pairs) + ")"


class Raw(str):
    pass


class Interner:
    def __init__(self):
        self.ids = {}

    def __call__(self, s):
        if s not in self.ids:
            self.ids[s] = len(self.ids) + 1
        return self.ids[s]


# ---------------------------------------------------------------- worlds and graphs
class Family:
    """A family of worlds: subsets of `sources` x option values; each option value is a list of CLI flags."""

    def __init__(self, name, sources, opts, base_flags, configs=None, full_only=False, positional=None):
        self.name = name
        self.sources = list(sources)  # relative paths under the sandbox root, e.g. src/x.svg
        self.opts = dict(opts)  # opt name -> flags
        self.base_flags = list(base_flags)
        self.configs = dict(configs or {})   # extra files (a config TOML) written next to the sources
        self.full_only = full_only           # only the world with every source (masters must agree on their sources)
        self.positional = positional         # positional arguments instead of the source list (the config file)

    def worlds(self):
        if self.full_only:
            for o in self.opts:
                yield (frozenset(self.sources), o)
            return
        for k in range(1, len(self.sources) + 1):
            for subset in itertools.combinations(self.sources, k):
                for o in self.opts:
                    yield (frozenset(subset), o)

    def args(self, present, opt):
        return self.base_flags + self.opts[opt] + (list(self.positional) if self.positional is not None else sorted(present))


def bpath(src_rel):
    """sandbox-root-relative source path -> build-dir-relative path used in the graph"""
    return "../" + src_rel


def extract_family(fam: Family, workdir: Path):
    """-> data dict for the MC module (all worlds), using the real driver for every world and strace for the
    maximal world of every option value."""
    intern_h, intern_t = Interner(), Interner()
    worlds = list(fam.worlds())

    def one(i_w):
        i, (present, opt) = i_w
        root = workdir / f"w{i}"
        measure = len(present) == len(fam.sources)
        g = ninja_graph.extract(root, {s: SRC_TEXT[s] for s in present}, fam.args(present, opt), configs=fam.configs, measure=measure)
        shutil.rmtree(root, ignore_errors=True)
        if g["rc"] != 0:
            raise MachineryError(f"driver failed for world {sorted(present)} {opt}: {g['log'][-600:]}")
        return i, present, opt, g

    with ThreadPoolExecutor(8) as ex:
        results = list(ex.map(one, enumerate(worlds)))
    full_reads = {}
    for i, present, opt, g in results:
        if "reads" in g:
            full_reads[opt] = g["reads"]
    data = {"worlds": [], "family": fam.name}
    for i, present, opt, g in results:
        files = {bpath(s) for s in present} | set(g["driver_files"]) | {e["out"] for e in g["edges"]}
        edges = []
        for e in g["edges"]:
            declared = e["ins"] + e["implicit"] + e["order_only"]
            fr = full_reads[opt].get(e["out"])
            if fr is None:
                raise MachineryError(f"edge {e['out']} of a sub-world has no counterpart in the maximal world")
            reads = [r for r in fr if r in files]
            h = intern_h(e["cmd"] + "\n" + " ".join(e["ins"]))
            edges.append({"out": e["out"], "ins": declared, "trig": e["ins"] + e["implicit"], "reads": reads, "h": h, "sem": h, "rule": e["rule"]})
        toml = [{"path": p, "id": intern_t(t)} for p, t in sorted(g["driver_files"].items())]
        fonts = sorted(e["out"] for e in g["edges"] if e["rule"] in ("write_font", "write_variable_font")
                       and not e["out"].endswith(".ufo"))
        data["worlds"].append({"id": f"w{i}", "present": sorted(bpath(s) for s in present), "opt": opt,
                               "edges": edges, "toml": toml, "fonts": fonts})
    data["sources"] = sorted(bpath(s) for s in fam.sources)
    data["opts"] = sorted(fam.opts)
    data["commands"] = {v: k for k, v in intern_h.ids.items()}
    return data


def write_mc(data, spec_dir: Path, name, consts, invariants, properties=(), constraint=None, view_hist=True,
             spec="HSpec", export=False):
    """Emit MC_<name>.tla/.cfg next to a copy of Build.tla in spec_dir."""
    spec_dir.mkdir(parents=True, exist_ok=True)
    shutil.copy(common.SPEC / "Build.tla", spec_dir / "Build.tla")
    W = data["worlds"]
    world_of = tla_fun([((frozenset(w["present"]), w["opt"]), w["id"]) for w in W])

    def edge(e, outs):
        trig = e.get("trig", e["ins"])
        return {"ins": e["ins"], "trig": trig, "reads": e["reads"], "h": e["h"], "sem": e["sem"],
                "deps": frozenset(i for i in e["ins"] if i in outs), "tdeps": frozenset(i for i in trig if i in outs)}

    def edges_of(w):
        outs = {e["out"] for e in w["edges"]}
        return Raw(tla_fun([(e["out"], edge(e, outs)) for e in w["edges"]]))

    edges = tla_fun([(w["id"], edges_of(w)) for w in W])
    toml = tla_fun([(w["id"], Raw("{" + ", ".join(tla(t) for t in w["toml"]) + "}")) for w in W])
    fonts = tla_fun([(w["id"], frozenset(w["fonts"])) for w in W])
    mod = f"""---- MODULE MC_{name} ----
EXTENDS Build, Json
c_Sources == {tla(frozenset(data["sources"]))}
c_Opts == {tla(frozenset(data["opts"]))}
c_WorldOf == {world_of}
c_Edges == {edges}
c_Toml == {toml}
c_Fonts == {fonts}
c_UserOps == {tla(frozenset(consts["UserOps"]))}
c_FaultKinds == {tla(frozenset(consts["FaultKinds"]))}

VARIABLE hist
Rec(x) == hist' = Append(hist, x)
HInit == Init /\\ hist = <<[op |-> "Init", present |-> present, opt |-> opt]>>
HNext ==
    \\/ Invoke /\\ Rec([op |-> "Invoke"])
    \\/ (WriteToml \\/ WriteNinja \\/ NinjaRefuses) /\\ UNCHANGED hist
    \\/ KillBeforeNinja /\\ Rec([op |-> "KillBeforeNinja"])
    \\/ KillMidNinja /\\ Rec([op |-> "KillMidNinja"])
    \\/ (ph = "ninja" /\\ ~failed /\\ ~MissingInput /\\ \\E o \\in Pick :
            \\/ (RunEdge(o) /\\ UNCHANGED hist)
            \\/ (FailEdge(o) /\\ Rec([op |-> "Fail", out |-> o]))
            \\/ (TruncEdge(o) /\\ Rec([op |-> "Trunc", out |-> o])))
    \\/ NinjaDone /\\ Rec([op |-> "Done", exit |-> exit', ran |-> ran, world |-> World])
    \\/ \\E s \\in Sources : (Edit(s) /\\ Rec([op |-> "Edit", s |-> s]))
    \\/ \\E s \\in Sources : (RestoreOlder(s) /\\ Rec([op |-> "RestoreOlder", s |-> s]))
    \\/ \\E s \\in Sources : (Remove(s) /\\ Rec([op |-> "Remove", s |-> s]))
    \\/ \\E s \\in Sources : (Add(s) /\\ Rec([op |-> "Add", s |-> s]))
    \\/ \\E s \\in Sources : (AddOld(s) /\\ Rec([op |-> "AddOld", s |-> s]))
    \\/ \\E o \\in Opts : (ToggleOpt(o) /\\ Rec([op |-> "ToggleOpt", o |-> o]))
HSpec == HInit /\\ [][HNext]_<<vars, hist>>
HFairSpec == HSpec /\\ WF_<<vars, hist>>(HNext)
HView == vars
Quiescent == ph = "idle" /\\ ops = MaxOps
ExportHist == Quiescent => PrintT(<<"VERIF", ToJson([hist |-> hist])>>)
\\* same invariants, but the history is printed as JSON when one fails (so a counterexample can be replayed)
Show == PrintT(<<"VERIF", ToJson([hist |-> hist, violated |-> TRUE])>>) /\\ FALSE
FreshOKx == FreshOK \\/ Show
AllFreshx == AllFresh \\/ Show
FailStopx == FailStop \\/ Show
NoFreshFontOnFailurex == NoFreshFontOnFailure \\/ Show
====
"""
    (spec_dir / f"MC_{name}.tla").write_text(mod)
    cfg = [f"SPECIFICATION {spec}", "CONSTANTS",
           "  Sources <- c_Sources", "  Opts <- c_Opts", "  WorldOf <- c_WorldOf", "  Edges <- c_Edges",
           "  Toml <- c_Toml", "  Fonts <- c_Fonts", "  UserOps <- c_UserOps", "  FaultKinds <- c_FaultKinds",
           f"  MaxOps = {consts['MaxOps']}", f"  MaxFaults = {consts['MaxFaults']}", f"  MaxVer = {consts['MaxVer']}",
           f"  FreeSchedule = {'TRUE' if consts['FreeSchedule'] else 'FALSE'}"]
    for inv in invariants:
        cfg.append(f"INVARIANT {inv}")
    if export:
        cfg.append("INVARIANT ExportHist")
    for p in properties:
        cfg.append(f"PROPERTY {p}")
    if view_hist:
        cfg.append("VIEW HView")
    if constraint:
        cfg.append(f"CONSTRAINT {constraint}")
    (spec_dir / f"MC_{name}.cfg").write_text("\n".join(cfg) + "\n")
    return f"MC_{name}"


def parse_counterexample(res):
    """Pull the `hist` value of the last state of a TLC error trace (as raw TLA+ text lines)."""
    lines = [l for l in res.error_trace if l.startswith("/\\ hist = ")]
    return lines[-1] if lines else None
