"""Parts.tla <-> nanoemoji.parts.ReusableParts (specification growth beyond the listed properties).

The parts files do not feed the font at this commit, so nothing here is a violation of a listed property: divergence
between the model and the code is reported as `SPEC-DRIFT module=Parts ...` lines and in the evidence notes of the
check that hosts it (C08), never as a VIOLATION.

B3  the model's CanReach / class / area-rank tables are compared with picosvg's normalize / affine_between on the
    concrete shapes the replay uses;
B1  every exported behaviour (one witness history per reachable abstract state) is replayed into real ReusableParts
    objects (add(SVG), add(parts), compute_donors, try_reuse, to_json ; from_json) and the projected state compared.
"""
import json

from . import common
from .common import MachineryError


def _sq(x, y, L, dx=0.0, dy=0.0):
    return f"M{x},{y} L{x + L},{y} L{x + L + dx},{y + L + dy} L{x},{y + L} Z"


def _tri(x, y, L):
    return f"M{x},{y} L{x + 2 * L},{y} L{x},{y + L} Z"


# id -> path in a 1000-unit box (same ids, classes, area order and distortions as Parts.tla's Shape)
SHAPES = {
    "a1": _sq(10, 10, 10),
    "a2": _sq(100, 100, 600, 3, 0),
    "a3": _sq(200, 150, 700, 0, 3.5),
    "a4": _sq(40, 50, 12, 0.06, 0),
    "b1": _tri(5, 5, 8),
    "b2": _tri(100, 300, 300),
}
MODEL = {  # copy of Parts.tla's table, compared with the module text below
    "a1": ("sq", 1, False, 0), "a2": ("sq", 5, True, 1), "a3": ("sq", 6, True, 2), "a4": ("sq", 2, False, 1),
    "b1": ("tri", 3, False, 0), "b2": ("tri", 4, True, 0),
}
TOL = 0.1
BOX = 1000


def _can_reach(d, s):
    return MODEL[d][0] == MODEL[s][0] and (not MODEL[s][2] or MODEL[d][3] == MODEL[s][3])


class Binding:
    def __init__(self):
        common.setup_repo_imports()
        from nanoemoji import parts as P
        from picosvg.geometric_types import Rect
        from picosvg.svg import SVG
        from picosvg.svg_types import SVGPath

        self.P, self.Rect, self.SVG, self.SVGPath = P, Rect, SVG, SVGPath
        self.stored = {k: P.as_shape(SVGPath(d=v)) for k, v in SHAPES.items()}
        self.ident = {v: k for k, v in self.stored.items()}
        probe = self.new()
        self.norm = {k: probe.normalize(v) for k, v in self.stored.items()}
        self.cls_of_norm = {}
        for k, n in self.norm.items():
            self.cls_of_norm.setdefault(n, MODEL[k][0])

    def new(self):
        return self.P.ReusableParts(view_box=self.Rect(0, 0, BOX, BOX), reuse_tolerance=TOL)

    def preflight(self):
        """B3: the abstraction the model rests on, measured on the real functions."""
        from picosvg.svg_reuse import affine_between

        bad = []
        text = (common.SPEC / "Parts.tla").read_text()
        for k, (cls, rank, big, dist) in MODEL.items():
            want = f'{k} |-> [cls |-> "{cls}", rank |-> {rank}, big |-> {"TRUE" if big else "FALSE"},'
            if want.replace(" ", "") not in text.replace(" ", ""):
                bad.append(f"Parts.tla's Shape table no longer has {want}")
        for a in SHAPES:
            for b in SHAPES:
                same = self.norm[a] == self.norm[b]
                if same != (MODEL[a][0] == MODEL[b][0]):
                    bad.append(f"normalize: {a},{b} same normal form = {same}, model classes say {not same}")
                real = affine_between(self.SVGPath(d=self.stored[a]), self.SVGPath(d=self.stored[b]), TOL) is not None
                if real != _can_reach(a, b):
                    bad.append(f"affine_between({a} -> {b}) = {real}, model CanReach says {_can_reach(a, b)}")
        for a in SHAPES:
            for b in SHAPES:
                if MODEL[a][0] == MODEL[b][0] and a != b:
                    ra, rb = self.P._bbox_area(self.stored[a]), self.P._bbox_area(self.stored[b])
                    if (ra < rb) != (MODEL[a][1] < MODEL[b][1]):
                        bad.append(f"area order of {a},{b} differs from the model's ranks")
        return bad

    def svg_of(self, ids):
        paths = "".join(f'<path d="{SHAPES[i]}"/>' for i in sorted(ids))
        return self.SVG.fromstring(f'<svg xmlns="http://www.w3.org/2000/svg" viewBox="0 0 {BOX} {BOX}">{paths}</svg>')

    def project(self, objs):
        sets, cache = {}, {}
        for o, p in objs.items():
            sets[o] = {"sq": [], "tri": []}
            cache[o] = {"sq": "absent", "tri": "absent"}
            for n, members in p.shape_sets.items():
                c = self.cls_of_norm.get(n, f"?{n}")
                sets[o].setdefault(c, [])
                sets[o][c] = sorted(set(sets[o][c]) | {self.ident.get(m, f"?{m}") for m in members})
            for n, d in p._donor_cache.items():
                c = self.cls_of_norm.get(n, f"?{n}")
                cache[o][c] = "none" if d is None else self.ident.get(d, f"?{d}")
        return sets, cache

    def replay(self, hist):
        objs = {"p1": self.new(), "p2": self.new(), "merged": self.new()}
        last = "-"
        for step in hist:
            o = step["o"]
            last = "-"
            if step["op"] == "svg":
                objs[o].add(self.svg_of(step["shapes"]))
            elif step["op"] == "merge":
                objs["merged"].add(objs[o])
            elif step["op"] == "donors":
                objs[o].compute_donors()
            elif step["op"] == "json":
                objs[o] = self.P.ReusableParts.from_json(objs[o].to_json())
            elif step["op"] == "query":
                try:
                    r = objs[o].try_reuse(self.SVGPath(d=SHAPES[step["shape"]]))
                    last = "none" if r is None else self.ident.get(r.shape, f"?{r.shape}")
                    if r is not None:
                        got = self.SVGPath(d=r.shape).apply_transform(r.transform).round_floats(1).d
                        want = self.SVGPath(d=self.stored[step["shape"]]).round_floats(1).d
                        if not _close_paths(self, got, want):
                            last = f"wrong-transform:{got}!={want}"
                except ValueError:
                    last = "refused"
                except AssertionError:
                    last = "assert"
            else:
                raise MachineryError(f"unknown Parts step {step}")
        sets, cache = self.project(objs)
        return sets, cache, last


def _close_paths(b, got, want):
    from picosvg.svg_reuse import affine_between

    a = affine_between(b.SVGPath(d=got), b.SVGPath(d=want), 2 * TOL)
    return a is not None and all(abs(x - y) < 1e-3 for x, y in zip(a, (1, 0, 0, 1, 0, 0)))


def _quiet(fn, *a):
    """try_reuse prints the whole parts file before refusing a shape"""
    import contextlib
    import io

    with contextlib.redirect_stdout(io.StringIO()):
        return fn(*a)


def run(chk, notes_key="parts_model"):
    """Returns a list of drift descriptions (empty = the code follows Parts.tla on everything explored)."""
    quick = chk.tier == "quick"
    drift = []
    res = common.run_tlc("Parts", "Parts.cfg", timeout=900)
    chk.add_tlc(res, "Parts (ReusableParts: every call sequence of <=4 calls on 2 part files + the merged one; one witness per abstract state exported)")
    if not res.ok:
        raise MachineryError("Parts.tla: an invariant fails in the model itself:\n" + res.stdout[-1500:])
    deep = common.run_tlc("Parts", "Parts_deep.cfg", timeout=1800, coverage=False)
    chk.add_tlc(deep, "Parts_deep (<=6 calls, invariants only)")
    if not deep.ok:
        raise MachineryError("Parts_deep: an invariant fails in the model itself:\n" + deep.stdout[-1500:])
    for cfg, inv in (("Parts_stale.cfg", "CacheFresh"), ("Parts_stale_assert.cfg", "NoAssert")):
        neg = common.run_tlc("Parts", cfg, timeout=900, coverage=False)
        chk.add_tlc(neg, f"{cfg[:-4]} (no cache drop on add: expected to violate {inv})")
        if neg.ok:
            raise MachineryError(f"{cfg} holds: {inv} is vacuous")
    ok, line = common.run_tlapm("PartsProof", ("Parts",))   # CacheFresh after ANY number of calls
    chk.notes["parts_proof"] = line
    if ok is False:
        raise MachineryError("PartsProof.tla no longer proves: " + line)
    b = Binding()
    pre = b.preflight()
    if pre:
        # the abstraction itself no longer matches picosvg / the module text: nothing below would mean anything
        raise MachineryError("Parts binding preflight: " + "; ".join(pre[:4]))
    recs = list(res.records)
    r = common.rng("parts-replay")
    r.shuffle(recs)
    n = 1200 if quick else len(recs)
    replayed = nontrivial = 0
    for rec in recs[:n]:
        hist = rec["hist"]
        try:
            sets, cache, last = _quiet(b.replay, hist)
        except Exception as e:  # the real object raised where the model has no such outcome
            drift.append(f"history {json.dumps(hist)} raises {type(e).__name__}: {str(e)[:120]}")
            continue
        replayed += 1
        nontrivial += any(s["op"] in ("merge", "query", "json") for s in hist)
        want_sets = {o: {c: sorted(v) for c, v in d.items()} for o, d in rec["sets"].items()}
        if sets != want_sets:
            drift.append(f"history {json.dumps(hist)}: shape sets {sets}, model {want_sets}")
        elif cache != rec["cache"]:
            drift.append(f"history {json.dumps(hist)}: donor cache {cache}, model {rec['cache']}")
        elif last != rec["last"]:
            drift.append(f"history {json.dumps(hist)}: try_reuse answers {last}, model {rec['last']}")
    chk.traces_validated += replayed
    chk.notes[notes_key] = {
        "behaviours_replayed": replayed, "with_merge_query_or_json": nontrivial, "exported": len(recs),
        "drift": drift[:5], "drift_count": len(drift),
        "status": "outside the listed properties (parts files do not feed the font): drift is reported, not a violation",
    }
    for d in drift[:5]:
        print(f"SPEC-DRIFT module=Parts {d[:400]}")
    return drift


def parts_meaning(path):
    """parts-merged.json as a value: {normal form: (sorted shapes, donor)} (the file lists them in hash order)."""
    d = json.loads(open(path).read())
    return {
        "view_box": d.get("view_box"), "reuse_tolerance": d.get("reuse_tolerance"),
        "sets": sorted((s["normalized"], sorted(s["shapes"]), s.get("donor")) for s in d.get("shape_sets", [])),
    }
