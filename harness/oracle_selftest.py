"""Validation of the trusted base: the oracles' reading of SVG is compared with an independent renderer (resvg, a
dependency of the repository's own test tooling, not code under test).

  svg_side   source SVG (picosvg-normal, as the scenario generator writes it) -> oracle_svg layers, composited at pixel
             centres (SRC_OVER, group opacity) vs resvg's PNG of the same document;
  otsvg_side an OT-SVG document from a real build -> oracle_otsvg layers vs resvg's PNG of the document.

A disagreement is a MachineryError (the oracle cannot be trusted), never a violation."""
import io
import subprocess
import tempfile
from pathlib import Path

from . import common, oracle_geom as OG, oracle_grad as G, oracle_svg, scenarios as S
from .common import MachineryError

PX = 160


def _over(dst, src):
    """premultiplied RGBA over"""
    a = src[3]
    return tuple(src[i] + dst[i] * (1 - a) for i in range(4))


def composite(layers, inside_fn, p, depth=0):
    """Layers bottom-up with .fill.at(p) -> (r,g,b in 0..255, a in 0..1) and .groups; returns premultiplied RGBA (0..1)."""
    acc = (0.0, 0.0, 0.0, 0.0)
    i = 0
    while i < len(layers):
        L = layers[i]
        if len(L.groups) > depth:
            gid, alpha = L.groups[depth]
            j = i
            while j < len(layers) and len(layers[j].groups) > depth and layers[j].groups[depth][0] == gid:
                j += 1
            sub = composite(layers[i:j], inside_fn, p, depth + 1)
            acc = _over(acc, tuple(c * alpha for c in sub))
            i = j
            continue
        if inside_fn(L, p):
            c = L.fill.at(p)
            if c is not None:
                if c[0] == "fg":
                    c = (0, 0, 0, c[1])
                a = c[3]
                acc = _over(acc, (c[0] / 255 * a, c[1] / 255 * a, c[2] / 255 * a, a))
        i += 1
    return acc


def render_resvg(svg_text, px=PX):
    from PIL import Image

    with tempfile.TemporaryDirectory(prefix="orst-") as d:
        src, dst = Path(d) / "in.svg", Path(d) / "out.png"
        src.write_text(svg_text)
        p = subprocess.run(["/venv/bin/resvg", "-w", str(px), "-h", str(px), str(src), str(dst)],
                           stdout=subprocess.PIPE, stderr=subprocess.STDOUT, text=True, timeout=60)
        if p.returncode != 0 or not dst.exists():
            raise MachineryError(f"resvg failed: {p.stdout[-300:]}")
        return Image.open(dst).convert("RGBA").copy()


def compare_with_resvg(svg_text, layers, to_user, vb, ctx, edge_px=1.6):
    """layers are in some space S; to_user maps S -> the SVG's user space (so the same point is looked up in both).
    Returns (judged, bad, worst)."""
    img = render_resvg(svg_text)
    inv = G.inv(to_user)
    px_user = vb[2] / PX
    scale_s = abs(inv[0] * inv[3] - inv[1] * inv[2]) ** 0.5   # user -> S length factor
    judged = bad = 0
    worst = 0.0
    for iy in range(4, PX - 4, 5):
        for ix in range(4, PX - 4, 5):
            u = (vb[0] + (ix + 0.5) * px_user, vb[1] + (iy + 0.5) * vb[3] / PX)
            p = G.mapp(inv, u)
            # skip anti-aliased pixels: anything within edge_px of an outline edge
            if any(L.shape.bounds is not None and L.shape.dist_to_edge(p) < edge_px * px_user * scale_s for L in layers):
                continue
            want = composite(layers, lambda L, q: L.shape.inside(q), p)
            r, g, b, a = img.getpixel((ix, iy))
            got = (r / 255 * a / 255, g / 255 * a / 255, b / 255 * a / 255, a / 255)
            judged += 1
            d = max(abs(want[k] - got[k]) for k in range(4)) * 255
            if d > 6.0:
                # tolerate steep gradients: compare with the oracle's own variation over one pixel
                var = 0.0
                for dx, dy in ((1, 0), (-1, 0), (0, 1), (0, -1)):
                    q = G.mapp(inv, (u[0] + dx * px_user, u[1] + dy * px_user))
                    w2 = composite(layers, lambda L, qq: L.shape.inside(qq), q)
                    var = max(var, max(abs(want[k] - w2[k]) for k in range(4)) * 255)
                if d > 6.0 + var:
                    bad += 1
                    worst = max(worst, d)
    return judged, bad, worst


def svg_side(n, seed_salt="oracle-selftest"):
    """n random single-glyph source documents; returns stats; raises MachineryError on disagreement."""
    from . import build, compile_check as CC

    cfg = build.base_config(color_format="glyf_colr_1")
    oc = CC.oracle_cfg(cfg)
    total = {"documents": 0, "pixels_judged": 0, "pixels_bad": 0}
    for k in range(n):
        r = common.rng(seed_salt, k)
        glyphs = S.random_scenario(r, n_glyphs=1, allow_special=False)
        cps, vb, specs = glyphs[0]
        if vb[2] != vb[3]:
            vb = (vb[0], vb[1], vb[2], vb[2])
        text = S.svg_document(specs, vb)
        pico = build.to_picosvg(text).tostring()
        layers, adv, A = oracle_svg.expected_layers(pico, oc)
        judged, bad, worst = compare_with_resvg(text, layers, G.inv(A), vb, f"doc {k}")
        total["documents"] += 1
        total["pixels_judged"] += judged
        total["pixels_bad"] += bad
        if judged < 100:
            continue
        if bad > max(3, 0.01 * judged):
            raise MachineryError(f"oracle self-test: oracle_svg and resvg disagree on {bad}/{judged} pixels (worst {worst:.0f}/255) for\n{text}")
    return total


class _W:
    def __init__(self, P):
        self.shape, self.fill, self.groups = P.shapes[0], P.fill, P.groups


def otsvg_side(n, seed_salt="oracle-selftest-otsvg"):
    """n random scenarios built as real picosvg fonts; every glyph of every document: oracle_otsvg vs resvg."""
    import copy

    from lxml import etree

    from . import build, compile_check as CC, oracle_otsvg

    total = {"glyphs": 0, "pixels_judged": 0, "pixels_bad": 0}
    for k in range(n):
        r = common.rng(seed_salt, k)
        glyphs = S.random_scenario(r, reuse_bias=0.6, allow_special=False)
        cfg = build.base_config(color_format="picosvg", keep_glyph_names=True, clip_to_viewbox=False)
        try:
            _, font = build.build(cfg, CC.sources_from(glyphs), already_pico=True)
        except Exception as e:   # not the oracle's business
            continue
        em = cfg.ascender - cfg.descender
        vb = (0, -cfg.ascender, em, em)
        for text, start, end in oracle_otsvg.svg_records(font):
            # the documents come from the code under test: only well-formed ones (unique ids, resolvable hrefs) bind
            # both renderers to one meaning; anything else is C07's business, not a reason to distrust the oracle
            try:
                doc = oracle_otsvg.Doc(text)
            except Exception:
                continue
            if doc.dup_ids:
                continue
            for gid in range(start, end + 1):
                try:
                    layers = doc.glyph_layers(gid)
                except ValueError:
                    continue
                if not layers:
                    continue
                root = copy.deepcopy(doc.root)
                for el in list(root):
                    if isinstance(el.tag, str) and el.attrib.get("id", "").startswith("glyph") and el.attrib["id"] != f"glyph{gid}":
                        root.remove(el)
                root.attrib["viewBox"] = " ".join(str(v) for v in vb)
                one = etree.tostring(root).decode()
                judged, bad, worst = compare_with_resvg(one, [_W(p) for p in layers], (1, 0, 0, -1, 0, 0), vb, f"scenario {k} glyph {gid}")
                total["glyphs"] += 1
                total["pixels_judged"] += judged
                total["pixels_bad"] += bad
                if judged >= 100 and bad > max(3, 0.01 * judged):
                    raise MachineryError(f"oracle self-test: oracle_otsvg and resvg disagree on {bad}/{judged} pixels (worst {worst:.0f}/255) for glyph {gid} of\n{one}")
    return total
