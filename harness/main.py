"""./check dispatcher."""
import argparse
import importlib
import os
import sys
import traceback

from . import common

CHECKS = {
    # property id -> module (each has run(check) -> None and optional replay(path))
}


def _discover():
    import pkgutil
    import harness

    for m in pkgutil.iter_modules(harness.__path__):
        name = m.name
        if len(name) == 3 and name[0] == "c" and name[1:3].isdigit():
            CHECKS["C" + name[1:3]] = "harness." + name


def main(argv=None):
    ap = argparse.ArgumentParser()
    ap.add_argument("what")
    ap.add_argument("--tier", choices=["quick", "thorough"])
    ap.add_argument("--replay")
    ap.add_argument("--seed", type=int)
    args = ap.parse_args(argv)
    if args.tier:
        os.environ["VERIF_TIER"] = args.tier
    if args.seed is not None:
        os.environ["VERIF_SEED"] = str(args.seed)
    _discover()
    if args.what == "setup":
        from . import setup

        return setup.main()
    if args.what == "selftest":
        # the oracles against an independent renderer (resvg), as C01 / C02 do at the start of every run
        from . import oracle_selftest

        common.setup_repo_imports()
        print("selftest (SVG side):", oracle_selftest.svg_side(24))
        print("selftest (OT-SVG side):", oracle_selftest.otsvg_side(10))
        return 0
    pid = args.what.upper()
    if pid not in CHECKS:
        print(f"unknown check {pid}; have {sorted(CHECKS)}", file=sys.stderr)
        return 2
    chk = None
    try:
        common.setup_repo_imports()
        mod = importlib.import_module(CHECKS[pid])
        if args.replay:
            return mod.replay(args.replay)
        chk = common.Check(pid)
        mod.run(chk)
        return chk.finish()
    except common.MachineryError as e:
        print(f"MACHINERY-ERROR {pid}: {e}", file=sys.stderr)
        if chk is not None and chk.violation_count > 0:
            chk.notes["machinery_error_after_violation"] = str(e)[:500]
            return chk.finish()  # a violation was already established; report it
        return 2
    except Exception:
        traceback.print_exc()
        print(f"MACHINERY-ERROR {pid}: unexpected exception", file=sys.stderr)
        if chk is not None and chk.violation_count > 0:
            chk.notes["machinery_error_after_violation"] = traceback.format_exc()[-500:]
            return chk.finish()
        return 2


if __name__ == "__main__":
    sys.exit(main())
