"""B1 for Build.tla: replay a model history (user operations, invocations, injected faults) against the real CLI
and compare what the model predicts (exit status, set of executed edges, freshness) with what happened."""
import hashlib
import json
import os
import threading
import time
from pathlib import Path

from . import cli, common
from .build_model import SRC_TEXT

_clean_cache = {}
_clean_lock = threading.Lock()
OLD_NS = 1_000_000_000 * 10**9  # 2001: older than anything in a build dir


def src_rel(bp):  # "../src/x.svg" -> "src/x.svg"
    return bp[3:] if bp.startswith("../") else bp


def clean_build_sha(fam, present, opt, ver, workroot: Path, font="Font.ttf"):
    """sha256 of the font a clean build of this world produces (fresh directory)."""
    key = (fam.name, tuple(sorted((s, ver.get(s, 0)) for s in present)), opt, str(common.repo_root()))
    with _clean_lock:
        if key in _clean_cache:
            return _clean_cache[key]
    d = workroot / ("clean-" + hashlib.sha1(repr(key).encode()).hexdigest()[:12] + f"-{threading.get_ident()}")
    sb = cli.Sandbox(d)
    for s in present:
        sb.write(src_rel(s), cli.svg_variant(SRC_TEXT[src_rel(s)], ver.get(s, 0)))
    for rel, text in getattr(fam, "configs", {}).items():
        sb.write(rel, text)
    rc, out = sb.run(fam.args([src_rel(s) for s in present], opt))
    sha = sb.sha(font) if rc == 0 else None
    import shutil

    shutil.rmtree(d, ignore_errors=True)
    with _clean_lock:
        _clean_cache[key] = (rc, sha, out[-400:] if rc else "")
    return _clean_cache[key]


def _fault_env(step):
    out = step["out"]
    if out.endswith((".ttf", ".otf")):
        match = "nanoemoji.write_font "
    elif out.startswith("pngquant/"):
        match = f"-o {out}"          # python -m nanoemoji.pngquant -i IN -o OUT
    elif out.startswith("zopflipng/"):
        match = f" {out}"            # python -m zopfli.png -y IN OUT  (the only command line naming this path)
    else:
        match = f"--output_file {out}"
    env = {"NEV_FAULT_MATCH": match, "NEV_FAULT_MODE": "fail" if step["op"] == "Fail" else "trunc"}
    if step["op"] == "Trunc":
        env["NEV_FAULT_OUT"] = out
    return env


def replay_history(fam, rec, workroot: Path, tag):
    """rec = {init: {present, opt}, hist: [...]} exported by MC module.  Returns (problems, stats):
    problems = list of dicts {kind, detail}; kinds: exit, ran, stale, fresh_font_on_failure, clean_build."""
    import shutil

    d = workroot / f"h-{tag}"
    sb = cli.Sandbox(d)
    init = rec["hist"][0]
    assert init["op"] == "Init"
    present = set(init["present"])
    opt = init["opt"]
    ver = {}
    for s in present:
        sb.write(src_rel(s), SRC_TEXT[src_rel(s)])
    for rel, text in getattr(fam, "configs", {}).items():
        sb.write(rel, text)
    problems = []
    stats = {"invocations": 0, "faults": 0, "user_ops": 0, "compared_ran": 0, "compared_fresh": 0}
    hist = rec["hist"][1:]
    i = 0
    prev_ok = True  # the build dir is in a schedule-independent state (empty, or last invocation succeeded)
    try:
        while i < len(hist):
            st = hist[i]
            op = st["op"]
            if op == "Invoke":
                j = i + 1
                env = {}
                outcome = None
                fault = None
                while j < len(hist):
                    o2 = hist[j]["op"]
                    if o2 in ("Fail", "Trunc"):
                        env.update(_fault_env(hist[j]))
                        fault = hist[j]
                    elif o2 in ("KillBeforeNinja", "KillMidNinja"):
                        env["NEV_DRIVER_KILL"] = "before_ninja" if o2 == "KillBeforeNinja" else "mid_ninja"
                        outcome = {"exit": 1, "ran": [], "kill": True}
                        j += 1
                        break
                    elif o2 == "Done":
                        outcome = hist[j]
                        j += 1
                        break
                    else:
                        break
                    j += 1
                if outcome is None:  # history ends mid-invocation (bounded model): stop here
                    break
                sb.tick()
                log_before = sb.ninja_log()
                t_start = time.time_ns()
                font = sb.build / "Font.ttf"
                rc, out = sb.run(fam.args([src_rel(s) for s in sorted(present)], opt), env=env)
                stats["invocations"] += 1
                stats["faults"] += 1 if (fault or outcome.get("kill")) else 0
                log_after = sb.ninja_log()
                ran_real = sorted(o for o, v in log_after.items() if log_before.get(o) != v)
                want_exit = outcome["exit"]
                if (rc == 0) != (want_exit == 0):
                    problems.append({"kind": "exit", "detail": f"step {i}: model exit {want_exit}, real rc {rc}",
                                     "log": out[-600:]})
                    break
                if rc == 0 and not fault and prev_ok:
                    stats["compared_ran"] += 1
                    if sorted(outcome["ran"]) != ran_real:
                        problems.append({"kind": "ran", "detail": f"step {i}: model ran {sorted(outcome['ran'])}, "
                                                                  f"real ninja ran {ran_real}"})
                if rc == 0:
                    stats["compared_fresh"] += 1
                    crc, csha, clog = clean_build_sha(fam, sorted(present), opt, ver, workroot)
                    if crc != 0:
                        problems.append({"kind": "clean_build", "detail": f"clean build failed: {clog}"})
                        break
                    if sb.sha("Font.ttf") != csha:
                        problems.append({"kind": "stale", "detail": f"step {i}: exit 0 but font differs from the clean "
                                                                    f"build of {sorted(present)} opt={opt} ver={ver}"})
                else:
                    # (a truncated Font.ttf left by the injected kill of the font-writing step itself is the fault, not a
                    # font the failed build delivered)
                    own_truncation = fault.get("op") == "Trunc" and fault.get("out") == "Font.ttf" if isinstance(fault, dict) else False
                    if fault and not own_truncation and font.exists() and font.stat().st_mtime_ns >= t_start:
                        problems.append({"kind": "fresh_font_on_failure",
                                         "detail": f"step {i}: a step failed ({fault}) yet Font.ttf was freshly written"})
                prev_ok = rc == 0
                i = j
                continue
            stats["user_ops"] += 1
            sb.tick()
            if op == "Edit":
                s = st["s"]
                ver[s] = ver.get(s, 0) + 1
                sb.write(src_rel(s), cli.svg_variant(SRC_TEXT[src_rel(s)], ver[s]))
            elif op == "RestoreOlder":
                s = st["s"]
                ver[s] = ver.get(s, 0) + 1
                old = (d / src_rel(s)).stat().st_mtime_ns
                sb.write(src_rel(s), cli.svg_variant(SRC_TEXT[src_rel(s)], ver[s]), mtime_ns=old)
            elif op == "Remove":
                sb.remove(src_rel(st["s"]))
                present.discard(st["s"])
            elif op == "Add":
                s = st["s"]
                sb.write(src_rel(s), cli.svg_variant(SRC_TEXT[src_rel(s)], ver.get(s, 0)))
                present.add(s)
            elif op == "AddOld":
                s = st["s"]
                ver[s] = ver.get(s, 0) + 1
                sb.write(src_rel(s), cli.svg_variant(SRC_TEXT[src_rel(s)], ver[s]), mtime_ns=OLD_NS)
                present.add(s)
            elif op == "ToggleOpt":
                opt = st["o"]
            else:
                raise common.MachineryError(f"unknown op {op}")
            i += 1
    finally:
        shutil.rmtree(d, ignore_errors=True)
    return problems, stats


def replay_option_cycle(fam, opts_seq, workroot: Path, tag, fault_at=None):
    """Invoke the real CLI on one build directory with opts_seq[0], then opts_seq[1], ... (all sources present).  After
    every invocation the font must equal a clean build with that option value.  fault_at = (index, output path): that
    invocation runs with a failing step at `output`, must exit non-zero, and is followed by a fault-free rerun.
    -> list of problem dicts (kinds: exit, stale, clean_build)."""
    import shutil

    d = workroot / f"cycle-{tag}"
    sb = cli.Sandbox(d)
    present = sorted("../" + s for s in fam.sources)
    for s in present:
        sb.write(src_rel(s), SRC_TEXT[src_rel(s)])
    for rel, text in getattr(fam, "configs", {}).items():
        sb.write(rel, text)
    problems = []
    try:
        for i, opt in enumerate(opts_seq):
            runs = [None]
            if fault_at is not None and fault_at[0] == i:
                runs = [{"op": "Fail", "out": fault_at[1]}, None]
            for fault in runs:
                sb.tick()
                env = _fault_env(fault) if fault else {}
                rc, out = sb.run(fam.args([src_rel(s) for s in present], opt), env=env)
                if fault:
                    # the fault fires only if that step runs at all (it may be up to date from the previous option value)
                    injected = "NEV injected failure" in out
                    if rc == 0 and injected:
                        problems.append({"kind": "exit", "detail": f"step {i} ({opt}): a failing step at {fault['out']} yet exit 0"})
                    continue
                if rc != 0:
                    problems.append({"kind": "exit", "detail": f"step {i} ({opt}): exit {rc}", "log": out[-500:]})
                    return problems
                crc, csha, clog = clean_build_sha(fam, present, opt, {}, workroot)
                if crc != 0:
                    problems.append({"kind": "clean_build", "detail": f"clean build failed: {clog}"})
                    return problems
                if sb.sha("Font.ttf") != csha:
                    problems.append({"kind": "stale", "detail": f"after the option sequence {list(opts_seq[: i + 1])}"
                                                                f"{' with a failed run before the last' if fault_at and fault_at[0] == i else ''}: exit 0 but the font differs from a clean build with {opt}"})
    finally:
        shutil.rmtree(d, ignore_errors=True)
    return problems
