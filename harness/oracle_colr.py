"""Independent reading of COLR v0/v1 from a decompiled fontTools font: flattens a colour glyph into a layer list
[Layer(clips, fill, groups)] in z-order, evaluates fills at points.  Written from the OpenType COLR specification;
does not import nanoemoji."""
import math

from . import oracle_grad as G

FOREGROUND = "fg"


def transform_of(p):
    """(matrix, child) for a COLRv1 transform paint, else (None, p)."""
    name = p.getFormatName()
    if name == "PaintTransform":
        t = p.Transform
        return (t.xx, t.yx, t.xy, t.yy, t.dx, t.dy), p.Paint
    if name == "PaintTranslate":
        return (1.0, 0.0, 0.0, 1.0, p.dx, p.dy), p.Paint
    if name.startswith("PaintScale"):
        if "Uniform" in name:
            sx = sy = p.scale
        else:
            sx, sy = p.scaleX, p.scaleY
        cx, cy = getattr(p, "centerX", 0), getattr(p, "centerY", 0)
        return (sx, 0.0, 0.0, sy, cx - sx * cx, cy - sy * cy), p.Paint
    if name.startswith("PaintRotate"):
        a = math.radians(p.angle)
        cx, cy = getattr(p, "centerX", 0), getattr(p, "centerY", 0)
        cs, sn = math.cos(a), math.sin(a)
        return (cs, sn, -sn, cs, cx - cs * cx + sn * cy, cy - sn * cx - cs * cy), p.Paint
    if name.startswith("PaintSkew"):
        xa, ya = math.radians(p.xSkewAngle), math.radians(p.ySkewAngle)
        cx, cy = getattr(p, "centerX", 0), getattr(p, "centerY", 0)
        m = (1.0, math.tan(ya), -math.tan(xa), 1.0)
        return (m[0], m[1], m[2], m[3], cx - (m[0] * cx + m[2] * cy), cy - (m[1] * cx + m[3] * cy)), p.Paint
    return None, p


def _extend(colorline):
    e = colorline.Extend
    v = getattr(e, "value", e)
    return {0: "pad", 1: "repeat", 2: "reflect"}[int(v)]


def _stops(colorline, palette):
    out = []
    for s in colorline.ColorStop:
        out.append((s.StopOffset, _color(s.PaletteIndex, s.Alpha, palette)))
    out.sort(key=lambda x: x[0])
    return out


def _color(idx, alpha, palette):
    if idx == 0xFFFF:
        return (FOREGROUND, alpha)
    c = palette[idx]
    return (c.red, c.green, c.blue, (c.alpha / 255.0) * alpha)


# which CPAL palette the flattening reads (a text engine's palette selection); [0] unless a check says otherwise
PALETTE_INDEX = [0]


class Fill:
    """A fill = paint leaf + the transform that places it (matrix maps fill space -> glyph/font space)."""

    def __init__(self, kind, m, **kw):
        self.kind = kind  # solid | linear | radial
        self.m = m
        self.__dict__.update(kw)

    def at(self, p):
        """RGBA (0..255, alpha 0..1) at font-space point p, or None where the fill paints nothing.
        Foreground colours come back as ('fg', alpha)."""
        if self.kind == "solid":
            return self.color
        mi = G.inv(self.m)
        if mi is None:
            return None
        q = G.mapp(mi, p)
        if self.kind == "linear":
            t = G.linear_t_colr(self.p0, self.p1, self.p2, q)
        else:
            t = G.radial_t(self.c0, self.r0, self.c1, self.r1, q, self.extend)
        if t is None:
            return None
        if any(s[1][0] == FOREGROUND for s in self.stops):
            stops = [(o, (0, 0, 0, c[1]) if c[0] == FOREGROUND else c) for o, c in self.stops]
        else:
            stops = self.stops
        return G.color_at(stops, t, self.extend)


def fill_of(paint, palette, m=G.IDENT):
    """Resolve transforms down to a Solid/Linear/Radial leaf."""
    while True:
        t, child = transform_of(paint)
        if t is None:
            break
        m = G.mul(m, t)
        paint = child
    name = paint.getFormatName()
    if name == "PaintSolid":
        return Fill("solid", m, color=_color(paint.PaletteIndex, paint.Alpha, palette))
    if name == "PaintLinearGradient":
        return Fill(
            "linear", m, p0=(paint.x0, paint.y0), p1=(paint.x1, paint.y1), p2=(paint.x2, paint.y2),
            stops=_stops(paint.ColorLine, palette), extend=_extend(paint.ColorLine),
        )
    if name == "PaintRadialGradient":
        return Fill(
            "radial", m, c0=(paint.x0, paint.y0), r0=paint.r0, c1=(paint.x1, paint.y1), r1=paint.r1,
            stops=_stops(paint.ColorLine, palette), extend=_extend(paint.ColorLine),
        )
    raise ValueError(f"unsupported fill paint {name}")


class DictPaint:
    """The ufo2ft paint dict (what nanoemoji hands to ufo2ft), exposed with the attribute names of a decompiled
    ot.Paint so the same evaluator reads both; values stay unrounded floats."""

    def __init__(self, d):
        from fontTools.ttLib.tables.otTables import PaintFormat

        self._name = PaintFormat(int(d["Format"])).name
        for k, v in d.items():
            if k == "Format":
                continue
            if k == "Transform":
                v = _NS(xx=v[0], yx=v[1], xy=v[2], yy=v[3], dx=v[4], dy=v[5])
            elif k == "ColorLine":
                ext = {"pad": 0, "repeat": 1, "reflect": 2}[v["Extend"]] if isinstance(v["Extend"], str) else int(v["Extend"])
                v = _NS(Extend=ext, ColorStop=[_NS(**s) for s in v["ColorStop"]])
            elif k == "Layers":
                v = [DictPaint(x) for x in v]
            elif isinstance(v, dict) and "Format" in v:
                v = DictPaint(v)
            setattr(self, k, v)

    def getFormatName(self):
        return self._name


class _NS:
    def __init__(self, **kw):
        self.__dict__.update(kw)


class Layer:
    def __init__(self, clips, fill, groups):
        self.clips = clips  # [(glyph name, matrix)] : all must contain the point
        self.fill = fill
        self.groups = groups  # tuple of (group id, alpha) from outermost to innermost


def flatten_v1(font, base_glyph):
    """COLRv1 base glyph -> [Layer] bottom-up."""
    colr = font["COLR"].table
    palette = font["CPAL"].palettes[PALETTE_INDEX[0]]
    recs = {r.BaseGlyph: r.Paint for r in colr.BaseGlyphList.BaseGlyphPaintRecord} if colr.BaseGlyphList else {}
    layer_list = colr.LayerList.Paint if colr.LayerList else []
    out = []
    counter = [0]

    def walk(p, m, clips, groups, depth=0):
        if depth > 64:
            raise ValueError("paint graph too deep / cyclic")
        name = p.getFormatName()
        if name == "PaintColrLayers":
            for lp in layer_list[p.FirstLayerIndex: p.FirstLayerIndex + p.NumLayers]:
                walk(lp, m, clips, groups, depth + 1)
            return
        if name == "PaintGlyph":
            clips2 = clips + [(p.Glyph, m)]
            child = p.Paint
            cn = child.getFormatName()
            # the child may itself contain structure (nested PaintGlyph / layers) or be a fill
            try:
                out.append(Layer(clips2, fill_of(child, palette, m), groups))
            except ValueError:
                walk(child, m, clips2, groups, depth + 1)
            return
        if name == "PaintColrGlyph":
            walk(recs[p.Glyph], m, clips, groups, depth + 1)
            return
        if name == "PaintComposite":
            mode = p.CompositeMode
            mode = int(getattr(mode, "value", mode))
            b = p.BackdropPaint
            if mode == 5 and b.getFormatName() == "PaintSolid":  # SRC_IN against a solid: group opacity
                palette_c = _color(b.PaletteIndex, b.Alpha, palette)
                counter[0] += 1
                walk(p.SourcePaint, m, clips, groups + ((counter[0], palette_c[-1]),), depth + 1)
                return
            raise ValueError(f"unsupported composite mode {mode}")
        t, child = transform_of(p)
        if t is not None:
            walk(child, G.mul(m, t), clips, groups, depth + 1)
            return
        if name in ("PaintSolid", "PaintLinearGradient", "PaintRadialGradient"):
            out.append(Layer(clips, fill_of(p, palette, m), groups))  # unclipped fill
            return
        raise ValueError(f"unsupported paint {name}")

    if base_glyph in recs:
        walk(recs[base_glyph], G.IDENT, [], ())
    return out


def flatten_v0(font, base_glyph):
    colr = font["COLR"]
    palette = font["CPAL"].palettes[PALETTE_INDEX[0]]
    out = []
    for layer in colr.ColorLayers.get(base_glyph, []):
        out.append(Layer([(layer.name, G.IDENT)], Fill("solid", G.IDENT, color=_color(layer.colorID, 1.0, palette)), ()))
    return out
