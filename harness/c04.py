"""C04: every source is reachable from its codepoints, and only from them.

GlyphSet.tla (names on character codes, blank glyphs, glyph-order merge by name, ccmp ligatures, shaping) is
model-checked for Reachable / Distinct / Skeleton over all sets of <=2 sequences of length <=3 on a 7-codepoint
alphabet (letters, hex-alphabetic, ZWJ, VS16, astral).  Scenarios are replayed into the real naming / fea functions
and into real builds in all 13 colour formats; an independent shaper (cmap + GSUB read from the reloaded binary)
decides reachability; blanks, .notdef, space and the advance rule are read from the binary."""
import io
import json

from . import build, common, oracle_cmp, oracle_geom as OG, oracle_otsvg, oracle_svg, compile_check as CC, shaper
from .common import MachineryError

FORMATS = ["glyf", "glyf_colr_0", "glyf_colr_1", "cff_colr_0", "cff_colr_1", "cff2_colr_0", "cff2_colr_1", "picosvg", "picosvgz",
           "untouchedsvg", "untouchedsvgz", "cbdt", "sbix"]
KF_NAME = "glyph-name-collision-g-prefix"
# aspect ratios 1:4 .. 4:1; the last four make em*w/h fractional (.75, .875, .125, .75 with the default metrics), above and
# below the configured widths, so that the rounding in the advance rule is observable
VIEWBOXES = [(0, 0, 100, 100), (0, 0, 25, 100), (0, 0, 400, 100), (0, 0, 150, 100), (0, 0, 100, 160),
             (0, 0, 138, 128), (0, 0, 173, 128), (0, 0, 131, 128), (0, 0, 50, 128)]


def svg_for(k, vb, badge=False):
    """A rect unique to source k (position, size and colour) inside the viewBox.  badge: an additional small triangle of
    one fixed size (a shape shared, by translation, with every other source that carries the badge)."""
    x = vb[0] + vb[2] * (0.1 + 0.15 * (k % 4))
    y = vb[1] + vb[3] * (0.15 + 0.2 * (k % 3))
    w, h = vb[2] * (0.3 + 0.02 * (k % 5)), vb[3] * (0.25 + 0.015 * (k % 7))
    col = ["#D32F2F", "#1976D2", "#388E3C", "#F57C00"][k % 4]
    # an irregular polygon with k % 4 + 4 vertices inscribed in that box: sources are not affine copies of one another
    # (rectangles all are), so nothing is shared between sources unless a badge is asked for
    import math

    n = k % 4 + 4
    pts = []
    for i in range(n):
        a = 2 * math.pi * i / n + 0.3 * k
        rad = 0.5 * (0.55 + 0.45 * ((i * 7 + k * 3) % 5) / 4)
        pts.append((x + w / 2 + w * rad * math.cos(a), y + h / 2 + h * rad * math.sin(a)))
    unique = "M" + " L".join(f"{px:.3f},{py:.3f}" for px, py in pts) + " Z"
    extra = ""
    if badge:
        bx, by, s = vb[0] + vb[2] * (0.05 + 0.1 * (k % 6)), vb[1] + vb[3] * (0.72 + 0.03 * (k % 4)), min(vb[2], vb[3]) * 0.12
        extra = f'<path d="M{bx:g},{by:g} L{bx + s:g},{by:g} L{bx:g},{by + s:g} Z" fill="#7B1FA2"/>'
    return (f'<svg xmlns="http://www.w3.org/2000/svg" viewBox="{vb[0]} {vb[1]} {vb[2]} {vb[3]}">'
            f'<path d="{unique}" fill="{col}"/>{extra}</svg>\n')


def png_for(k, res, vb):
    from PIL import Image

    w = max(1, round(res * vb[2] / vb[3]))
    img = Image.new("RGBA", (w, res), (40 * k % 256, 90, 200 - 30 * k, 255))
    buf = io.BytesIO()
    img.save(buf, "PNG")
    return buf.getvalue()


def drawn_bounds(font, fmt, gname):
    """Bounding box of what the glyph draws in this format (font units), or the PNG bytes for bitmap formats."""
    if fmt in ("cbdt",):
        for strike in font["CBDT"].strikeData:
            if gname in strike:
                return ("png", bytes(strike[gname].imageData))
        return None
    if fmt == "sbix":
        for s in font["sbix"].strikes.values():
            g = s.glyphs.get(gname)
            if g is not None and g.imageData:
                return ("png", bytes(g.imageData))
        return None
    if "svg" in fmt:
        layers, why = oracle_otsvg.glyph_layers(font, font.getGlyphID(gname))
        if not layers:
            return None
        bs = [L.shapes[0].bounds for L in layers if L.shapes[0].bounds]
    elif fmt == "glyf":
        sh = OG.glyph_shape(font, gname)
        return sh.bounds
    else:
        layers = oracle_cmp.colr_layers(font, gname)
        if not layers:
            return None
        bs = [L.shapes[0].bounds for L in layers if L.shapes and L.shapes[0].bounds]
    if not bs:
        return None
    return (min(b[0] for b in bs), min(b[1] for b in bs), max(b[2] for b in bs), max(b[3] for b in bs))


def is_blank(font, gname):
    if "glyf" in font:
        if font["glyf"][gname].numberOfContours != 0:
            return False
    else:
        sh = OG.glyph_shape(font, gname)
        if sh.contours:
            return False
    if "COLR" in font:
        c = font["COLR"]
        if c.version == 0 and c.ColorLayers.get(gname):
            return False
        if c.version == 1 and c.table.BaseGlyphList and any(r.BaseGlyph == gname for r in c.table.BaseGlyphList.BaseGlyphPaintRecord):
            return False
    if "SVG " in font:
        gid = font.getGlyphID(gname)
        if any(s <= gid <= e for _, s, e in oracle_otsvg.svg_records(font)):
            return False
    if "CBDT" in font and any(gname in s for s in font["CBDT"].strikeData):
        return False
    return True


def build_and_check(chk, sc, fmt, k, keep, replay_base, share=None, same_vb=None):
    """share: indices of the sources that carry the shared badge (then shape reuse is ON, so that glyphs sharing a shape
    are grouped and - in OT-SVG formats - renumbered)."""
    seqs = [tuple(int(h, 16) for h in s) for s in sc["srcs"]]
    width = [1275, 0, 1000][k % 3]
    cfg = build.base_config(color_format=fmt, keep_glyph_names=keep, width=width, clip_to_viewbox=False,
                            reuse_tolerance=-1.0 if share is None else 0.1, bitmap_resolution=48)
    srcs = []
    for i, cps in enumerate(seqs):
        vb = same_vb or VIEWBOXES[(k + i) % len(VIEWBOXES)]
        name = "emoji_u" + "_".join("%x" % c for c in cps) + ".svg"
        srcs.append((build.Src(name, svg_for(i, vb, badge=share is not None and i in share), png_for(i, 48, vb)), vb))
    replay = dict(replay_base, format=fmt, keep_glyph_names=keep, width=width, files=[s.filename for s, _ in srcs])
    raw = fmt.startswith("untouched")
    try:
        _, font = build.build(cfg, [s for s, _ in srcs], already_pico=False if raw else False)
    except Exception as e:
        if sc["phase"] == "error":
            return "stopped"
        chk.violation(f"{fmt}: valid, distinct sequences {sc['srcs']} fail to build: {type(e).__name__}: {str(e)[:150]}", replay)
        return "failed"
    if sc["phase"] == "error":
        chk.violation(f"{fmt}: two sources with one glyph name built a font: {sc['names']}", replay)
        return "built"
    order = font.getGlyphOrder()
    cmap = font.getBestCmap()
    # skeleton
    if order[0] != ".notdef":
        chk.violation(f"{fmt}: glyph 0 is {order[0]}", replay)
    elif not OG.glyph_shape(font, ".notdef").contours:
        chk.violation(f"{fmt}: .notdef has no outline", replay)
    if 0x20 not in cmap or not is_blank(font, cmap[0x20]):
        chk.violation(f"{fmt}: U+0020 does not map to a blank glyph", replay)
    em = cfg.ascender - cfg.descender
    reached = {}
    oc = CC.oracle_cfg(cfg)
    for i, ((src, vb), cps) in enumerate(zip(srcs, seqs)):
        got = shaper.shape(font, cps)
        if got is None or len(got) != 1:
            chk.violation(f"{fmt}: sequence {['%x' % c for c in cps]} shapes to {got}, not to a single glyph", replay)
            continue
        g = got[0]
        if g in reached.values():
            chk.violation(f"{fmt}: two sources reach the same glyph {g}", replay)
        reached[i] = g
        # the glyph must carry THIS source's artwork
        drawn = drawn_bounds(font, fmt, g)
        if fmt in ("cbdt", "sbix"):
            if drawn is None or drawn[1] != src.png_bytes:
                chk.violation(f"{fmt}: glyph reached from {['%x' % c for c in cps]} does not carry its source's bitmap", replay)
            # a bitmap glyph's box is its pixel box (ColorGlyph.create: Rect(0, 0, *bitmap.size)): the PNG the harness
            # supplies is max(1, round(48 * w / h)) x 48 pixels
            pw = max(1, round(48 * vb[2] / vb[3]))
            want_adv = max(width, round(em * pw / 48))
        else:
            exp, adv, A = oracle_svg.expected_layers(src.svg_text if raw else build.to_picosvg(src.svg_text).tostring(), oc)
            ebs = [L.shape.bounds for L in exp]
            eb = (min(b[0] for b in ebs), min(b[1] for b in ebs), max(b[2] for b in ebs), max(b[3] for b in ebs))
            if drawn is None or any(abs(drawn[j] - eb[j]) > 3.0 for j in range(4)):
                chk.violation(f"{fmt}: glyph {g} reached from {['%x' % c for c in cps]} draws {drawn}, its source's artwork is at {eb}", replay)
            want_adv = adv
        if font["hmtx"][g][0] != want_adv:
            chk.violation(f"{fmt}: advance of {g} is {font['hmtx'][g][0]}, rule max(width, round(em*w/h)) gives {want_adv}", replay)
    # codepoints that occur only inside sequences: blank glyphs
    direct = {c[0] for c in seqs if len(c) == 1}
    for cp in {c for s in seqs for c in s} - direct:
        if cp not in cmap:
            chk.violation(f"{fmt}: U+{cp:04X} (only inside sequences) has no cmap entry", replay)
        elif not is_blank(font, cmap[cp]):
            chk.violation(f"{fmt}: U+{cp:04X} occurs only inside sequences but maps to the non-blank glyph {cmap[cp]}", replay,
                          finding_key=KF_NAME if sc.get("leak") else None)
    return "ok"


def _digest_name(joined):
    """the harness's own reading of the rule for long names: base32 of the SHA-1 of the joined name"""
    import base64
    import hashlib

    return base64.b32encode(hashlib.sha1(joined.encode("utf-8")).digest()).decode("ascii")


def _part(cp):
    ch = chr(cp)
    return ch if (ch.isascii() and ch.isalpha()) else "%x" % cp


def long_names(chk):
    """GlyphName.tla (the hashed branch of glyph_name) model-checked; every exported class (first character class x
    joined length 1..70 x digest class) is realised by a concrete codepoint sequence and replayed into the real
    function; sequences of real emoji codepoints from the hashed classes are then built into fonts and shaped."""
    from nanoemoji.glyph import glyph_name

    res = common.run_tlc("GlyphName", "GlyphName.cfg", timeout=600)
    chk.add_tlc(res, "GlyphName (exhaustive: first-character class x joined length 1..70 x digest class)")
    if not res.ok:
        chk.tlc_violation(res, "GlyphName")
    ok, line = common.run_tlapm("GlyphNameProof", ("GlyphName",))   # the same invariants for names of ANY length
    chk.notes["glyphname_proof"] = line
    if ok is False:
        raise MachineryError("GlyphNameProof.tla no longer proves: " + line)
    neg = common.run_tlc("GlyphName", "GlyphName_keepprefix.cfg", timeout=600, coverage=False)
    chk.add_tlc(neg, "GlyphName_keepprefix (prefix not re-decided on the digest: expected to violate ValidIdent)")
    if neg.ok:
        raise MachineryError("GlyphName_keepprefix.cfg holds: ValidIdent is vacuous")
    letters = [ord(c) for c in "ABCDEFGHIJKLMNOPQRSTUVWXYZ"]

    def realise(first, length, digest_first, salt):
        """codepoints whose joined name has this first-character class and exactly this length (and, if asked, a digest
        of the given class)"""
        for attempt in range(400):
            rr = common.rng("C04", "longname", first, length, salt, attempt)
            head = {"alpha": [0x41, 0xA9, 0xE000 + rr.randrange(64)], "digit": [0x5, 0x31, 0x200D, 0x1F600 + rr.randrange(64)]}[first]
            head = [c for c in head if len(_part(c)) <= length]
            if not head:
                return None
            cps = [rr.choice(head)]
            n = len(_part(cps[0]))
            while n < length:
                room = length - n - 1
                opts = [c for c in ([rr.choice(letters)] if room >= 1 else []) + ([0xA9, 0x31] if room >= 2 else []) + ([0x200D] if room >= 4 else []) + ([0x1F468 + rr.randrange(40)] if room >= 5 else [])
                        if len(_part(c)) <= room and (room - len(_part(c))) != 1]
                if not opts:
                    break
                c = rr.choice(opts)
                cps.append(c)
                n += 1 + len(_part(c))
            joined = "_".join(_part(c) for c in cps)
            if len(joined) != length:
                continue
            if digest_first is not None:
                d = _digest_name(joined)
                if (d[0].isalpha()) != (digest_first == "alpha"):
                    continue
            return tuple(cps)
        return None

    drift = 0
    for k, rec in enumerate(res.records):
        cps = realise(rec["in"]["first"], rec["in"]["len"], rec["first"] if rec["hashed"] else None, 0)
        if cps is None:
            chk.notes["longname_unrealised"] = chk.notes.get("longname_unrealised", 0) + 1
            continue
        joined = "_".join(_part(c) for c in cps)
        want = ("g_" if rec["prefix"] else "") + (_digest_name(joined) if rec["hashed"] else joined)
        real = glyph_name(cps)
        chk.case(key=("longname", rec["in"]["first"], rec["in"]["len"], rec["first"], rec["hashed"]), nontrivial=rec["hashed"])
        chk.traces_validated += 1
        if real != want:
            drift += 1
            ok = real[:1].isalpha() or real.startswith("g_")
            if not ok or len(real) > 63:
                chk.violation(f"glyph_name({['%x' % c for c in cps]}) = {real!r}: not a glyph name a feature file accepts "
                              f"(the model gives {want!r}); the source can never be reached", {"cps": list(cps), "name": real})
    chk.notes["longname_drift"] = drift
    # end to end: long sequences of emoji codepoints, both first-character classes, digests of both classes
    for k, fmt in enumerate(["glyf_colr_1", "picosvg", "cbdt"] if chk.tier == "quick" else FORMATS):
        seqs = []
        for j, (first, dfirst) in enumerate([("alpha", "digit"), ("alpha", "alpha"), ("digit", "digit"), ("digit", "alpha")] * 2):
            for attempt in range(200):
                rr = common.rng("C04", "longseq", k, j, attempt)
                head = rr.choice([0xE000 + rr.randrange(200), 0xA9, 0xFE0F] if first == "alpha" else [0x1F468, 0x1F469, 0x1F9D1])
                cps = [head]
                for _ in range(rr.randrange(11, 14)):
                    cps += [0x200D, rr.choice([0x1F466, 0x1F467, 0x1F468, 0x1F469, 0x1F48B, 0x2764, 0x1F91D])]
                joined = "_".join(_part(c) for c in cps)
                if len(joined) > 63 and (_digest_name(joined)[0].isalpha()) == (dfirst == "alpha") and cps not in seqs:
                    seqs.append(cps)
                    break
        sc = {"srcs": [["%x" % c for c in s] for s in seqs], "phase": "done", "names": []}
        build_and_check(chk, sc, fmt, k, k % 2 == 0, {"scenario": sc["srcs"], "family": "long-names"}, same_vb=(0, 0, 100, 100))
        chk.case(key=("longseq", fmt), nontrivial=True)
        chk.traces_validated += 1


def run(chk):
    quick = chk.tier == "quick"
    chk.rule = (
        "GlyphSet.tla over all sets of 1-2 sequences (length <=3; thorough <=4) on {A, g, U+00A9, ZWJ, VS16, U+1F600, "
        "U+1F3FB}; scenarios replayed into glyph.glyph_name / codepoints.from_filename / features.generate_fea and into "
        "real builds rotating through all 13 formats x keep_glyph_names x 5 viewBox aspect ratios x 3 widths; the "
        "independent shaper decides.  Non-trivial = a multi-codepoint sequence is involved; distinct by scenario x format."
    )
    res = common.run_tlc("GlyphSet", "GlyphSet_small.cfg", timeout=3000, coverage=False)
    chk.add_tlc(res, "GlyphSet_small (exhaustive)")
    if not res.ok:
        chk.tlc_violation(res, "GlyphSet")
    neg = common.run_tlc("GlyphSet", "GlyphSet_blanktwice.cfg", timeout=3000, coverage=False)
    chk.add_tlc(neg, "GlyphSet_blanktwice (a blank glyph listed once per occurrence: expected to violate GidIsFinal)")
    if neg.ok:
        raise MachineryError("GlyphSet_blanktwice.cfg holds: GidIsFinal is vacuous")
    recs = res.records
    if len(recs) < 1000:
        raise MachineryError("too few GlyphSet scenarios")
    chk.exhaustive = True
    leaks = [r for r in recs if r.get("leak")]
    errors = [r for r in recs if r["phase"] == "error"]
    chk.notes["model_leaks"] = len(leaks)
    chk.notes["model_name_collisions"] = len(errors)
    # B1 on the naming functions: every scenario
    from nanoemoji import codepoints, features
    from nanoemoji.glyph import glyph_name

    for n, sc in enumerate(recs):
        for nm in sc["names"]:
            cps = tuple(int(h, 16) for h in nm["seq"])
            real = glyph_name(cps)
            if real != nm["name"]:
                chk.notes["name_drift"] = chk.notes.get("name_drift", 0) + 1
            fn = "emoji_u" + "_".join("%x" % c for c in cps) + ".svg"
            if tuple(codepoints.from_filename(fn)) != cps:
                chk.violation(f"codepoints.from_filename({fn!r}) = {codepoints.from_filename(fn)}", {"file": fn})
        chk.case(key=("names", n), nontrivial=any(len(s) > 1 for s in sc["srcs"]))
    # real builds
    r = common.rng("C04")
    normal = [x for x in recs if x["phase"] == "done" and not x.get("leak")]
    r.shuffle(normal)
    r.shuffle(leaks)
    picks = normal[: (39 if quick else 1300)] + errors[: (3 if quick else 24)] + leaks[: (3 if quick else 60)]
    for k, sc in enumerate(picks):
        fmt = FORMATS[k % len(FORMATS)]
        keep = (k // len(FORMATS)) % 2 == 0
        if "svg" in fmt and "untouched" not in fmt:
            keep = keep  # picosvg forces names internally
        outcome = build_and_check(chk, sc, fmt, k, keep, {"scenario": sc["srcs"]})
        chk.case(key=(json.dumps(sc["srcs"]), fmt, keep), nontrivial=any(len(s) > 1 for s in sc["srcs"]))
        chk.traces_validated += 1
        if k < 2:
            chk.sample({"scenario": sc["srcs"], "names": sc["names"], "format": fmt})
    # sharing family: some sources share a shape (reuse on), some do not, in every input order: in OT-SVG formats the
    # glyphs of a sharing group are moved together and renumbered under the existing cmap / GSUB
    pool = ["1f600", "1f601", "1f602", "263a", "1f468", "1f469"]
    for k in range(26 if quick else 400):
        rr = common.rng("C04", "share", k)
        n = rr.randrange(3, 6)
        cps = rr.sample(pool, n)
        seqs = [[c] for c in cps[: n - 1]] + [[cps[0], "200d", cps[1]]]
        if k % 3 == 0:
            seqs.append([cps[1], "200d", cps[0], "fe0f"])
        rr.shuffle(seqs)
        share = set(rr.sample(range(len(seqs)), rr.randrange(2, len(seqs))))
        fmt = ["picosvg", "picosvgz", "picosvg", "glyf_colr_1", "untouchedsvg", "glyf_colr_0", "picosvg"][k % 7]
        sc = {"srcs": seqs, "phase": "done", "names": []}
        build_and_check(chk, sc, fmt, k, k % 2 == 0, {"scenario": seqs, "share": sorted(share)}, share=share, same_vb=(0, 0, 100, 100))
        chk.case(key=("share", k), nontrivial=True)
        chk.traces_validated += 1
    # qualified / unqualified twins: two sources whose sequences differ ONLY by U+FE0F (in the middle, at the end, twice),
    # in either input order and next to their own single codepoints; each must shape to its own glyph
    twins = [(["1f3f3", "fe0f", "200d", "1f308"], ["1f3f3", "200d", "1f308"]),
             (["1f468", "200d", "2764", "fe0f", "200d", "1f468"], ["1f468", "200d", "2764", "200d", "1f468"]),
             (["1f441", "fe0f", "200d", "1f5e8", "fe0f"], ["1f441", "200d", "1f5e8"]),
             (["1f469", "200d", "2708", "fe0f"], ["1f469", "200d", "2708"])]
    for k, (qual, unqual) in enumerate(twins if not quick else twins[:3]):
        for j, fmt in enumerate(["glyf_colr_1", "picosvg", "cbdt"] if not quick else [["glyf_colr_1", "picosvg", "glyf_colr_0"][k % 3]]):
            for order in (0, 1):
                seqs = [qual, unqual] if order == 0 else [unqual, qual]
                seqs = seqs + ([[qual[0]]] if (k + order) % 2 else [])
                sc = {"srcs": seqs, "phase": "done", "names": []}
                build_and_check(chk, sc, fmt, 1000 + 10 * k + order, order == 0, {"scenario": seqs, "family": "fe0f-twins"})
                chk.case(key=("fe0f-twins", k, fmt, order), nontrivial=True)
                chk.traces_validated += 1
    long_names(chk)
    chk.assumptions += ["artwork identity is decided by a source-unique rectangle (bounds within 3 units) / PNG bytes"]


def replay(path):
    print(open(path).read()[:8000])
    return 0
