"""Real CLI runs in scratch sandboxes: sources, invocations (with injected faults), snapshots."""
import hashlib
import json
import os
import shutil
import subprocess
import time
from pathlib import Path

from . import common

# VERIF_COV_SITE: an alternative sitecustomize directory (coverage measurement of worker processes, see tools/cov/run.sh)
SHIM = os.environ.get("VERIF_COV_SITE") or str(Path(__file__).resolve().parent / "shim")

SVG_A = '<svg xmlns="http://www.w3.org/2000/svg" viewBox="0 0 100 100"><rect x="10" y="10" width="40" height="30" fill="#FF0000"/><circle cx="60" cy="60" r="20" fill="blue" opacity="0.5"/></svg>\n'
SVG_B = '<svg xmlns="http://www.w3.org/2000/svg" viewBox="0 0 100 100"><rect x="30" y="40" width="40" height="30" fill="#00FF00"/><rect x="5" y="5" width="20" height="15" fill="#00FF00"/></svg>\n'
SVG_C = '<svg xmlns="http://www.w3.org/2000/svg" viewBox="0 0 100 100"><path d="M10,90 L50,10 L90,90 Z" fill="#112233"/></svg>\n'


def svg_variant(base, version):
    """Distinct, valid content per version (a different translucent corner mark)."""
    if version == 0:
        return base
    if "<!--vf-->" in base:
        # a master of a variable font: the edit must keep the structure the other masters have (same shapes, other numbers)
        return base.replace('width="40"', f'width="{40 + version}"')
    if version % 2 == 1:
        # an edit that touches no geometry: only the first fill colour changes (the normalised shapes, and with them the
        # part files and the glyph map, stay what they were - only the artwork's content differs)
        import re

        col = "#%02X40%02X" % ((0x20 * version) % 256, (255 - 0x20 * version) % 256)
        out, n = re.subn(r'fill="#[0-9A-Fa-f]{6}"', f'fill="{col}"', base, count=1)
        if n and out != base:
            return out
    mark = f'<rect x="{80 + version}" y="80" width="10" height="10" fill="#0000{version % 10}0"/></svg>'
    return base.replace("</svg>", mark)


def env_for(extra=None):
    e = dict(os.environ)
    src = str(common.repo_root() / "src")
    e["PYTHONPATH"] = os.pathsep.join([src, SHIM])
    e["PATH"] = "/venv/bin" + os.pathsep + e.get("PATH", "")
    e["NANOEMOJI_VERIF"] = "1"
    e.setdefault("SOURCE_DATE_EPOCH", "1600000000")
    e.setdefault("PYTHONHASHSEED", "0")
    for k in ("NEV_FAULT_MATCH", "NEV_FAULT_MODE", "NEV_FAULT_OUT", "NEV_DRIVER_KILL"):
        e.pop(k, None)
    e.update(extra or {})
    return e


class Sandbox:
    def __init__(self, root: Path):
        self.root = Path(root)
        self.src = self.root / "src"
        self.build = self.root / "build"
        self.src.mkdir(parents=True, exist_ok=True)

    # ---- world operations (real file operations)
    def write(self, rel, text, mtime_ns=None):
        p = self.root / rel
        p.parent.mkdir(parents=True, exist_ok=True)
        p.write_text(text)
        if mtime_ns is not None:
            os.utime(p, ns=(mtime_ns, mtime_ns))
        return p

    def remove(self, rel):
        (self.root / rel).unlink()

    def rename(self, a, b):
        os.rename(self.root / a, self.root / b)  # keeps mtime, like mv

    def tick(self):
        time.sleep(0.03)  # keep successive writes in distinct filesystem timestamp ticks

    # ---- invocations
    def run(self, args, env=None, cwd=None, timeout=600, tool="nanoemoji"):
        cmd = [tool, "--build_dir", str(self.build)] + list(args)
        p = subprocess.run(
            cmd, cwd=str(cwd or self.root), env=env_for(env), stdout=subprocess.PIPE, stderr=subprocess.STDOUT,
            text=True, errors="replace", timeout=timeout,
        )
        return p.returncode, p.stdout

    def ninja(self, args, env=None):
        p = subprocess.run(
            ["ninja", "-C", str(self.build)] + list(args), env=env_for(env), stdout=subprocess.PIPE,
            stderr=subprocess.STDOUT, text=True, errors="replace",
        )
        return p.returncode, p.stdout

    # ---- observation
    def snapshot(self, with_hash=True):
        out = {}
        for base in (self.build, self.src):
            if not base.exists():
                continue
            for p in sorted(base.rglob("*")):
                if p.is_file():
                    st = p.stat()
                    rel = os.path.relpath(p, self.build)
                    out[rel] = {"m": st.st_mtime_ns}
                    if with_hash:
                        out[rel]["h"] = hashlib.sha256(p.read_bytes()).hexdigest()[:16]
        return out

    def ninja_log(self):
        """{output: (mtime_ns recorded, command hash)} - last entry wins."""
        p = self.build / ".ninja_log"
        out = {}
        if p.exists():
            for line in p.read_text().splitlines():
                if line.startswith("#"):
                    continue
                parts = line.split("\t")
                if len(parts) == 5:
                    out[parts[3]] = (int(parts[2]), parts[4])
        return out

    def sha(self, rel):
        p = self.build / rel
        return hashlib.sha256(p.read_bytes()).hexdigest() if p.exists() else None
