"""C18: a variable colour font reproduces each master at its location; the clip box in force contains the interpolated
geometry on every axis.

VarFont.tla (LoadConfig / BuildMaster per master in any order / Assemble / Merge + the renderer's reading of regions and
deltas, exact rationals) is model-checked for MasterExact, DefaultExact, AxisRange, NoDefaultNoFont, IncompatibleRefused,
ClipContainsOnAxis (reuse off) / EscapeOnlyIfBilinear (reuse on) and termination.  Every exported scenario is replayed
on the real CLI: the variable font is evaluated at each master's location and along each axis by an independent
evaluator (harness/varfont.py) and compared with real static builds of each master alone, with the model's predicted
numbers and with its clip box.  Random continuous master sets (curves, gradients, opacity, 2-3 masters, 1-2 axes)
go through the same comparison."""
import concurrent.futures as cf
import io
import json
import math
import shutil
from fractions import Fraction
from pathlib import Path

from . import common, oracle_cmp, oracle_colr, oracle_geom as OG, oracle_grad as G, scenarios as S, varfont, vfbuild
from .common import MachineryError

KF_KEY = "variable-transform-over-variable-outline"
OPTS = {"upem": 1000, "ascender": 800, "descender": -200, "width": 0, "color_format": '"glyf_colr_1"', "keep_glyph_names": "true"}
KIND_OF = {"PaintGlyph": "outline", "PaintTranslate": "translate", "PaintTransform": "affine",
           "PaintScaleUniformAroundCenter": "center", "PaintScaleAroundCenter": "center",
           "PaintScale": "scale", "PaintScaleUniform": "scale"}
GLYPH = "e000"
POOL = 12


# ----------------------------------------------------------------------------------------------- model scenarios
def square_svg(a, b, adv):
    def sq(lo, hi, col):
        return f'<path d="M{lo},{lo} L{hi},{lo} L{hi},{hi} L{lo},{hi} Z" fill="{col}"/>'
    return (f'<svg xmlns="http://www.w3.org/2000/svg" viewBox="0 0 {adv} 1000">' + sq(a[0], a[1], "#E53935")
            + sq(b[0], b[1], "#3949AB") + "</svg>\n")


def options_for(reuse, q):
    o = dict(OPTS)
    o["clipbox_quantization"] = q
    if not reuse:
        o["reuse_tolerance"] = -1
    return o


def masters_of(rec):
    # the layout "frac" stands for fractional axis coordinates: the model's integers are halved when written to the TOML
    k = 0.5 if rec["layout"] == "frac" else 1
    axes = [(a["tag"], a["name"], a["def"] * k) for a in rec["axes"]]
    masters = [(f"m{i + 1}", f"M{i + 1}", {t: v * k for t, v in m["pos"].items()}) for i, m in enumerate(rec["masters"])]
    return axes, masters


class Builds:
    """Real builds in a scratch directory, static master builds cached by content."""

    def __init__(self, root):
        import itertools
        import threading

        self.root = Path(root)
        self.counter = itertools.count()
        self.static_cache = {}
        self.vf_cache = {}
        self.lock = threading.Lock()

    def fresh(self, tag):
        return self.root / f"{tag}{next(self.counter)}"

    def static(self, axes, master, files, options):
        key = json.dumps([sorted(files.items()), sorted(options.items())], sort_keys=True)
        if key not in self.static_cache:
            d = self.fresh("st")
            rc, out, data = vfbuild.build_static(d, axes, master, files, options)
            shutil.rmtree(d, ignore_errors=True)
            self.static_cache[key] = (rc, out[-1500:], data)
        return self.static_cache[key]

    def vf(self, axes, masters, sources, options):
        key = json.dumps([axes, masters, sources, sorted(options.items())], sort_keys=True)
        if key not in self.vf_cache:
            d = self.fresh("vf")
            rc, out, data = vfbuild.build_vf(d, axes, masters, sources, options)
            shutil.rmtree(d, ignore_errors=True)
            self.vf_cache[key] = (rc, out[-2500:], data)
        return self.vf_cache[key]

    def warm(self, axes, masters, sources, options):
        """(thread pool) run the builds a scenario needs; verdicts are computed later, sequentially, from the caches"""
        self.vf(axes, masters, sources, options)
        for m in masters:
            self.static(axes, m, sources[m[0]], options)


def user_loc(font, norm):
    """normalised {tag: Fraction} -> user-space location from the font's fvar."""
    out = {}
    for a in font["fvar"].axes:
        n = norm.get(a.axisTag, Fraction(0))
        d = Fraction(a.defaultValue)
        out[a.axisTag] = float(d + n * (Fraction(a.maxValue) - d) if n >= 0 else d + n * (d - Fraction(a.minValue)))
    return out


def layer_boxes(font, glyph=GLYPH):
    out = []
    for L in oracle_cmp.colr_layers(font, glyph):
        b = None
        for s in L.shapes:
            if s.bounds is None:
                continue
            b = s.bounds if b is None else (max(b[0], s.bounds[0]), max(b[1], s.bounds[1]), min(b[2], s.bounds[2]), min(b[3], s.bounds[3]))
        out.append(b)
    return out


def second_layer_kind(font, glyph=GLYPH):
    colr = font["COLR"].table
    rec = [r for r in colr.BaseGlyphList.BaseGlyphPaintRecord if r.BaseGlyph == glyph][0]
    p = rec.Paint
    layers = [p] if p.Format != 1 else colr.LayerList.Paint[p.FirstLayerIndex: p.FirstLayerIndex + p.NumLayers]
    if len(layers) < 2:
        return "none"
    name = layers[1].getFormatName().replace("PaintVar", "Paint")
    return KIND_OF.get(name, name)


class _E:
    """static layer as 'expected' for oracle_cmp.compare"""

    def __init__(self, P):
        self.shape, self.fill, self.groups = P.shapes[0], P.fill, P.groups


def same_as_static(inst, static, glyphs, ctx, curves=False, q=1):
    """The instance must be the static build: advance, clip box, layers (count, placement, fill).  Outlines may differ by
    the curve-conversion error: a variable build converts cubics to quadratics jointly for all masters, a static build
    alone, each within ufo2ft's 0.001 em of the true curve."""
    problems = []
    if "COLR" not in inst or "COLR" not in static:
        if ("COLR" in inst) != ("COLR" in static):
            problems.append(f"{ctx}COLR table present in {'the variable font' if 'COLR' in inst else 'the static build'} only")
        return problems
    tol = 1.6 + (0.002 * inst["head"].unitsPerEm if curves else 0.0)
    for g in glyphs:
        if inst["hmtx"][g][0] != static["hmtx"][g][0]:
            problems.append(f"{ctx}{g}: advance {inst['hmtx'][g][0]} != static {static['hmtx'][g][0]}")
        ci, cs = varfont.clip_box(inst, g), varfont.clip_box(static, g)
        if (ci is None) != (cs is None) or (ci and max(abs(x - y) for x, y in zip(ci, cs)) > 1 + ((tol - 1.6) + q if curves else 0)):   # a sub-unit outline difference can move a quantised edge by one step
            problems.append(f"{ctx}{g}: clip box {ci} != static {cs}")
        li, ls = oracle_cmp.colr_layers(inst, g), oracle_cmp.colr_layers(static, g)
        if len(li) != len(ls):
            problems.append(f"{ctx}{g}: {len(li)} layers != static {len(ls)}")
            continue
        for k, (a, b) in enumerate(zip(li, ls)):
            ba, bb = (a.shapes[0].bounds if a.shapes else None), (b.shapes[0].bounds if b.shapes else None)
            if (ba is None) != (bb is None) or (ba and max(abs(x - y) for x, y in zip(ba, bb)) > tol):
                problems.append(f"{ctx}{g} layer {k}: placed at {_r(ba)} != static {_r(bb)}")
        if not problems and all(len(b.shapes) == 1 for b in ls):
            problems += oracle_cmp.compare([_E(b) for b in ls], li, tol, grid=14, ctx=f"{ctx}{g}: ")
    return problems


def _r(b):
    return None if b is None else tuple(round(x, 1) for x in b)


def var_scale_over_var_outline(vf_font, glyph, layer_index):
    """Is layer `layer_index` of `glyph` painted through a variable scaling transform over a glyph whose outline (or
    the transform's centre/translation) varies too?  (classification of the known finding, read from the font)"""
    colr = vf_font["COLR"].table
    rec = [r for r in colr.BaseGlyphList.BaseGlyphPaintRecord if r.BaseGlyph == glyph][0]
    p = rec.Paint
    layers = [p] if p.Format != 1 else colr.LayerList.Paint[p.FirstLayerIndex: p.FirstLayerIndex + p.NumLayers]
    if layer_index >= len(layers):
        return False
    p = layers[layer_index]
    var_scale = False
    while p is not None and p.getFormatName() != "PaintGlyph":
        if p.Format in (13, 17, 19, 21, 23):   # PaintVarTransform / PaintVarScale*
            var_scale = True
        p = getattr(p, "Paint", None)
    if p is None or not var_scale:
        return False
    return True


def scenario_inputs(rec):
    axes, masters = masters_of(rec)
    options = options_for(rec["reuse"], rec["q"])
    sources = {m[0]: {"e000.svg": square_svg(x["a"], x["b"], x["adv"])} for m, x in zip(masters, rec["masters"])}
    return axes, masters, sources, options


def check_scenario(chk, B, rec, tag):
    """Replay one exported model scenario on the real CLI."""
    axes, masters, sources, options = scenario_inputs(rec)
    ctx = f"{tag} {rec['layout']} reuse={rec['reuse']} " + "/".join(f"{x['a']}{x['b']}" for x in rec["masters"]) + ": "
    rp = {"scenario": rec, "options": options}
    rc, log, data = B.vf(axes, masters, sources, options)
    if rec["outcome"] == "config-error":
        chk.case(key=("cfgerr", rec["layout"]), nontrivial=True)
        if rc == 0 and data is not None:
            chk.violation(ctx + "a configuration without a master at the axis defaults produced a font", rp)
        return "config-error"
    statics = []
    for m, x in zip(masters, rec["masters"]):
        src, slog, sdata = B.static(axes, m, sources[m[0]], options)
        if src != 0 or sdata is None:
            raise MachineryError(f"static build of a master failed: {slog[-600:]}")
        statics.append(common_font(sdata))
    real_kinds = [second_layer_kind(f) for f in statics]
    model_kinds = [x["kind"] for x in rec["masters"]]
    drift = real_kinds != model_kinds
    if drift:
        chk.drift.append(ctx + f"paint kinds {real_kinds} (model {model_kinds})")
    if rc != 0 or data is None:
        if rec["outcome"] == "merge-error" or len(set(real_kinds)) > 1:
            chk.case(key=("refused", tuple(real_kinds)), nontrivial=True)
            return "refused"
        chk.unexpected_failures.append(ctx + log[-400:])
        chk.case()
        return "failed"
    if rec["outcome"] == "merge-error" and len(set(real_kinds)) > 1:
        # the model (ufo2ft's merger) refuses masters with different paint structures
        chk.drift.append(ctx + f"masters with paint kinds {real_kinds} were merged")
    # ---- C18a on the real font
    vf_font = common_font(data)
    bad = False
    for m, st in zip(masters, statics):
        inst, _ = varfont.instantiate(data, m[2], rounded=True)
        probs = same_as_static(inst, st, [GLYPH], ctx + f"at {m[2]}: ")
        for p in probs[:3]:
            bad = True
            chk.violation(p, dict(rp, master=m[0]))
    d_inst, _ = varfont.instantiate(data, {}, rounded=True)
    dm = rec["default"] - 1
    for p in same_as_static(d_inst, statics[dm], [GLYPH], ctx + "at the default location: ")[:2]:
        bad = True
        chk.violation(p, dict(rp, master="default"))
    # ---- along the axes: the model's numbers, and containment
    agree = True
    for smp in rec["samples"]:
        norm = {t: Fraction(v[0], v[1]) for t, v in smp["loc"].items()}
        inst, _ = varfont.instantiate(data, user_loc(vf_font, norm), rounded=False)
        boxes = layer_boxes(inst)
        clip = varfont.clip_box(inst, GLYPH)
        adv = inst["hmtx"][GLYPH][0]
        if not drift and len(boxes) == 2 and clip is not None:
            want = {k: smp[k][0] / smp[k][1] for k in ("alo", "ahi", "blo", "bhi", "clo", "chi", "adv")}
            got = {"alo": boxes[0][0], "ahi": boxes[0][2], "blo": boxes[1][0], "bhi": boxes[1][2], "clo": clip[0], "chi": clip[2], "adv": adv}
            off = {k: (round(got[k], 2), want[k]) for k in want if abs(got[k] - want[k]) > 1.01}
            if off:
                agree = False
                chk.drift.append(ctx + f"at {smp['loc']}: real (got, model) {off}")
        escapes = containment(boxes, clip)
        for li, edge, amount in escapes:
            if var_scale_over_var_outline(vf_font, GLYPH, li):
                chk.violation(ctx + f"layer {li} leaves the clip box by {amount:.1f} units ({edge}) at {smp['loc']}",
                              dict(rp, loc=smp["loc"]), finding_key=KF_KEY)
                chk.kf_seen += 1
            else:
                bad = True
                chk.violation(ctx + f"layer {li} leaves the clip box by {amount:.1f} units ({edge}) at {smp['loc']}", dict(rp, loc=smp["loc"]))
        if not smp["inside"] and not drift and not escapes:
            chk.drift.append(ctx + f"model predicts an escape at {smp['loc']}, the real font contains the geometry")
    chk.case(key=(rec["layout"], rec["reuse"], tuple(real_kinds), tuple(json.dumps(x["a"] + x["b"]) for x in rec["masters"])),
             nontrivial=len({json.dumps([x["a"], x["b"], x["adv"]]) for x in rec["masters"]}) > 1)
    chk.traces_validated += 1
    chk.model_agree += 1 if (agree and not drift) else 0
    return "font"


def containment(boxes, clip, tol=1.0):
    out = []
    if clip is None:
        return out
    for i, b in enumerate(boxes):
        if b is None:
            continue
        for edge, amount in (("xMin", clip[0] - b[0]), ("yMin", clip[1] - b[1]), ("xMax", b[2] - clip[2]), ("yMax", b[3] - clip[3])):
            if amount > tol:
                out.append((i, edge, amount))
    return out


def common_font(data):
    from fontTools.ttLib import TTFont

    return TTFont(io.BytesIO(data), lazy=False)


# ----------------------------------------------------------------------------------------------- random master sets
def random_master_set(r):
    """-> (axes, masters, sources per master, options, glyph names).  Structure (classes, fills, opacity, order) is
    shared; every master places every shape by its own affine."""
    n_masters = r.choice([2, 2, 3])
    two_axes = n_masters == 3 and r.random() < 0.4
    if two_axes:
        axes = [("wght", "Weight", 400), ("wdth", "Width", 100)]
        masters = [("m1", "R", {"wght": 400, "wdth": 100}), ("m2", "B", {"wght": 900, "wdth": 100}), ("m3", "C", {"wght": 400, "wdth": 50})]
    elif n_masters == 2:
        lo, hi = r.choice([(100, 900), (300, 700), (0, 1)])
        d = r.choice([lo, hi])
        axes = [("wght", "Weight", d)]
        masters = [("m1", "A", {"wght": lo}), ("m2", "B", {"wght": hi})]
        if r.random() < 0.5:
            masters.reverse()
    else:
        pos = r.choice([(100, 400, 900), (300, 500, 700), (100, 300, 900)])
        d = r.choice(pos)
        axes = [("wght", "Weight", d)]
        masters = [(f"m{i + 1}", f"S{i + 1}", {"wght": p}) for i, p in enumerate(pos)]
        r.shuffle(masters)
    upem = r.choice([1000, 1024, 2048])
    asc = int(upem * r.choice([0.8, 0.9, 0.95]))
    desc = -int(upem * r.choice([0.2, 0.25, 0.1]))
    options = {"upem": upem, "ascender": asc, "descender": desc, "color_format": '"glyf_colr_1"',
               "width": r.choice([0, upem, int(upem * 1.2)]), "reuse_tolerance": -1, "keep_glyph_names": "true"}
    q = r.choice([None, 1, 7, 50])
    if q is not None:
        options["clipbox_quantization"] = q
    n_glyphs = r.choice([1, 2])
    names = [f"e{0x100 + k:03x}" for k in range(n_glyphs)]
    sources = {m[0]: {} for m in masters}
    for g in names:
        vbs = {m[0]: (0, 0, r.choice([100, 100, 120, 80]), 100) for m in masters} if r.random() < 0.4 else {m[0]: (0, 0, 100, 100) for m in masters}
        n_layers = r.randrange(1, 4)
        specs = []
        for _ in range(n_layers):
            cls = r.choice(["F", "T", "sq", "bar", "poly", "blob", "ellipse", "ring"])
            fill = S.random_fill(r, allow_gradients=True, allow_special=False)
            if fill.kind == "solid":
                fill.index = None
            op = r.choice([1.0, 1.0, 0.5])
            base = S.random_affine(r, 100.0)
            specs.append((cls, fill, op, base))
        for m in masters:
            layers = []
            for cls, fill, op, base in specs:
                pert = (r.uniform(0.7, 1.3), 0, 0, r.uniform(0.7, 1.3), r.uniform(-10, 10), r.uniform(-10, 10))
                place = G.mul(pert, base)
                # keep the artwork inside the viewBox (an empty glyph is not a colour glyph at all)
                bx, by, bw, bh = S.bbox_of(cls, place)
                vb = vbs[m[0]]
                k_fit = min(1.0, 0.8 * vb[2] / max(bw, 1e-6), 0.8 * vb[3] / max(bh, 1e-6))
                place = (place[0] * k_fit, place[1] * k_fit, place[2] * k_fit, place[3] * k_fit, place[4], place[5])
                bx, by, bw, bh = S.bbox_of(cls, place)
                dx = max(vb[0] + 3 - bx, 0) + min(vb[0] + vb[2] - 3 - (bx + bw), 0)
                dy = max(vb[1] + 3 - by, 0) + min(vb[1] + vb[3] - 3 - (by + bh), 0)
                place = (place[0], place[1], place[2], place[3], place[4] + dx, place[5] + dy)
                layers.append(S.LayerSpec(cls, place, fill, op))
            sources[m[0]][g + ".svg"] = S.svg_document(layers, vbs[m[0]])
    return axes, masters, sources, options, names


def edge_to_edge_sets():
    """Masters whose artwork reaches all four edges of the viewBox in one master and is inset in another, with the
    DEFAULT metrics and quantisation (the quantised clip box then lies strictly outside the viewBox on every side)."""
    def svg(lo, hi):
        return (f'<svg xmlns="http://www.w3.org/2000/svg" viewBox="0 0 100 100"><path d="M{lo},{lo} L{hi},{lo} L{hi},{hi} L{lo},{hi} Z" fill="#1E88E5"/>'
                f'<path d="M40,45 L60,45 L50,60 Z" fill="#FDD835"/></svg>\n')
    out = []
    for default in (300, 700):
        axes = [("wght", "Weight", default)]
        masters = [("thin", "Thin", {"wght": 300}), ("bold", "Bold", {"wght": 700})]
        sources = {"thin": {"e200.svg": svg(30, 70)}, "bold": {"e200.svg": svg(0, 100)}}
        out.append((axes, masters, sources, {"color_format": '"glyf_colr_1"', "keep_glyph_names": "true", "reuse_tolerance": -1}, ["e200"]))
    return out


def coinciding_box_sets():
    """Several colour glyphs whose clip boxes coincide in one master and differ in another (COLR clip lists share one box
    between glyphs with equal boxes, separately in every master), with and without explicit quantisation."""
    def svg(x0, y0, x1, y1, tri):
        body = (f'<path d="M{x0},{y0} L{x1},{y0} L{x0},{y1} Z" fill="#E53935"/>' if tri else
                f'<path d="M{x0},{y0} L{x1},{y0} L{x1},{y1} L{x0},{y1} Z" fill="#1E88E5"/>')
        return f'<svg xmlns="http://www.w3.org/2000/svg" viewBox="0 0 100 100">{body}<path d="M{x0 + 5},{y0 + 5} L{x0 + 12},{y0 + 5} L{x0 + 5},{y0 + 12} Z" fill="#FDD835"/></svg>\n'
    out = []
    for k, (default, q) in enumerate([(300, None), (700, 1), (300, 50)]):
        axes = [("wght", "Weight", default)]
        masters = [("thin", "Thin", {"wght": 300}), ("bold", "Bold", {"wght": 700})]
        if k % 2:
            masters.reverse()
        sources = {
            # thin: a and b cover the same box, c another; bold: a has grown, b and c now coincide
            "thin": {"e300.svg": svg(20, 30, 60, 70, False), "e301.svg": svg(20, 30, 60, 70, True), "e302.svg": svg(10, 10, 40, 50, False)},
            "bold": {"e300.svg": svg(5, 10, 90, 95, False), "e301.svg": svg(10, 10, 40, 50, True), "e302.svg": svg(10, 10, 40, 50, False)},
        }
        options = {"color_format": '"glyf_colr_1"', "keep_glyph_names": "true", "reuse_tolerance": -1}
        if q is not None:
            options["clipbox_quantization"] = q
        out.append((axes, masters, sources, options, ["e300", "e301", "e302"]))
    return out


def check_random(chk, B, k, given=None):
    r = common.rng("C18", "random", k)
    axes, masters, sources, options, names = given if given is not None else random_master_set(r)
    r = common.rng("C18", "random-eval", k)
    ctx = f"random {k}: " if given is None else (f"edge-to-edge {k}: " if k < 2000 else f"coinciding boxes {k}: ")
    rp = {"axes": axes, "masters": masters, "options": options, "sources": sources}
    rc, log, data = B.vf(axes, masters, sources, options)
    if rc != 0 or data is None:
        chk.incompatible += 1
        chk.case()
        chk.notes.setdefault("random_build_failures", []).append(log.strip().splitlines()[-1][:160] if log.strip() else "")
        return
    vf_font = common_font(data)
    for m in masters:
        src, slog, sdata = B.static(axes, m, sources[m[0]], options)
        if src != 0 or sdata is None:
            raise MachineryError(f"static build of a random master failed: {slog[-600:]}")
        st = common_font(sdata)
        inst, _ = varfont.instantiate(data, m[2], rounded=True)
        q = options.get("clipbox_quantization") or round(0.02 * options.get("upem", 1024))
        for p in same_as_static(inst, st, names, ctx + f"at {m[2]}: ", curves=True, q=q)[:3]:
            chk.violation(p, dict(rp, master=m[0]))
    # containment along every axis
    for a in vf_font["fvar"].axes:
        for t in [r.uniform(a.minValue, a.maxValue) for _ in range(3)] + [(a.minValue + a.maxValue) / 2]:
            inst, _ = varfont.instantiate(data, {a.axisTag: t}, rounded=False)
            for g in names:
                for li, edge, amount in containment(layer_boxes(inst, g), varfont.clip_box(inst, g), tol=1.5):
                    chk.violation(ctx + f"{g} layer {li} leaves the clip box by {amount:.1f} units ({edge}) at {a.axisTag}={t:.1f}",
                                  dict(rp, loc={a.axisTag: t}))
    chk.traces_validated += 1
    chk.case(key=("random", k), nontrivial=True)


# ----------------------------------------------------------------------------------------------- main
def pick(recs, n, r):
    """A covering sample: every (layout, outcome, kinds, escapes?) class first, then random."""
    classes = {}
    for rec in recs:
        esc = any(not s["inside"] for s in rec["samples"])
        key = (rec["layout"], rec["outcome"], tuple(sorted({m["kind"] for m in rec["masters"]})), esc)
        classes.setdefault(key, []).append(rec)
    out = []
    keys = sorted(classes, key=str)
    r.shuffle(keys)
    for key in keys:
        out.append(r.choice(classes[key]))
    rest = [x for x in recs if x not in out and x["outcome"] == "font"]
    r.shuffle(rest)
    out = out[:n] if len(out) > n else out + rest[: n - len(out)]
    return out


def run(chk):
    quick = chk.tier == "quick"
    chk.rule = (
        "VarFont.tla over 9 layouts (1-2 axes, 2-3 masters, default first/last/middle/absent, intermediate masters) x 7 "
        "sources per master (translated / scaled copies, grown donors, wider advance) with reuse on and off, model-checked "
        "exhaustively; exported scenarios rebuilt by the real CLI (variable font + each master alone) and evaluated at "
        "every master location and at quarter steps along every axis.  Non-trivial = masters differ; distinct by "
        "(layout, reuse, paint kinds, master sources)."
    )
    chk.drift, chk.unexpected_failures, chk.kf_seen, chk.model_agree, chk.incompatible = [], [], 0, 0, 0
    recs = {}
    for cfg, label in (("VarFont_noreuse.cfg", "reuse off: all invariants incl. ClipContainsOnAxis"),
                       ("VarFont_reuse.cfg", "reuse on: all invariants, EscapeOnlyIfBilinear")):
        res = common.run_tlc("VarFont", cfg, timeout=1800)
        chk.add_tlc(res, f"{cfg} ({label})")
        if not res.ok:
            chk.tlc_violation(res, cfg)
        if res.vacuous_actions():
            raise MachineryError(f"vacuous: {res.vacuous_actions()}")
        recs[cfg] = res.records
        if len(res.records) < 500:
            raise MachineryError(f"{cfg}: too few exported scenarios ({len(res.records)})")
    res = common.run_tlc("VarFont", "VarFont_live.cfg", timeout=900, coverage=False)
    chk.add_tlc(res, "VarFont_live.cfg (termination under weak fairness)")
    if not res.ok:
        chk.tlc_violation(res, "VarFont_live")
    # the known finding, at the design level: with reuse on, full containment must FAIL in the model
    res = common.run_tlc("VarFont", "VarFont_finding.cfg", timeout=900, coverage=False)
    chk.add_tlc(res, "VarFont_finding.cfg (reuse on, ClipContainsOnAxis: expected to be violated)")
    if res.ok:
        chk.notes["finding_model"] = "ClipContainsOnAxis holds with reuse on: the model no longer exhibits the known finding"
    elif res.violated != "ClipContainsOnAxis":
        chk.tlc_violation(res, "VarFont_finding")
    chk.exhaustive = True

    r = common.rng("C18", "pick")
    n_reuse, n_plain, n_random = (56, 20, 24) if quick else (10 ** 6, 10 ** 6, 300)
    todo = [("reuse", x) for x in pick(recs["VarFont_reuse.cfg"], n_reuse, r)] + \
           [("plain", x) for x in pick(recs["VarFont_noreuse.cfg"], n_plain, r)]
    chk.sample({k: v for k, v in todo[0][1].items() if k != "samples"})
    outcomes = {}
    with common.scratch("c18-") as work:
        B = Builds(work)
        # builds are subprocesses: run scenarios on a thread pool; verdict bookkeeping is append-only
        with cf.ThreadPoolExecutor(POOL) as ex:
            futs = [ex.submit(B.warm, *scenario_inputs(rec)) for tag, rec in todo]
            futs += [ex.submit(B.warm, *random_master_set(common.rng("C18", "random", k))[:4]) for k in range(n_random)]
            for f in futs:
                f.result()
        for tag, rec in todo:
            o = check_scenario(chk, B, rec, tag)
            outcomes[o] = outcomes.get(o, 0) + 1
        for k in range(n_random):
            check_random(chk, B, k)
        for k, given in enumerate(edge_to_edge_sets()):
            check_random(chk, B, 1000 + k, given=given)
        for k, given in enumerate(coinciding_box_sets()):
            check_random(chk, B, 2000 + k, given=given)
    chk.notes["scenario_outcomes"] = outcomes
    chk.notes["model_numbers_agree"] = f"{chk.model_agree} of {outcomes.get('font', 0)} built scenarios agree with the model at every sampled location (|diff| <= 1 unit)"
    chk.notes["random_incompatible_or_failed"] = chk.incompatible
    if chk.drift:
        chk.notes["MODEL-DRIFT"] = chk.drift[:12] + ([f"... {len(chk.drift)} in all"] if len(chk.drift) > 12 else [])
        print(f"MODEL-DRIFT: {len(chk.drift)} scenario observations differ from VarFont.tla (first: {chk.drift[0][:200]})")
    if chk.unexpected_failures:
        chk.notes["unexpected_build_failures"] = chk.unexpected_failures[:6]
        if len(chk.unexpected_failures) > 0.5 * max(1, outcomes.get("font", 0) + len(chk.unexpected_failures)):
            raise MachineryError(f"most compatible scenarios failed to build: {chk.unexpected_failures[0][-300:]}")
    if outcomes.get("font", 0) < 20:
        raise MachineryError(f"too few scenarios built a font: {outcomes}")
    if chk.kf_seen == 0:
        chk.notes["known_finding"] = "not reproduced in this run"
    chk.assumptions += ["variable font evaluated by harness/varfont.py (OpenType variation semantics, independent of fontTools.varLib.instancer)",
                        "model geometry is one-dimensional (x); y is covered by the real-font comparisons only"]


def replay(path):
    print(open(path).read()[:8000])
    return 0
