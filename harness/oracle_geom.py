"""Geometry for the layer oracle: flatten outlines (font glyphs through fontTools pens, SVG path data through
picosvg's path parser - both dependencies, not code under test) to polygons; non-zero winding point tests; bounds."""
import math

from . import oracle_grad as G


def _flatten_cubic(p0, p1, p2, p3, out, n=12):
    for i in range(1, n + 1):
        t = i / n
        mt = 1 - t
        x = mt * mt * mt * p0[0] + 3 * mt * mt * t * p1[0] + 3 * mt * t * t * p2[0] + t * t * t * p3[0]
        y = mt * mt * mt * p0[1] + 3 * mt * mt * t * p1[1] + 3 * mt * t * t * p2[1] + t * t * t * p3[1]
        out.append((x, y))


def _flatten_quad(p0, p1, p2, out, n=10):
    for i in range(1, n + 1):
        t = i / n
        mt = 1 - t
        out.append((mt * mt * p0[0] + 2 * mt * t * p1[0] + t * t * p2[0],
                    mt * mt * p0[1] + 2 * mt * t * p1[1] + t * t * p2[1]))


class Shape:
    """A set of closed polygons (flattened contours) with non-zero winding fill."""

    def __init__(self, contours):
        self.contours = [c for c in contours if len(c) >= 3]
        xs = [p[0] for c in self.contours for p in c]
        ys = [p[1] for c in self.contours for p in c]
        self.bounds = (min(xs), min(ys), max(xs), max(ys)) if xs else None

    def transformed(self, m):
        return Shape([[G.mapp(m, p) for p in c] for c in self.contours])

    def winding(self, p):
        x, y = p
        w = 0
        for c in self.contours:
            n = len(c)
            for i in range(n):
                x0, y0 = c[i]
                x1, y1 = c[(i + 1) % n]
                if y0 <= y:
                    if y1 > y and (x1 - x0) * (y - y0) - (x - x0) * (y1 - y0) > 0:
                        w += 1
                elif y1 <= y and (x1 - x0) * (y - y0) - (x - x0) * (y1 - y0) < 0:
                    w -= 1
        return w

    def inside(self, p):
        if self.bounds is None:
            return False
        b = self.bounds
        if p[0] < b[0] or p[0] > b[2] or p[1] < b[1] or p[1] > b[3]:
            return False
        return self.winding(p) != 0

    def dist_to_edge(self, p):
        best = float("inf")
        x, y = p
        for c in self.contours:
            n = len(c)
            for i in range(n):
                x0, y0 = c[i]
                x1, y1 = c[(i + 1) % n]
                dx, dy = x1 - x0, y1 - y0
                L = dx * dx + dy * dy
                t = 0.0 if L == 0 else max(0.0, min(1.0, ((x - x0) * dx + (y - y0) * dy) / L))
                d = math.hypot(x - (x0 + t * dx), y - (y0 + t * dy))
                if d < best:
                    best = d
        return best

    def area(self):
        a = 0.0
        for c in self.contours:
            n = len(c)
            for i in range(n):
                a += c[i][0] * c[(i + 1) % n][1] - c[(i + 1) % n][0] * c[i][1]
        return abs(a) / 2


class _FlattenPen:
    """Segment pen protocol (moveTo/lineTo/curveTo/qCurveTo/closePath/endPath) collecting flattened contours."""

    def __init__(self):
        self.contours = []
        self.cur = None

    def moveTo(self, p):
        self.cur = [tuple(p)]

    def lineTo(self, p):
        self.cur.append(tuple(p))

    def curveTo(self, *pts):
        if len(pts) == 3:
            _flatten_cubic(self.cur[-1], pts[0], pts[1], pts[2], self.cur)
        else:  # fontTools may pass longer cubic splines
            from fontTools.pens.basePen import decomposeSuperBezierSegment

            for a, b, c in decomposeSuperBezierSegment(pts):
                _flatten_cubic(self.cur[-1], a, b, c, self.cur)

    def qCurveTo(self, *pts):
        from fontTools.pens.basePen import decomposeQuadraticSegment

        if pts[-1] is None:  # all off-curve closed contour
            pts = list(pts[:-1])
            first = ((pts[0][0] + pts[-1][0]) / 2, (pts[0][1] + pts[-1][1]) / 2)
            if self.cur is None:
                self.cur = [first]
            pts = pts + [first]
        for a, b in decomposeQuadraticSegment(pts):
            _flatten_quad(self.cur[-1], a, b, self.cur)

    def closePath(self):
        if self.cur:
            self.contours.append(self.cur)
        self.cur = None

    def endPath(self):
        if self.cur and len(self.cur) >= 3:
            self.contours.append(self.cur)
        self.cur = None


def glyph_shape(font, name, _cache=None):
    """Outline of a glyph of a compiled font (glyf incl. composites, CFF, CFF2) as a Shape, in font units."""
    gs = font.getGlyphSet()
    from fontTools.pens.basePen import DecomposingPen

    class P(_FlattenPen, DecomposingPen):
        skipMissingComponents = False

        def __init__(self, glyphSet):
            DecomposingPen.__init__(self, glyphSet)
            _FlattenPen.__init__(self)

    # DecomposingPen is an AbstractPen providing addComponent via the glyph set; the segment methods come from
    # _FlattenPen.  qCurveTo/curveTo with multiple points are handled there.
    pen = P(gs)
    gs[name].draw(pen)
    return Shape(pen.contours)


def svg_path_shape(d):
    """SVG path data (absolute/relative commands, arcs) -> Shape in the path's own coordinates."""
    from picosvg.svg_types import SVGPath

    path = SVGPath(d=d).absolute().expand_shorthand().arcs_to_cubics().explicit_lines()
    pen = _FlattenPen()
    cur = None
    start = None
    for cmd, args in path.as_cmd_seq():
        if cmd == "M":
            if pen.cur:
                pen.endPath()
            pen.moveTo((args[0], args[1]))
            start = (args[0], args[1])
        elif cmd == "L":
            pen.lineTo((args[0], args[1]))
        elif cmd == "H":
            pen.lineTo((args[0], pen.cur[-1][1]))
        elif cmd == "V":
            pen.lineTo((pen.cur[-1][0], args[0]))
        elif cmd == "C":
            pen.curveTo((args[0], args[1]), (args[2], args[3]), (args[4], args[5]))
        elif cmd == "Q":
            _flatten_quad(pen.cur[-1], (args[0], args[1]), (args[2], args[3]), pen.cur)
        elif cmd in ("Z", "z"):
            pen.closePath()
            pen.cur = [start] if start else None
        else:
            raise ValueError(f"unsupported path command {cmd} in {d[:60]}")
    if pen.cur and len(pen.cur) >= 3:
        pen.endPath()
    return Shape(pen.contours)


def sample_points(bounds, n, r=None, margin=0.0):
    """n x n grid of cell centres over bounds (xMin,yMin,xMax,yMax) enlarged by margin (fraction)."""
    x0, y0, x1, y1 = bounds
    w, h = x1 - x0, y1 - y0
    x0, x1, y0, y1 = x0 - margin * w, x1 + margin * w, y0 - margin * h, y1 + margin * h
    pts = []
    for i in range(n):
        for j in range(n):
            pts.append((x0 + (i + 0.5) * (x1 - x0) / n, y0 + (j + 0.5) * (y1 - y0) / n))
    return pts
