"""C08: the build is a function of its inputs: output bytes are deterministic.

TLC: every interleaving (any -j) of one invocation on the graphs the driver really writes, with content terms built
from the measured read sets, must end in the canonical term (Build.tla, FreeSchedule) and DeclaredCoversRead must
hold.  Real builds: argument permutations, hash seeds, -j1 / default / edge-by-edge topological orders, build and
working directories; sha256(font) must not change."""
import hashlib
import json
import os
import shutil
import subprocess
from concurrent.futures import ThreadPoolExecutor
from pathlib import Path

from . import build_model as bm
from . import cli, common, ninja_graph, parts_check, scratch_check
from .common import MachineryError

COLORS = ["#E53935", "#8E24AA", "#3949AB", "#039BE5", "#00897B", "#7CB342", "#FDD835", "#FB8C00", "#6D4C41", "#546E7A"]


def sources(r, n=6):
    """n SVGs sharing shapes (cross-glyph reuse), many colours (palette order), gradients (defs order), sequences."""
    shapes = [
        "M{x},{y} l30,0 l0,20 l-30,0 Z",
        "M{x},{y} l20,35 l-40,0 Z",
        "M{x},{y} c10,-15 30,-15 40,0 c-10,15 -30,15 -40,0 Z",
        "M{x},{y} l12,0 l0,12 l-12,0 Z",
    ]
    names = ["emoji_u1f600.svg", "emoji_u1f601.svg", "emoji_u1f602.svg", "emoji_u1f468_200d_1f469.svg",
             "emoji_u1f468.svg", "emoji_u1f1e6_1f1e7.svg", "emoji_u2764_fe0f.svg", "emoji_u1f603.svg"][:n]
    out = {}
    for i, name in enumerate(names):
        parts = []
        defs = ""
        for k in range(3 + (i % 2)):
            sh = shapes[(i + k) % len(shapes)]
            x, y = 10 + 17 * k + 3 * i, 15 + 11 * ((i + k) % 5)
            col = COLORS[(3 * i + 5 * k) % len(COLORS)]
            if k == 1 and i % 2 == 0:
                gid = f"g{i}"
                c2 = COLORS[(i + 4) % len(COLORS)]
                defs += (f'<linearGradient id="{gid}" x1="0" y1="0" x2="1" y2="1"><stop offset="0" stop-color="{col}"/>'
                         f'<stop offset="1" stop-color="{c2}"/></linearGradient>')
                fill = f"url(#{gid})"
            else:
                fill = col
            op = ' opacity="0.6"' if (i + k) % 4 == 0 else ""
            parts.append(f'<path d="{sh.format(x=x, y=y)}" fill="{fill}"{op}/>')
        out["src/" + name] = (f'<svg xmlns="http://www.w3.org/2000/svg" viewBox="0 0 100 100">'
                              f'<defs>{defs}</defs>{"".join(parts)}</svg>\n')
    # one shape used with every combination of (fill, opacity) differences between its first and later uses, inside one
    # glyph and across glyphs: whatever attributes travel with a reused shape must do so in a fixed order
    star = "M{x},{y} l8,22 l-20,-14 l24,0 l-20,14 Z"
    combos = [("#E53935", "0.5"), ("#3949AB", None), ("#00897B", "0.7"), ("#E53935", None), ("#3949AB", "0.5")]
    # (these two live in a second source directory: sources are identified by name and content, not by how their path
    # happens to be spelled from the current directory)
    for j, name in enumerate(["emoji_u1f9d0.svg", "emoji_u1f9d1.svg"]):
        parts = []
        for k, (col, op) in enumerate(combos[j:] + combos[:j]):
            parts.append(f'<path d="{star.format(x=15 + 16 * k, y=20 + 9 * k + 5 * j)}" fill="{col}"' + (f' opacity="{op}"' if op else "") + "/>")
        out["art2/" + name] = f'<svg xmlns="http://www.w3.org/2000/svg" viewBox="0 0 100 100">{"".join(parts)}</svg>\n'
    return out


def topo_orders(edges, r, k):
    outs = {e["out"]: e for e in edges}
    res = []
    for _ in range(k):
        done, order = set(), []
        remaining = set(outs)
        while remaining:
            ready = sorted(o for o in remaining
                           if all(i not in outs or i in done for i in outs[o]["ins"] + outs[o]["implicit"]))
            pick = r.choice(ready)
            order.append(pick)
            done.add(pick)
            remaining.discard(pick)
        res.append(order)
    return res


def build_variant(work: Path, tag, files, fmt, variant, r):
    """One real build under `variant`; returns (sha256 of the font or None, info)."""
    root = work / f"v-{tag}"
    sb = cli.Sandbox(root)
    for p, t in files.items():
        sb.write(p, t)
    names = sorted(files)
    args = list(names)
    env = {}
    cwd = root
    kind = variant["kind"]
    ext_font = "Font.ttf"   # the default output_file, whatever the outline flavour
    try:
        if kind == "argperm":
            r2 = common.rng("c08-perm", tag)
            r2.shuffle(args)
        elif kind == "hashseed":
            env["PYTHONHASHSEED"] = str(variant["seed"])
        elif kind == "cwd":
            # run from elsewhere with absolute source paths and a build dir that is not a sibling of src
            cwd = root / "elsewhere" / "deep"
            cwd.mkdir(parents=True)
            args = [str(root / n) for n in names]
            sb.build = root / "out" / "b" / "build"
        elif kind == "builddir-symlink":
            # the build directory is a symbolic link to a directory at another depth (a scratch disk): relative paths
            # from the build directory must be computed from where it really is
            real = root / "scratch" / "out" / "deep" / "build"
            real.mkdir(parents=True)
            os.symlink(real, root / "build")
        elif kind == "builddir-in-src":
            # the build directory inside one of the source directories: paths from the build directory to the sources
            # then differ in depth ("../x.svg" vs "../../src/y.svg")
            sb.build = root / "art2" / "build"
        elif kind == "cwd-rel":
            # run from inside one source directory with relative spellings ("x.svg", "../src/y.svg")
            cwd = root / "art2"
            args = [os.path.relpath(root / n, cwd) for n in names]
        flags = ["--color_format", fmt]
        if kind in ("j1", "topo"):
            rc, out = sb.run(flags + ["--noexec_ninja"] + args, env=env, cwd=cwd)
            if rc != 0:
                return None, {"rc": rc, "log": out[-500:]}
            if kind == "j1":
                rc, out = sb.ninja(["-j1"], env=env)
            else:
                edges = ninja_graph.parse_build_dir(sb)
                order = topo_orders(edges, common.rng("c08-topo", tag), 1)[0]
                for tgt in order:
                    rc, out = sb.ninja(["-j1", tgt], env=env)
                    if rc != 0:
                        break
        elif kind == "reused-builddir":
            # the build directory was used before, for another configuration of the same sources and output file: the
            # bytes depend on the configuration given NOW, not on what the directory has seen
            rc, out = sb.run(flags + ["--family", "An Earlier Family", "--ascender", "900"] + args, env=env, cwd=cwd)
            if rc == 0:
                rc, out = sb.run(flags + args, env=env, cwd=cwd)
        else:
            rc, out = sb.run(flags + args, env=env, cwd=cwd)
        if rc != 0:
            return None, {"rc": rc, "log": out[-500:]}
        side = {}
        for f in sorted(sb.build.glob("*")):
            if f.suffix in (".toml", ".glyphmap", ".fea"):
                side[f.name] = hashlib.sha256(f.read_bytes()).hexdigest()[:12]
        info = {"rc": 0, "side": side}
        pm = sb.build / "parts-merged.json"
        if pm.exists():
            try:
                info["parts"] = parts_check.parts_meaning(pm)
                # Parts.tla's MergeIsUnion on the files of this very build: the merged file holds, per normal form, the
                # union of what the per-source part files hold
                union = {}
                for pf in sorted(sb.build.rglob("*.parts.json")):
                    for norm, shapes, _donor in parts_check.parts_meaning(pf)["sets"]:
                        union.setdefault(norm, set()).update(shapes)
                merged = {norm: set(shapes) for norm, shapes, _donor in info["parts"]["sets"]}
                info["parts_is_union"] = (merged == union) if union else None
            except Exception as e:
                info["parts"] = {"unreadable": str(e)[:100]}
        return sb.sha(ext_font), info
    finally:
        shutil.rmtree(root, ignore_errors=True)


def source_order(chk):
    """Sources.tla: the resolved source order is a function of the files alone (not of the working directory or the
    argument order); every exported scenario is replayed into the real config.load from the real working directory."""
    res = common.run_tlc("Sources", "Sources.cfg", timeout=600)
    chk.add_tlc(res, "Sources (exhaustive: 2-3 files in <=2 directories x working directories x argument orders)")
    if not res.ok:
        chk.tlc_violation(res, "Sources")
    neg = common.run_tlc("Sources", "Sources_relsort.cfg", timeout=600, coverage=False)
    chk.add_tlc(neg, "Sources_relsort (sorting the spellings: expected to violate Canonical)")
    if neg.ok:
        raise MachineryError("Sources_relsort.cfg holds: Canonical is vacuous")
    common.setup_repo_imports()
    from nanoemoji import config as ncfg

    names = {1: "a", 2: "b", 5: "emoji_u1f600.svg", 6: "emoji_u1f601.svg", 7: "emoji_u1f602.svg", 0: ".."}
    recs = res.records
    r = common.rng("c08-sources")
    r.shuffle(recs)
    old = os.getcwd()
    with common.scratch("c08src-") as root:
        for d in ("a", "b"):
            (root / d).mkdir()
        for f in (5, 6, 7):
            for d in ("", "a", "b"):
                (root / d / names[f]).write_text(cli.SVG_A)
        try:
            for sc in recs[: (120 if chk.tier == "quick" else len(recs))]:
                cwd = root.joinpath(*[names[x] for x in sc["cwd"]])
                os.chdir(cwd)
                spelled = []
                for p in sc["srcs"]:
                    ab = root.joinpath(*[names[x] for x in p])
                    spelled.append(Path(os.path.relpath(ab, cwd)))
                if sc["perm"]:
                    spelled.reverse()
                fc = ncfg.load(config_file=None, additional_srcs=tuple(spelled))
                got = [os.path.relpath(str(x), root) for x in fc.masters[0].sources]
                want = ["/".join(names[x] for x in p) for p in sc["resolved"]]
                chk.case(key=("sources", json.dumps(sc, sort_keys=True)), nontrivial=bool(sc["cwd"]))
                chk.traces_validated += 1
                if got != want:
                    chk.violation(f"sources {[str(x) for x in spelled]} given from {'/'.join(names[x] for x in sc['cwd']) or '.'} resolve to the order "
                                  f"{got}; from the project root (and in the model) the order is {want}", {"scenario": sc})
        finally:
            os.chdir(old)


def run(chk):
    quick = chk.tier == "quick"
    chk.rule = (
        "Build.tla with FreeSchedule on graphs extracted from the real driver (all interleavings of a clean "
        "invocation; DeclaredCoversRead on strace-measured read sets); real builds of one source set per format under "
        "argument permutations, PYTHONHASHSEED values, -j1, random topological edge-by-edge orders and a different "
        "cwd/build-dir layout, compared by sha256.  Non-trivial = a variant that differs from the base build in one "
        "of those dimensions; distinct by (format, variant)."
    )
    source_order(chk)
    parts_check.run(chk)
    r = common.rng("c08")
    fmts = ["glyf_colr_1", "picosvg", "cbdt"] if quick else [
        "glyf_colr_1", "glyf_colr_0", "picosvg", "untouchedsvg", "cbdt", "sbix", "glyf", "cff_colr_1", "picosvgz"]
    with common.scratch("c08-") as work:
        # ---- model: all schedules on the real graphs
        for fam_fmt, name in (("glyf_colr_1", "colr"), ("cbdt", "cbdt")) if quick else (
                ("glyf_colr_1", "colr"), ("picosvg", "svg"), ("cbdt", "cbdt"), ("untouchedsvg", "raw")):
            srcs = ["src/emoji_u1f600.svg", "src/emoji_u1f601.svg"] + ([] if quick else ["src/emoji_u1f601_200d_1f600.svg"])
            fam = bm.Family(name, srcs, {"d": []}, ["--color_format", fam_fmt])
            data = bm.extract_family(fam, work / f"x-{name}")
            consts = dict(UserOps=[], FaultKinds=[], MaxFaults=0, MaxVer=1, FreeSchedule=True, MaxOps=1)
            mc = bm.write_mc(data, work / f"spec-{name}", "sched", consts,
                             ["FreshOKx", "AllFreshx", "DeclaredCoversRead"])
            res = common.run_tlc(mc, mc + ".cfg", spec_dir=work / f"spec-{name}", timeout=1800, coverage=False)
            chk.add_tlc(res, f"Build sched [{fam_fmt}]: all interleavings of a clean invocation, "
                             f"{max(len(w['edges']) for w in data['worlds'])} edges")
            if not res.ok:
                chk.tlc_violation(res, f"Build/sched/{fam_fmt}")
        # ---- response files under parallel execution (Scratch.tla on the real graphs, -j1 vs -j16 on VF / two configs)
        scratch_check.run(chk, work)
        # ---- real builds
        files = sources(r, 6 if quick else 8)
        variants = [{"kind": "base"}, {"kind": "argperm"}, {"kind": "hashseed", "seed": 1}, {"kind": "hashseed", "seed": 2},
                    {"kind": "hashseed", "seed": 3}, {"kind": "hashseed", "seed": 12345}, {"kind": "j1"}, {"kind": "topo"}, {"kind": "cwd"}, {"kind": "cwd-rel"}]
        if not quick:
            variants += [{"kind": "argperm", "n": 2}, {"kind": "argperm", "n": 3}, {"kind": "hashseed", "seed": 7},
                         {"kind": "hashseed", "seed": 99}, {"kind": "topo", "n": 2}, {"kind": "topo", "n": 3},
                         {"kind": "base", "n": 2}]
        variants.append({"kind": "reused-builddir"})
        variants.append({"kind": "builddir-in-src"})
        variants.append({"kind": "builddir-symlink"})
        jobs = [(f, v) for f in fmts for v in variants]
        if "untouchedsvg" not in fmts:
            # sources used as they are (paths, not build-local copies, reach the glyph map): the directory variants
            jobs += [("untouchedsvg", v) for v in variants if v["kind"] in ("base", "cwd", "cwd-rel", "builddir-in-src", "builddir-symlink", "argperm")]

        def one(k_job):
            k, (f, v) = k_job
            return f, v, build_variant(work, f"{f}-{k}", files, f, v, r)

        with ThreadPoolExecutor(5) as ex:
            results = list(ex.map(one, enumerate(jobs)))
        base = {}
        for f, v, (sha, info) in results:
            if v["kind"] == "base" and "n" not in v:
                if sha is None:
                    raise MachineryError(f"base build failed for {f}: {info}")
                base[f] = (sha, info)
        for f, v, (sha, info) in results:
            chk.case(key=(f, json.dumps(v, sort_keys=True)), nontrivial=v["kind"] != "base" or "n" in v)
            chk.traces_validated += 1
            if sha is None:
                chk.violation(f"{f}: build failed under variant {v}: {info}", {"format": f, "variant": v, "files": files})
                continue
            if sha != base[f][0]:
                diff = {k: (base[f][1]["side"].get(k), s) for k, s in info["side"].items() if base[f][1]["side"].get(k) != s}
                chk.violation(f"{f}: font bytes differ under variant {v} (differing side files: {sorted(diff)})",
                              {"format": f, "variant": v, "files": files, "base_sha": base[f][0], "sha": sha})
        # parts-merged.json lists shapes in hash order and is outside the property; its MEANING (Parts.tla: sets of shapes
        # per normal form, donors) is still compared across the variants and reported as a note, never as a violation
        pdiff = [f"{f} {v}" for f, v, (sha, info) in results
                 if sha is not None and "parts" in info and "parts" in base[f][1] and info["parts"] != base[f][1]["parts"]]
        chk.notes["parts_merged_meaning"] = {
            "builds_compared": sum(1 for f, v, (sha, info) in results if sha is not None and "parts" in info),
            "shape_sets_in_base": {f: len(b[1].get("parts", {}).get("sets", [])) for f, b in base.items()},
            "differing": pdiff[:5],
            "merged_is_union_of_part_files": [f"{f} {v}" for f, v, (sha, info) in results if sha is not None and info.get("parts_is_union") is False][:5]
                                             or "yes, in every build"}
        for d in pdiff[:5]:
            print(f"SPEC-DRIFT module=Parts parts-merged.json means something else under {d[:200]}")
        chk.sample({"formats": fmts, "variants": variants, "sources": sorted(files)})
        chk.notes["base_sha"] = {f: s[0][:16] for f, s in base.items()}
    chk.assumptions += ["SOURCE_DATE_EPOCH fixed", "parts-merged.json is not compared (does not feed the font)"]


def replay(path):
    print(open(path).read()[:6000])
    return 0
