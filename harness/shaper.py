"""A minimal independent shaper: cmap, then GSUB single (type 1) and ligature (type 4) substitutions of the default
features, lookups applied in lookup-list order, each ligature lookup scanning left to right and taking the first
matching ligature of the covered first glyph in the subtable's stored order (OpenType semantics).  Reads only the
reloaded binary."""
DEFAULT_FEATURES = {"ccmp", "rlig", "liga", "calt", "clig", "locl", "rclt"}


def _lookups(font):
    if "GSUB" not in font:
        return []
    t = font["GSUB"].table
    if not t.FeatureList or not t.LookupList:
        return []
    idx = set()
    for fr in t.FeatureList.FeatureRecord:
        if fr.FeatureTag in DEFAULT_FEATURES:
            idx.update(fr.Feature.LookupListIndex)
    return [t.LookupList.Lookup[i] for i in sorted(idx)]


def shape(font, codepoints):
    """-> list of glyph names, or None if a codepoint has no cmap entry."""
    cmap = font.getBestCmap()
    glyphs = []
    for cp in codepoints:
        if cp not in cmap:
            return None
        glyphs.append(cmap[cp])
    for lookup in _lookups(font):
        for st in lookup.SubTable:
            if st.LookupType == 7:
                st = st.ExtSubTable
            if st.LookupType == 1:
                glyphs = [st.mapping.get(g, g) for g in glyphs]
            elif st.LookupType == 4:
                out, i = [], 0
                while i < len(glyphs):
                    done = False
                    for lig in st.ligatures.get(glyphs[i], []):
                        comp = lig.Component
                        if glyphs[i + 1: i + 1 + len(comp)] == comp:
                            out.append(lig.LigGlyph)
                            i += 1 + len(comp)
                            done = True
                            break
                    if not done:
                        out.append(glyphs[i])
                        i += 1
                glyphs = out
    return glyphs
