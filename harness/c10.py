"""C10: what the driver resolves is exactly what the build steps see.

Config.tla (FontConfig._fields from the code, provenance default/file/flag/both, TOML write with None dropped, worker
load) is model-checked for Precedence / RoundTrip; every provenance vector is replayed into the real
config.load -> config.write -> config.load with random typed values (floats in the transform, quotes/unicode in
strings, several axes/masters).  GlyphSet.tla's Name operator is model-checked for injectivity (known finding).
Glyph mappings (file names from character classes), parts files produced by the real part-file code on generated
SVGs, response files written by real ninja, and codepoints in file names are round-tripped through the real code."""
import io
import json
import os
import re
import subprocess
import tempfile
from pathlib import Path

from . import build, cli, common, compile_check as CC, scenarios as S
from .common import MachineryError

KF_NAMES = "glyph-name-collision-g-prefix"
NAME_CLASSES = ["plain", "spa ce", "com,ma", 'quo"te', "ha#sh", "dol$lar", "ünï✓", "@at", "semi;colon", "'single'", "back\\slash",
                "tab\tx", "trail ", "perc%ent", "eq=ual", "amp&er", "par(en)", "brace{}", "star*", "ques?"]


def rand_value(field, default, r):
    if isinstance(default, bool):
        return not default
    if field == "transform":
        from picosvg.svg_transform import Affine2D

        return Affine2D(*(round(r.uniform(-2, 2), r.randrange(1, 7)) for _ in range(4)), round(r.uniform(-500, 500), 3), round(r.uniform(-500, 500), 3))
    if field == "color_format":
        return r.choice(["glyf_colr_0", "picosvg", "cbdt", "cff2_colr_1", "untouchedsvgz"])
    if field == "output_file":
        return r.choice(["Out.ttf", "My Font.ttf", "ünï.ttf"])
    if field == "descender":
        return -r.randrange(0, 900)
    if field == "reuse_tolerance":
        return r.choice([-1.0, 0.0, 0.05, 1.5, 0.333333])
    if field == "clipbox_quantization":
        return r.randrange(1, 200)
    if isinstance(default, int):
        return r.randrange(0, 4000)
    if isinstance(default, float):
        return round(r.uniform(0, 3), r.randrange(1, 8))
    if isinstance(default, str) or default is None:
        return r.choice(["x", 'Fam "quoted"', "ünï cøde ✓", "back\\slash", "a=b # not a comment", "tab\tsep", "  spaced  ", "multi word --flag-like"])
    raise TypeError(field)


def to_toml_value(v):
    from picosvg.svg_transform import Affine2D

    if isinstance(v, Affine2D):
        return v.tostring()
    return v


def to_flag_value(v):
    from picosvg.svg_transform import Affine2D

    if isinstance(v, Affine2D):
        return v.tostring()
    return v


def replay_config(chk, records, fields):
    import toml
    from absl import flags
    from nanoemoji import config
    from picosvg.svg_transform import Affine2D

    FLAGS = flags.FLAGS
    defaults = config.FontConfig()
    for n, rec in enumerate(records):
        if isinstance(rec["prov"], list):   # ToJson of the empty function
            rec = dict(rec, prov={})
        r = common.rng("C10", "cfg", n)
        file_vals, flag_vals, want = {}, {}, {}
        for f, p in rec["prov"].items():
            d = getattr(defaults, f)
            if isinstance(d, bool):
                fv, gv = (not d), (d if p == "both" else (not d))
            else:
                fv, gv = rand_value(f, d, r), rand_value(f, d, r)
            if p in ("file", "both"):
                file_vals[f] = fv
            if p in ("flag", "both"):
                flag_vals[f] = gv
            want[f] = gv if p in ("flag", "both") else fv
        chk.case(key=json.dumps(rec["prov"], sort_keys=True), nontrivial=bool(rec["prov"]))
        with tempfile.TemporaryDirectory(prefix="nev-c10-") as d:
            d = Path(d)
            # legal file and directory names of every character class the property lists (the names the user gives and
            # the absolute paths the driver writes for the worker must both be taken literally); '*' is the documented
            # glob character and is left out
            sub, (sa, sb_) = [("", ("a.svg", "b.svg")), ("", ("emoji_u1f600[1].svg", "b c.svg")), ("dir [x]", ("a.svg", "b.svg")),
                              ("", ("what?.svg", "it's.svg")), ("", ("co,mma.svg", 'q"uote.svg')), ("sp ace, ünï", ("ünï.svg", "{brace}.svg"))][n % 6]
            if sub:
                (d / sub).mkdir()
            sa, sb_ = (f"{sub}/{sa}" if sub else sa), (f"{sub}/{sb_}" if sub else sb_)
            (d / sa).write_text("<svg/>")
            (d / sb_).write_text("<svg/>")
            multi = n % 3 == 0
            cfg = {k: to_toml_value(v) for k, v in file_vals.items()}
            cfg["axis"] = {"wght": {"name": "Weight", "default": 400}}
            cfg["master"] = {"regular": {"style_name": "Regular", "srcs": [sa, sb_], "position": {"wght": 400}}}
            if multi:
                cfg["axis"]["wdth"] = {"name": "Width", "default": 100.5}
                cfg["master"]["regular"]["position"]["wdth"] = 100.5
                cfg["master"]["bold"] = {"style_name": "Bold ünï", "srcs": [sa, sb_], "position": {"wght": 700, "wdth": 100.5}}
                if cfg.get("color_format", "glyf_colr_1") in ("picosvg", "cbdt", "untouchedsvgz"):
                    cfg.pop("color_format", None)
                    file_vals.pop("color_format", None)
                    if "color_format" in want and "color_format" not in flag_vals:
                        want.pop("color_format")
                if flag_vals.get("color_format") in ("picosvg", "cbdt", "untouchedsvgz"):
                    flag_vals["color_format"] = "glyf_colr_0"
                    want["color_format"] = "glyf_colr_0"
            (d / "in.toml").write_text(toml.dumps(cfg))
            replay = {"file": cfg, "flags": {k: str(v) for k, v in flag_vals.items()}, "vector": rec["prov"]}
            saved = {}
            try:
                for k, v in flag_vals.items():
                    saved[k] = getattr(FLAGS, k)
                    setattr(FLAGS, k, to_flag_value(v))
                try:
                    driver = config.load(d / "in.toml")
                except Exception as e:
                    chk.violation(f"config.load rejects a valid configuration: {type(e).__name__}: {str(e)[:150]}", replay)
                    continue
            finally:
                for k, v in saved.items():
                    setattr(FLAGS, k, v)
            got_srcs = sorted(str(x) for x in driver.masters[0].sources)
            want_srcs = sorted(str((d / x).resolve()) for x in (sa, sb_))
            if got_srcs != want_srcs:
                chk.violation(f"sources {[sa, sb_]} named in the configuration resolve to {[Path(x).name for x in got_srcs]}", replay)
            # precedence: flag > file > default, field for field
            for f in fields:
                exp = want.get(f, getattr(defaults, f))
                got = getattr(driver, f)
                if isinstance(exp, Affine2D) or isinstance(got, Affine2D):
                    ok = all(abs(a - b) < 1e-9 for a, b in zip(tuple(exp), tuple(got)))
                else:
                    ok = exp == got
                if not ok:
                    chk.violation(f"field {f}: resolved {got!r}, expected {exp!r} (flag > file > default)", replay)
            # round trip through the TOML handed to the worker (worker has no option flags)
            out = d / "resolved.toml"
            try:
                config.write(out, driver)
                worker = config.load(out)
            except Exception as e:
                chk.violation(f"resolved configuration does not survive write/load: {type(e).__name__}: {str(e)[:150]}", replay)
                continue
            for f in config.FontConfig._fields:
                a, b = getattr(driver, f), getattr(worker, f)
                if f == "transform":
                    ok = all(abs(x - y) < 1e-6 for x, y in zip(tuple(a), tuple(b)))
                else:
                    ok = a == b
                if not ok:
                    chk.violation(f"field {f} changes in the driver->TOML->worker hand-off: {a!r} -> {b!r}", dict(replay, toml=out.read_text()[:600]))


def glyphmap_roundtrip(chk):
    from nanoemoji.glyphmap import GlyphMapping, load_from

    r = common.rng("C10", "gm")
    n = 0
    for a in NAME_CLASSES:
        for b in NAME_CLASSES[:6]:
            for cps in ((0x1F600,), (0x1F468, 0x200D, 0x1F469), ()):
                svg = Path("pico svg dir") / f"{a}{b}.svg"
                png = Path("bitmap") / f"{b}{a}.png" if n % 3 else None
                svgp = svg if n % 5 else None
                if svgp is None and png is None:
                    svgp = svg
                gm = GlyphMapping(svgp, png, cps, "g_" + "_".join("%x" % c for c in cps) if cps else "custom.name-1")
                n += 1
                chk.case(key=("gm", a, b, len(cps)), nontrivial=a != "plain")
                try:
                    back = load_from(io.StringIO(gm.csv_line() + "\n"))
                except Exception as e:
                    chk.violation(f"glyphmap row for {str(svgp)!r} cannot be parsed back: {type(e).__name__}: {e}", {"row": gm.csv_line()})
                    continue
                if back != (gm,):
                    chk.violation(f"glyphmap row does not round-trip: {gm} -> {back}", {"row": gm.csv_line()})
    # a path is not always below a directory (a source in the build directory itself, a custom generator): the hostile
    # character may be the FIRST of a field, where CSV dialects treat blanks, quotes and comment marks specially
    for lead in ["#", " ", '"', "'", "-", "@", ";", "%", "!", "~", ".", ",", "\t", "=", "+", "\\", "  ", "# ", "ü"]:
        for both in (False, True):
            svg = Path(lead + "name.svg")
            gm = GlyphMapping(svg, Path(lead + "b.png") if both else None, (0x1F600,) if both else (0x1F468, 0x200D, 0x1F469), "g_1f600")
            chk.case(key=("gm-lead", lead, both), nontrivial=True)
            try:
                back = load_from(io.StringIO("\n".join([gm.csv_line(), gm.csv_line()]) + "\n"))
            except Exception as e:
                chk.violation(f"glyphmap row for {str(svg)!r} cannot be parsed back: {type(e).__name__}: {e}", {"row": gm.csv_line()})
                continue
            if back != (gm, gm):
                chk.violation(f"glyphmap rows for the file name {str(svg)!r} do not round-trip: {gm} x2 -> {back}", {"row": gm.csv_line()})
    # rows as the docstring shows them (spaces after commas) must parse too
    back = load_from(io.StringIO("picosvg/clipped/emoji_u270d_1f3fb.svg, bitmap/emoji_u270d_1f3fb.png, g_270d_1f3fb, 270d, 1f3fb\n"))
    if not back or back[0].codepoints != (0x270D, 0x1F3FB) or str(back[0].bitmap_file) != "bitmap/emoji_u270d_1f3fb.png":
        chk.violation(f"documented glyphmap row parses to {back}", {})


def csv_model(chk):
    """CsvRow.tla (writer / reader over character sequences: RoundTrip, with the pre-fix writer as negative
    configuration); every row of the model is written by the real csv_line (text compared with the model's) and read
    back by the real load_from."""
    from nanoemoji.glyphmap import GlyphMapping, load_from

    res = common.run_tlc("CsvRow", "CsvRow.cfg", timeout=900)
    chk.add_tlc(res, "CsvRow (every pair of fields of <= 3 characters over blank / comma / quote / ordinary: RoundTrip)")
    if not res.ok:
        chk.tlc_violation(res, "CsvRow")
    neg = common.run_tlc("CsvRow", "CsvRow_noquote.cfg", timeout=900, coverage=False)
    chk.add_tlc(neg, "CsvRow_noquote (leading blanks left unquoted: expected to violate RoundTrip)")
    if neg.ok:
        raise MachineryError("CsvRow_noquote.cfg holds: RoundTrip is vacuous")
    ch = {"s": " ", "c": ",", "q": '"', "x": "x"}
    recs = list(res.records)
    if len(recs) < 5000:
        raise MachineryError(f"too few CsvRow rows exported ({len(recs)})")
    r = common.rng("C10", "csv")
    r.shuffle(recs)
    drift = 0
    for rec in recs[: (2500 if chk.tier == "quick" else len(recs))]:
        svg = "".join(ch[c] for c in rec["row"][0])
        png = "".join(ch[c] for c in rec["row"][1])
        gm = GlyphMapping(Path(svg), Path(png) if png else None, (0x1F600,), "g_1f600")
        if str(gm.svg_file) != svg or (png and str(gm.bitmap_file) != png):
            continue      # pathlib itself rewrites the spelling (does not happen for this alphabet)
        line = gm.csv_line()
        chk.case(key=("csv-model", svg, png), nontrivial=svg[:1] == " " or png[:1] == " " or '"' in svg + png or "," in svg + png)
        chk.traces_validated += 1
        want_text = "".join(ch[c] for c in rec["text"])
        if not line.startswith(want_text + ","):
            drift += 1
        try:
            back = load_from(io.StringIO(line + "\n"))
        except Exception as e:
            chk.violation(f"glyph-map row for the paths {svg!r}, {png!r} cannot be parsed back: {type(e).__name__}: {e}", {"row": line})
            continue
        if back != (gm,):
            chk.violation(f"glyph-map row for the paths {svg!r}, {png!r} does not round-trip: written {line!r}, read {back}", {"row": line})
    chk.notes["csv_text_drift_from_model"] = drift


def parts_roundtrip(chk, n):
    from nanoemoji.parts import ReusableParts
    from picosvg.geometric_types import Rect

    for k in range(n):
        r = common.rng("C10", "parts", k)
        glyphs = S.random_scenario(r, reuse_bias=0.7, allow_special=False)
        tol = r.choice([0.1, 0.05, -1.0, 1.0])
        parts = ReusableParts(view_box=Rect(0, 0, 1200, 1200), reuse_tolerance=tol)
        for cps, vb, specs in glyphs:
            parts.add(build.to_picosvg(S.svg_document(specs, vb)))
        if k % 2:
            parts.compute_donors()
        chk.case(key=("parts", k), nontrivial=len(parts.shape_sets) >= 2)
        text = parts.to_json()
        try:
            back = ReusableParts.from_json(text)
        except Exception as e:
            chk.violation(f"parts file written by the part-file code does not load: {type(e).__name__}: {e}", {"json": text[:800]})
            continue
        if back.shape_sets != parts.shape_sets or back.view_box != parts.view_box or back.reuse_tolerance != parts.reuse_tolerance:
            chk.violation("parts file reloads to different shape sets / view box / tolerance", {"json": text[:800]})
        # through the real part-file steps (write_part_file -> write_combined_part_files) once in a while
    with common.scratch("c10-") as work:
        sb = cli.Sandbox(work)
        files = {"src/emoji_u1f600.svg": cli.SVG_A, "src/emoji_u1f601.svg": cli.SVG_B}
        for p, t in files.items():
            sb.write(p, t)
        rc, out = sb.run(["--color_format", "glyf_colr_1"] + sorted(files))
        if rc != 0:
            raise MachineryError(f"CLI build failed: {out[-300:]}")
        for p in list((sb.build / "picosvg" / "clipped").glob("*.parts.json")) + [sb.build / "parts-merged.json"]:
            a = ReusableParts.loadjson(p)
            b = ReusableParts.from_json(a.to_json())
            chk.case(key=("parts-file", p.name), nontrivial=True)
            if a.shape_sets != b.shape_sets:
                chk.violation(f"{p.name} does not round-trip through to_json/from_json", {})
        # the resolved files the driver wrote are what a worker loads
        from nanoemoji import config, glyphmap

        worker = config.load(sb.build / "Font.toml")
        gm = glyphmap.parse_csv(sb.build / "Font.glyphmap")
        chk.case(key="cli-handoff", nontrivial=True)
        if [str(g.svg_file) for g in gm] != ["picosvg/clipped/emoji_u1f600.svg", "picosvg/clipped/emoji_u1f601.svg"]:
            chk.violation(f"Font.glyphmap lists {[str(g.svg_file) for g in gm]}", {})
        if [g.codepoints for g in gm] != [(0x1F600,), (0x1F601,)]:
            chk.violation(f"Font.glyphmap codepoints {[g.codepoints for g in gm]}", {})
        if worker.color_format != "glyf_colr_1" or [Path(s).name for s in worker.masters[0].sources] != ["emoji_u1f600.svg", "emoji_u1f601.svg"]:
            chk.violation("Font.toml does not carry the driver's format / sources", {"toml": (sb.build / "Font.toml").read_text()})
        # the driver is run again on the same build directory with other flags (and once more with the first ones): what a
        # worker loads is what the driver resolved THIS time, field for field
        runs = [(["--family", "Second Family", "--upem", "2048", "--ascender", "1800", "--descender", "-400"],
                 {"family": "Second Family", "upem": 2048, "ascender": 1800, "descender": -400}),
                (["--keep_glyph_names", "--width", "0"], {"family": "An Emoji Family", "upem": 1024, "keep_glyph_names": True, "width": 0}),
                ([], {"family": "An Emoji Family", "upem": 1024, "ascender": 950, "descender": -250, "keep_glyph_names": False})]
        for flags, want in runs:
            rc, out = sb.run(["--color_format", "glyf_colr_1"] + flags + sorted(files))
            chk.case(key=("cli-handoff-rerun", tuple(flags)), nontrivial=True)
            chk.traces_validated += 1
            if rc != 0:
                chk.violation(f"re-running the driver with {flags} on a used build directory fails: {out[-300:]}", {"flags": flags})
                continue
            worker = config.load(sb.build / "Font.toml")
            stale = {k: (getattr(worker, k), v) for k, v in want.items() if getattr(worker, k) != v}
            if stale:
                chk.violation(f"after re-running the driver with {flags or 'no flags'} the worker's Font.toml still says "
                              f"{ {k: a for k, (a, b) in stale.items()} }, the driver resolved { {k: b for k, (a, b) in stale.items()} }",
                              {"flags": flags, "toml": (sb.build / "Font.toml").read_text()})


def rsp_roundtrip(chk):
    """Real ninja writes $in to a response file; util.expand_ninja_response_files must recover the names."""
    from nanoemoji import util

    names = ["plain.svg", "spa ce.svg", "quo'te.svg", 'dq"uote.svg', "ünï.svg", "ha#sh.svg", "amp&.svg", "semi;x.svg", "par(en).svg"]
    with common.scratch("c10-rsp-") as d:
        for n in names:
            (d / n).write_text("x")
        import ninja.ninja_syntax as ns

        with open(d / "build.ninja", "w") as f:
            nw = ns.Writer(f)
            nw.rule("collect", "cp $out.rsp $out", rspfile="$out.rsp", rspfile_content="$in")
            nw.build("out.txt", "collect", names)
        p = subprocess.run(["ninja", "-C", str(d)], env=cli.env_for(), stdout=subprocess.PIPE, stderr=subprocess.STDOUT, text=True)
        chk.case(key="rsp", nontrivial=True)
        if p.returncode != 0:
            raise MachineryError(f"ninja failed: {p.stdout[-300:]}")
        got = util.expand_ninja_response_files(["@" + str(d / "out.txt")])
        if got != names:
            chk.violation(f"response file expansion yields {got}, ninja was given {names}", {"rsp": (d / 'out.txt').read_text()})


def names_legal_and_distinct(chk, n):
    from nanoemoji import codepoints
    from nanoemoji.glyph import glyph_name

    r = common.rng("C10", "names")
    seen = {}
    pool = [0x41, 0x67, 0x7A, 0xA9, 0x200D, 0xFE0F, 0x1F600, 0x1F3FB, 0x23, 0x2A, 0x30, 0x39, 0x20E3, 0xE0067, 0x10FFFF, 0x21, 0xFF]
    for k in range(n):
        L = r.choice([1, 1, 2, 3, 4, 7, 14])
        cps = tuple(r.choice(pool) if r.random() < 0.7 else r.randrange(0x21, 0x110000) for _ in range(L))
        cps = tuple(c for c in cps if not (0xD800 <= c <= 0xDFFF)) or (0x41,)
        name = glyph_name(cps)
        chk.case(key=("name", cps), nontrivial=len(cps) > 1)
        if not re.fullmatch(r"[A-Za-z_][A-Za-z0-9_.\-]{0,62}", name):
            chk.violation(f"glyph name {name!r} for {cps} is not legal in a feature file (<= 63 chars, [A-Za-z_][A-Za-z0-9_.-]*)", {"cps": cps})
        if name in seen and seen[name] != cps:
            a, b = sorted([seen[name], cps], key=len)
            key = KF_NAMES if (b[0] == 0x67 and b[1:] == a) else None
            chk.violation(f"distinct sequences {seen[name]} and {cps} share the glyph name {name!r}", {"a": seen[name], "b": cps}, finding_key=key)
        seen[name] = cps
        # the naming schemes in the wild: Noto (emoji_u + zero-padded lower case, '_'), Twemoji (lower case, '-'),
        # OpenMoji (upper case, '-', no prefix), and mixed case
        for fn in ("emoji_u" + "_".join("%04x" % c for c in cps) + ".svg", "-".join("%x" % c for c in cps) + ".svg",
                   "-".join("%04X" % c for c in cps) + ".svg", "emoji_u" + "_".join("%X" % c for c in cps) + ".svg",
                   "_".join(("%X" if i % 2 else "%x") % c for i, c in enumerate(cps)) + ".svg"):
            if tuple(codepoints.from_filename(fn)) != cps:
                chk.violation(f"codepoints.from_filename({fn!r}) = {codepoints.from_filename(fn)} != {cps}", {"file": fn})
    # the known collision, deliberately
    a, b = (0x67, 0x1F600), (0x1F600,)
    if glyph_name(a) == glyph_name(b):
        chk.violation(f"distinct sequences {a} and {b} share the glyph name {glyph_name(a)!r}", {"a": a, "b": b}, finding_key=KF_NAMES)


def run(chk):
    from nanoemoji.config import FontConfig

    quick = chk.tier == "quick"
    chk.rule = (
        "Config.tla over FontConfig._fields x provenance with <=1 (thorough 2) perturbed fields, every vector replayed "
        "into config.load/write/load with random typed values; 360 glyph-mapping rows over file-name character classes; "
        "parts files from generated SVG sets and from a real CLI build; a response file written by real ninja; random "
        "codepoint sequences (length 1..14) through from_filename / glyph_name.  Non-trivial = a perturbed field / a "
        "special character class / a multi-codepoint sequence."
    )
    fields = [f for f in FontConfig._fields if f not in ("axes", "masters", "source_names")]
    null_default = [f for f in fields if getattr(FontConfig(), f) is None]
    with common.scratch("c10-spec-") as sd:
        import shutil

        shutil.copy(common.SPEC / "Config.tla", sd / "Config.tla")

        def q(xs):
            return "{" + ", ".join(json.dumps(x) for x in xs) + "}"

        (sd / "Config.cfg").write_text(
            f"SPECIFICATION Spec\nCONSTANTS\n  Fields = {q(fields)}\n  NullDefault = {q(null_default)}\n"
            f"  WorkerFlags = {{}}\n  MaxPerturbed = {1 if quick else 2}\n"
            "INVARIANT Precedence\nINVARIANT RoundTrip\nINVARIANT Reaches\nINVARIANT Export\n")
        res = common.run_tlc("Config", "Config.cfg", spec_dir=sd, timeout=1800)
    chk.add_tlc(res, f"Config: {len(fields)} fields (library-level hand-off: no worker flags)")
    if not res.ok:
        chk.tlc_violation(res, "Config")
    if res.vacuous_actions():
        raise MachineryError(f"vacuous: {res.vacuous_actions()}")
    chk.exhaustive = True
    chk.traces_validated += len(res.records)
    chk.sample(res.records[1] if len(res.records) > 1 else res.records[0])
    recs = res.records if quick or len(res.records) < 1500 else common.rng("C10").sample(res.records, 1500)
    replay_config(chk, recs, fields)
    glyphmap_roundtrip(chk)
    parts_roundtrip(chk, 12 if quick else 200)
    csv_model(chk)
    rsp_roundtrip(chk)
    names_legal_and_distinct(chk, 3000 if quick else 200000)
    chk.assumptions += ["file names containing a newline are outside 'legal file name' (ninja cannot carry them either)"]


def replay(path):
    print(open(path).read()[:8000])
    return 0
