"""Independent gradient evaluators, written from the OpenType COLRv1 and SVG specifications.
They share no code with nanoemoji (only picosvg's number parsing is used elsewhere)."""
import math


def extend_t(t, mode):
    """mode in {'pad','repeat','reflect'}"""
    if mode == "pad":
        return min(1.0, max(0.0, t))
    if mode == "repeat":
        return t - math.floor(t)
    if mode == "reflect":
        t = t % 2.0
        return t if t <= 1.0 else 2.0 - t
    raise ValueError(mode)


def color_at(stops, t, mode="pad"):
    """stops: sorted [(offset, (r,g,b,a))] with a in [0,1]; linear interpolation in (non-premultiplied) RGBA.
    Returns (r,g,b,a)."""
    if not stops:
        return (0, 0, 0, 0)
    lo, hi = stops[0][0], stops[-1][0]
    if hi > lo:
        # the colour line is defined on [first stop, last stop]; extend applies outside it
        u = (t - lo) / (hi - lo)
        u = extend_t(u, mode)
        t = lo + u * (hi - lo)
    else:
        return stops[0][1] if t < lo else stops[-1][1]
    prev = stops[0]
    for s in stops:
        if t < s[0]:
            if s[0] == prev[0]:
                return s[1]
            f = (t - prev[0]) / (s[0] - prev[0])
            return tuple(prev[1][i] + f * (s[1][i] - prev[1][i]) for i in range(4))
        prev = s
    return stops[-1][1]


def linear_t_colr(p0, p1, p2, p):
    """COLRv1 PaintLinearGradient: colour line from p0 towards p1, with p2 defining the rotation:
    the effective end point p3 is p0 + projection of (p1 - p0) onto the normal of (p2 - p0)."""
    v1 = (p1[0] - p0[0], p1[1] - p0[1])
    v2 = (p2[0] - p0[0], p2[1] - p0[1])
    n = (v2[1], -v2[0])  # perpendicular to p0->p2
    nn = n[0] * n[0] + n[1] * n[1]
    if nn == 0:
        return None
    k = (v1[0] * n[0] + v1[1] * n[1]) / nn
    v3 = (k * n[0], k * n[1])
    d = v3[0] * v3[0] + v3[1] * v3[1]
    if d == 0:
        return None
    return ((p[0] - p0[0]) * v3[0] + (p[1] - p0[1]) * v3[1]) / d


def linear_t_svg(x1, y1, x2, y2, p):
    vx, vy = x2 - x1, y2 - y1
    d = vx * vx + vy * vy
    if d == 0:
        return None
    return ((p[0] - x1) * vx + (p[1] - y1) * vy) / d


def radial_t(c0, r0, c1, r1, p, mode="pad"):
    """Two-circle (focal) gradient, COLRv1 PaintRadialGradient == SVG2/canvas radial gradient:
    the largest t with r(t) >= 0 such that p lies on the circle c(t), r(t).  For pad the admissible t are
    clamped by the caller; for repeat/reflect any t is admissible.  Returns None where nothing is painted."""
    cdx, cdy = c1[0] - c0[0], c1[1] - c0[1]
    pdx, pdy = p[0] - c0[0], p[1] - c0[1]
    dr = r1 - r0
    a = cdx * cdx + cdy * cdy - dr * dr
    b = pdx * cdx + pdy * cdy + r0 * dr
    c = pdx * pdx + pdy * pdy - r0 * r0
    cands = []
    if abs(a) < 1e-12:
        if abs(b) < 1e-12:
            return None
        cands = [c / (2 * b)]
    else:
        disc = b * b - a * c
        if disc < 0:
            return None
        sq = math.sqrt(disc)
        cands = [(b + sq) / a, (b - sq) / a]
    ok = []
    for t in cands:
        if mode == "pad":
            tt = t
            # with pad, t<0 uses circle 0, t>1 circle 1: admissible iff r(clamped) >= 0 which always holds;
            # the spec requires r(t) >= 0 for the un-clamped t
            if r0 + tt * dr >= -1e-9:
                ok.append(t)
        else:
            if r0 + t * dr >= -1e-9:
                ok.append(t)
    if not ok:
        return None
    return max(ok)


def inv(m):
    a, b, c, d, e, f = m
    det = a * d - b * c
    if det == 0:
        return None
    ia, ib, ic, id_ = d / det, -b / det, -c / det, a / det
    return (ia, ib, ic, id_, -(ia * e + ic * f), -(ib * e + id_ * f))


def mapp(m, p):
    return (m[0] * p[0] + m[2] * p[1] + m[4], m[1] * p[0] + m[3] * p[1] + m[5])


def mul(m, n):
    """m after n."""
    return (
        m[0] * n[0] + m[2] * n[1], m[1] * n[0] + m[3] * n[1],
        m[0] * n[2] + m[2] * n[3], m[1] * n[2] + m[3] * n[3],
        m[0] * n[4] + m[2] * n[5] + m[4], m[1] * n[4] + m[3] * n[5] + m[5],
    )


IDENT = (1.0, 0.0, 0.0, 1.0, 0.0, 0.0)
