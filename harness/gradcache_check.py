"""GradCache.tla <-> the OT-SVG writer's gradient-id cache (svg.ReuseCache.gradient_ids / _apply_gradient_paint /
_picosvg_docs).  TLC checks the design and its two negative configurations; a covering sample of the exported scenarios
(documents x gradient fills [g, t]) is realised as real picosvg fonts: one glyph per document (glyphs share no shape),
one shape per fill, g = a userSpaceOnUse radial gradient centred on the origin (two radii), t = the residual
gradientTransform that cannot be folded into the circle (squash along x / along y).  The caller's structural checks
(every href resolves in its own document) and picture oracle decide; the number of gradient definitions per document and
the sharing pattern of the fills are compared with the model's and reported as drift."""
import re

from . import build, common
from . import compile_check as CC
from . import scenarios as S
from .common import MachineryError

_R = {"ga": 0.8, "gb": 0.55}
_T = {"tx": "scale(0.25 1)", "ty": "scale(1 0.25)"}


def _interesting(docs):
    """scenarios in which a wrong key or a kept cache is observable"""
    same_g_other_t = any(a["g"] == b["g"] and a["t"] != b["t"] for d in docs for a in d for b in d)
    across = len(docs) > 1 and any(a == b for a in docs[0] for b in docs[1])
    return same_g_other_t, across


def run(chk, judge, n):
    res = common.run_tlc("GradCache", "GradCache.cfg", timeout=900)
    chk.add_tlc(res, "GradCache (<= 2 documents x <= 3 gradient fills over 2 geometries x 2 residual transforms: HrefsClosed, "
                     "SameGradient, DefinedOnce, IdsUnique, termination)")
    if not res.ok:
        chk.tlc_violation(res, "GradCache")
    for cfg, inv in (("GradCache_nokeyxf.cfg", "SameGradient"), ("GradCache_noreset.cfg", "HrefsClosed")):
        neg = common.run_tlc("GradCache", cfg, timeout=600, coverage=False)
        chk.add_tlc(neg, f"{cfg} (expected to violate {inv})")
        if neg.ok:
            raise MachineryError(f"{cfg} holds: {inv} is vacuous")
    recs = res.records
    if len(recs) < 1000:
        raise MachineryError(f"too few GradCache scenarios ({len(recs)})")
    both = [x for x in recs if all(_interesting(x["docs"]))]
    one = [x for x in recs if any(_interesting(x["docs"])) and not all(_interesting(x["docs"]))]
    r0 = common.rng("C02", "gradcache")
    r0.shuffle(both)
    r0.shuffle(one)
    chosen = both[: n // 2] + one[: n - n // 2]
    # the two minimal witnesses of the negative configurations are always replayed
    for x in recs:
        d = x["docs"]
        if len(d) == 1 and len(d[0]) == 2 and d[0][0]["g"] == d[0][1]["g"] and d[0][0]["t"] != d[0][1]["t"] and x not in chosen:
            chosen.append(x)
            break
    for x in recs:
        d = x["docs"]
        if len(d) == 2 and len(d[0]) == 1 and d[0] == d[1] and x not in chosen:
            chosen.append(x)
            break
    drift = 0
    for k, rec in enumerate(chosen):
        r = common.rng("C02", "gradcache", k)
        st = [(0.0, S.PALETTE[1], 1), (0.5, S.PALETTE[3], 1), (1.0, S.PALETTE[2], 1)]
        glyphs, cp, shape_no = [], 0x1F600, 0
        for doc in rec["docs"]:
            layers = []
            for j, f in enumerate(doc):
                fill = S.FillSpec("radial", stops=st, units="userSpaceOnUse", spread="reflect", gt=_T[f["t"]],
                                  geom=(0.0, 0.0, _R[f["g"]]), focal=None, abs_geom=(0, 0, 100, 100))
                # every fill on its own shape class, every glyph on its own classes: no shape is shared, so every glyph is
                # a document of its own and every fill a path of its own
                layers.append(S.LayerSpec(f"poly:{shape_no + 5}", (4, 0, 0, 4, 6 + 3 * j, 5 + 2 * j), fill))
                shape_no += 1
            glyphs.append(((cp,), (0, 0, 100, 100), layers))
            cp += 1
        fmt = "picosvg" if k % 3 else "picosvgz"
        cfgkw = dict(color_format=fmt, keep_glyph_names=True, clip_to_viewbox=False, reuse_tolerance=0.1)
        cfg = build.base_config(**cfgkw)
        srcs = CC.sources_from(glyphs)
        ctx = f"gradient-cache scenario {k} [{fmt}]"
        replay = {"kind": "otsvg-gradient-cache", "model": rec["docs"], "config": {a: str(b) for a, b in cfgkw.items()},
                  "svgs": [s.svg_text for s in srcs], "input_order": [s.filename for s in srcs]}
        chk.case(key=("gradcache", repr(rec["docs"])), nontrivial=any(_interesting(rec["docs"])))
        chk.traces_validated += 1
        try:
            _, font = build.build(cfg, srcs, already_pico=True)
        except Exception as e:
            chk.violation(f"valid sources fail to build ({ctx}): {type(e).__name__}: {str(e)[:200]}", replay)
            continue
        judge(chk, font, cfg, srcs, glyphs, ctx, replay)
        # the model's bookkeeping against the real documents (drift, not a verdict: the picture and the hrefs decide)
        docs = [d.data if hasattr(d, "data") else d[0] for d in font["SVG "].docList]
        got = []
        for text in docs:
            if isinstance(text, bytes):
                import gzip

                text = gzip.decompress(text).decode() if text[:2] == b"\x1f\x8b" else text.decode()
            ids = re.findall(r"<radialGradient[^>]*\bid=\"([^\"]+)\"", text)
            uses = re.findall(r"fill=\"url\(#([^)]+)\)\"", text)
            got.append((len(ids), [uses.index(u) for u in uses]))
        want = [(n_, [h.index(x) for x in h]) for n_, h in zip(rec["ndefs"], rec["href"])]
        if sorted(map(repr, got)) != sorted(map(repr, want)):
            drift += 1
            chk.notes.setdefault("gradcache_drift_samples", []).append({"model": want, "real": got})
    chk.notes["gradcache_drift"] = drift
    if drift:
        print(f"SPEC-DRIFT module=GradCache scenarios={drift} (definitions per document / sharing pattern differ from the model)", flush=True)
