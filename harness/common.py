"""Shared machinery: repo location, TLC driving, evidence, violations, known findings."""
import contextlib
import hashlib
import json
import os
import random
import re
import shutil
import subprocess
import sys
import tempfile
import time
from pathlib import Path

VERIF = Path(__file__).resolve().parent.parent
SPEC = VERIF / "spec"
EVIDENCE = Path(os.environ.get("VERIF_EVIDENCE_DIR", VERIF / "evidence"))
REPLAYS = Path(os.environ.get("VERIF_REPLAY_DIR", VERIF / "replays"))
KNOWN_FINDINGS = VERIF / "known_findings.json"
TLA_JAR = "/opt/veriftools/tla/tla2tools.jar:/opt/veriftools/tla/CommunityModules-deps.jar"


class MachineryError(Exception):
    """Something in the verification machinery itself failed (exit 2, never a VIOLATION)."""


def repo_root() -> Path:
    return Path(os.environ.get("VERIF_REPO", "/repo")).resolve()


def setup_repo_imports():
    """Make `import nanoemoji` resolve to the tree under test (VERIF_REPO or /repo)."""
    src = str(repo_root() / "src")
    if src in sys.path:
        sys.path.remove(src)
    sys.path.insert(0, src)
    os.environ["PYTHONPATH"] = src + os.pathsep + os.environ.get("PYTHONPATH", "")
    if "/venv/bin" not in os.environ.get("PATH", "").split(os.pathsep):
        os.environ["PATH"] = "/venv/bin" + os.pathsep + os.environ.get("PATH", "")
    import nanoemoji  # noqa

    got = Path(nanoemoji.__file__).resolve()
    if not str(got).startswith(src):
        raise MachineryError(f"nanoemoji imported from {got}, expected under {src}")
    init_absl()


_ABSL_DONE = False


def init_absl():
    global _ABSL_DONE
    if _ABSL_DONE:
        return
    from absl import flags

    import nanoemoji.config  # noqa: defines the flags

    try:
        flags.FLAGS(["verif"])
    except flags.Error:
        pass
    from absl import logging as absl_logging

    absl_logging.set_verbosity(absl_logging.FATAL)
    import logging

    logging.getLogger().setLevel(logging.CRITICAL)
    _ABSL_DONE = True


def seed() -> int:
    try:
        return int(os.environ.get("VERIF_SEED", "0"))
    except ValueError:
        return 0


def tier(default="quick") -> str:
    t = os.environ.get("VERIF_TIER", default)
    return t if t in ("quick", "thorough") else default


def rng(*salt) -> random.Random:
    h = hashlib.sha256(("%d|" % seed() + "|".join(map(str, salt))).encode()).digest()
    return random.Random(int.from_bytes(h[:8], "big"))


@contextlib.contextmanager
def scratch(prefix="nev-"):
    d = Path(tempfile.mkdtemp(prefix=prefix, dir=os.environ.get("VERIF_SCRATCH", "/tmp")))
    try:
        yield d
    finally:
        shutil.rmtree(d, ignore_errors=True)


# --------------------------------------------------------------------------- TLC

_STATES_RE = re.compile(r"(\d+) states generated, (\d+) distinct states found, (\d+) states left")
_DEPTH_RE = re.compile(r"The depth of the complete state graph search is (\d+)")
_COV_RE = re.compile(r"^<(\w+) line (\d+), col \d+ to line \d+, col \d+ of module (\w+)>: (\d+):(\d+)")
_INV_RE = re.compile(r"Error: Invariant (\S+) is violated")
_ACTPROP_RE = re.compile(r"Error: Action property (\S+) is violated")


class TLCResult:
    def __init__(self):
        self.generated = 0
        self.distinct = 0
        self.depth = 0
        self.coverage = {}  # action name -> (distinct, total)
        self.violated = None  # name of violated invariant/property
        self.error_trace = []  # raw lines of the counterexample
        self.records = []  # exported VERIF json records
        self.stdout = ""
        self.wall_s = 0.0
        self.ok = False
        self.cmd = ""

    def vacuous_actions(self, ignore=()):
        return sorted(a for a, (d, t) in self.coverage.items() if t == 0 and a not in ignore)


def _parse_exports(text):
    """Exported records are printed as  <<"VERIF", "<json string>">>  (one PrintT per record).
    With several workers lines may interleave; extract by scanning for the marker and
    matching the TLA+ string literal that follows."""
    out = []
    marker = '<<"VERIF", "'
    i = 0
    while True:
        j = text.find(marker, i)
        if j < 0:
            break
        k = j + len(marker)
        buf = []
        while k < len(text):
            ch = text[k]
            if ch == "\\" and k + 1 < len(text):
                nxt = text[k + 1]
                buf.append({"n": "\n", "t": "\t", '"': '"', "\\": "\\"}.get(nxt, nxt))
                k += 2
                continue
            if ch == '"':
                break
            if ch == "\n":  # TLC wraps long values; continuation lines are plain text
                k += 1
                continue
            buf.append(ch)
            k += 1
        s = "".join(buf)
        try:
            out.append(json.loads(s))
        except json.JSONDecodeError as e:
            raise MachineryError(f"cannot parse exported record: {s[:200]!r}: {e}")
        i = k
    return out


def run_tlapm(root, deps=(), timeout=1500):
    """Re-check a TLAPS proof: spec/<root>.tla with the modules it extends, in a scratch copy.
    -> (True | False | None, one-line summary); None = tlapm could not be run to the end."""
    import re as _re

    with scratch("tlapm-") as d:
        for f in (root,) + tuple(deps):
            shutil.copy(SPEC / f"{f}.tla", d / f"{f}.tla")
        for stub in (SPEC / "tlaps_stubs").glob("*.tla"):   # CommunityModules that tlapm does not ship (Export operators only)
            shutil.copy(stub, d / stub.name)
        try:
            p = subprocess.run(["tlapm", "--toolbox", "0", "0", f"{root}.tla"], cwd=str(d), stdout=subprocess.PIPE,
                               stderr=subprocess.STDOUT, text=True, errors="replace", timeout=timeout,
                               env=dict(os.environ, TMPDIR=str(d)))
        except (OSError, subprocess.TimeoutExpired) as e:
            return None, f"tlapm {root}: did not finish: {e}"
        m = _re.search(r"All (\d+) obligations? proved", p.stdout)
        if m:
            return True, f"tlapm {root}: all {m.group(1)} obligations proved"
        m = _re.search(r"(\d+)/(\d+) obligations failed", p.stdout)
        return False, f"tlapm {root}: " + (m.group(0) if m else p.stdout[-300:])


def run_tlc(
    module,
    cfg=None,
    workers=None,
    simulate=None,
    depth=None,
    coverage=True,
    timeout=1800,
    env=None,
    extra=(),
    deadlock=False,
    spec_dir=None,
    dfs=False,
):
    """Run TLC on spec/<module>.tla with spec/<cfg>.  Returns TLCResult.
    Raises MachineryError on a TLC crash/parse error/timeout (never reported as a violation)."""
    spec_dir = Path(spec_dir or SPEC)
    cfg = cfg or (module + ".cfg")
    workers = workers or os.environ.get("VERIF_TLC_WORKERS", "auto")
    res = TLCResult()
    with scratch("tlc-") as meta:
        java_opts = ["-XX:+UseParallelGC", "-Xmx8g", f"-Djava.io.tmpdir={meta}"]   # TLC leaves an empty tlc-<n> directory in java.io.tmpdir
        if dfs:
            java_opts.append("-Dtlc2.tool.queue.IStateQueue=StateDeque")
        cmd = ["java"] + java_opts + ["-cp", TLA_JAR, "tlc2.TLC"]
        cmd += ["-workers", str(workers), "-metadir", str(meta), "-noGenerateSpecTE"]
        cmd += ["-config", str(cfg)]
        if not deadlock:
            cmd += ["-deadlock"]  # this flag DISABLES deadlock checking
        if coverage and not simulate:
            cmd += ["-coverage", "1"]
        if simulate:
            cmd += ["-simulate", simulate]
            if depth:
                cmd += ["-depth", str(depth)]
        cmd += ["-seed", str(seed())] if simulate else []
        cmd += list(extra)
        cmd += [module]
        res.cmd = " ".join(cmd)
        e = dict(os.environ)
        e.update(env or {})
        t0 = time.time()
        try:
            p = subprocess.run(
                cmd, cwd=str(spec_dir), env=e, stdout=subprocess.PIPE, stderr=subprocess.STDOUT,
                timeout=timeout, text=True, errors="replace",
            )
        except subprocess.TimeoutExpired:
            raise MachineryError(f"TLC timed out after {timeout}s: {res.cmd}")
        res.wall_s = time.time() - t0
        out = p.stdout
        res.stdout = out
        for m in _STATES_RE.finditer(out):
            res.generated, res.distinct = int(m.group(1)), int(m.group(2))
        m = _DEPTH_RE.search(out)
        if m:
            res.depth = int(m.group(1))
        for line in out.splitlines():
            m = _COV_RE.match(line)
            if m:
                name = m.group(1)
                d, t = int(m.group(4)), int(m.group(5))
                od, ot = res.coverage.get(name, (0, 0))
                res.coverage[name] = (max(od, d), max(ot, t))
        m = _INV_RE.search(out) or _ACTPROP_RE.search(out)
        if m:
            res.violated = m.group(1)
        elif "Error: Temporal properties were violated" in out:
            res.violated = "TemporalProperty"
        elif "Error: Deadlock reached" in out:
            res.violated = "Deadlock"
        if res.violated:
            idx = out.find("Error:")
            res.error_trace = out[idx:].splitlines()[:400]
        # TLC's workers print exports in a schedule-dependent order: sort them, so that what a check samples from them is
        # a function of VERIF_SEED alone
        res.records = sorted(_parse_exports(out), key=lambda r: json.dumps(r, sort_keys=True))
        finished = "Model checking completed" in out or "Finished in" in out or simulate
        if res.violated is None:
            if p.returncode != 0 or not finished or "Error:" in out:
                tail = "\n".join(out.splitlines()[-40:])
                raise MachineryError(f"TLC failed (rc={p.returncode}) on {module}/{cfg}:\n{tail}")
        res.ok = res.violated is None
    return res


def sany(module, spec_dir=None):
    spec_dir = Path(spec_dir or SPEC)
    p = subprocess.run(
        ["java", "-cp", TLA_JAR, "tla2sany.SANY", module + ".tla"],
        cwd=str(spec_dir), stdout=subprocess.PIPE, stderr=subprocess.STDOUT, text=True, timeout=300,
    )
    ok = p.returncode == 0 and "Semantic errors" not in p.stdout and "***Parse Error***" not in p.stdout \
        and "Fatal errors" not in p.stdout
    return ok, p.stdout


# --------------------------------------------------------------------------- evidence / verdicts


def load_known_findings(pid):
    if not KNOWN_FINDINGS.exists():
        return []
    data = json.loads(KNOWN_FINDINGS.read_text())
    return [f for f in data.get("findings", []) if f.get("property") == pid and f.get("status") == "open"]


class Check:
    """One run of one property's check: collects counts, samples, violations, writes evidence."""

    MAX_REPORTED = 8  # replay files / VIOLATION lines written per run; the rest are only counted

    def __init__(self, pid, level="model_checking"):
        self.pid = pid
        self.level = level
        self.tier = tier()
        self.seed = seed()
        self.t0 = time.time()
        self.states = 0
        self.transitions = 0
        self.traces_validated = 0
        self.evaluations = 0
        self.nontrivial = set()
        self.samples = []
        self.violations = []
        self.violation_count = 0
        self.known_hits = []
        self.notes = {}
        self.assumptions = []
        self.rule = ""
        self.tlc_runs = []
        self.exhaustive = False
        self.known = load_known_findings(pid)

    # --- accounting
    def add_tlc(self, res: TLCResult, label):
        self.states += res.distinct
        self.transitions += res.generated
        self.tlc_runs.append(
            {"label": label, "distinct_states": res.distinct, "states_generated": res.generated,
             "depth": res.depth, "wall_s": round(res.wall_s, 2),
             "coverage": {k: list(v) for k, v in sorted(res.coverage.items())}}
        )

    def sample(self, obj, limit=6):
        if len(self.samples) < limit:
            self.samples.append(obj)

    def case(self, key=None, nontrivial=False):
        self.evaluations += 1
        if nontrivial and key is not None:
            self.nontrivial.add(key if isinstance(key, (str, int, tuple)) else json.dumps(key, sort_keys=True, default=str))

    # --- verdicts
    def tlc_violation(self, res: TLCResult, label):
        """A spec-level violation: the model itself breaks its invariant (with constants that may come
        from the code, B3).  Recorded with TLC's counterexample as the replay."""
        self.violation(f"TLC: {res.violated} violated in {label}", {"tlc_cmd": res.cmd, "trace": res.error_trace})

    def violation(self, what, replay, finding_key=None):
        """Report a violation unless it matches an open known finding (by finding_key)."""
        if finding_key is not None:
            for f in self.known:
                if f.get("key") == finding_key:
                    if f["id"] not in [k["id"] for k in self.known_hits]:
                        self.known_hits.append(f)
                        print(f"KNOWN-FINDING: property={self.pid} {f['what']}", flush=True)
                    return
        self.violation_count += 1
        if self.violation_count > self.MAX_REPORTED:
            return
        REPLAYS.mkdir(exist_ok=True)
        body = json.dumps({"property": self.pid, "what": what, "replay": replay}, indent=1, default=str, sort_keys=True)
        h = hashlib.sha1(body.encode()).hexdigest()[:10]
        path = REPLAYS / f"{self.pid}-{h}.json"
        path.write_text(body)
        self.violations.append({"what": what, "replay": str(path)})
        print(f"VIOLATION property={self.pid} replay={path}", flush=True)
        print(f"  {what}", flush=True)

    def finish(self):
        EVIDENCE.mkdir(exist_ok=True)
        cov = {
            "states": self.states,
            "transitions": self.transitions,
            "traces_validated_against_impl": self.traces_validated,
            "samples": self.samples or ["(no samples recorded)"],
            "evaluations": self.evaluations,
            "distinct_nontrivial": len(self.nontrivial),
            "rule": self.rule,
            "exhaustive": self.exhaustive,
            "tlc_runs": self.tlc_runs,
            "known_findings_reproduced": [f["id"] for f in self.known_hits],
        }
        cov.update(self.notes)
        ev = {
            "property_id": self.pid,
            "tier": self.tier,
            "seed": self.seed,
            "level": self.level,
            "coverage": cov,
            "assumptions": self.assumptions,
            "wall_s": round(time.time() - self.t0, 2),
            "violations": self.violation_count,
        }
        (EVIDENCE / f"{self.pid}.json").write_text(json.dumps(ev, indent=1, default=str))
        # an open known finding that no longer reproduces is worth a note, not an alarm
        for f in self.known:
            if f["id"] not in [k["id"] for k in self.known_hits]:
                print(f"note: known finding {f['id']} did not reproduce in this run", flush=True)
        print(
            f"{self.pid} {self.tier}: states={self.states} transitions={self.transitions} "
            f"impl_traces={self.traces_validated} evaluations={self.evaluations} "
            f"nontrivial={len(self.nontrivial)} violations={self.violation_count} "
            f"wall={ev['wall_s']}s", flush=True,
        )
        return 1 if self.violations else 0
