"""C07: every emitted font is structurally valid for its consumers.

Models: OTSVG.tla (DocRanges, HrefsClosed, NoCrossGlyphRef, PlacedOnce), Bitmap.tla (StrikesPartition),
GlyphSet.tla (Skeleton) are model-checked; then the validator (harness/validate_font.py: full decompile, re-save,
COLR record order / references from the raw bytes, SVG ranges / ids / hrefs / cross-glyph references, CBLC runs, glyph
set agreement, post format) is applied to the bytes of fonts built in all 13 colour formats x .ttf/.otf x
keep_glyph_names over multi-glyph scenarios (sharing, sequences, gaps) and to fonts written by maximum_color."""
import io
import json

from . import build, c04, cli, common, compile_check as CC, scenarios as S, validate_font
from .common import MachineryError

FORMATS = c04.FORMATS


def build_bytes(fmt, glyphs, keep, r, reuse=0.1):
    cfgkw = dict(color_format=fmt, keep_glyph_names=keep, clip_to_viewbox=False, reuse_tolerance=reuse, bitmap_resolution=48)
    cfg = build.base_config(**cfgkw)
    raw = fmt.startswith("untouched")
    bitmap = fmt in ("cbdt", "sbix")
    srcs = []
    for k, (cps, vb, specs) in enumerate(glyphs):
        text = S.svg_document(specs, vb)
        if not raw and not bitmap:
            text = build.to_picosvg(text).tostring()
        srcs.append(build.Src(S.filename_for(cps), text, c04.png_for(k, 48, vb) if bitmap else None))
    _, font = build.build(cfg, srcs, already_pico=not raw and not bitmap, reload=False)
    return build.font_bytes(font), cfgkw, srcs


def run(chk):
    quick = chk.tier == "quick"
    chk.rule = (
        "OTSVG.tla / Bitmap.tla / GlyphSet.tla structural invariants model-checked; validator applied to fonts built "
        "in all 13 formats (cff* as .otf) x keep_glyph_names x random multi-glyph scenarios with shared shapes and "
        "multi-codepoint sequences, plus two maximum_color outputs.  Non-trivial = >= 2 colour glyphs; distinct by "
        "(format, names, scenario)."
    )
    for mod, cfg in (("OTSVG", "OTSVG_small.cfg"), ("Bitmap", "Bitmap.cfg"), ("GlyphSet", "GlyphSet_small.cfg")):
        res = common.run_tlc(mod, cfg, timeout=1800, coverage=False)
        chk.add_tlc(res, f"{mod} (structural invariants)")
        if not res.ok:
            chk.tlc_violation(res, mod)
    n_sc = 3 if quick else 40
    total = 0
    for k in range(n_sc):
        r = common.rng("C07", k)
        glyphs = S.random_scenario(r, n_glyphs=r.randrange(2, 6), reuse_bias=0.6, allow_special=False)
        # distinct codepoint sequences for up to 6 glyphs
        glyphs = [(S.CODEPOINTS[i], vb, specs) for i, (_, vb, specs) in enumerate(glyphs)]
        for fi, fmt in enumerate(FORMATS):
            for keep in ((True, False) if (not quick or (fi + k) % 2 == 0) else (bool((fi + k) % 4 == 1),)):
                replay = {"format": fmt, "keep_glyph_names": keep, "scenario_seed": [chk.seed, k]}
                chk.case(key=(fmt, keep, k), nontrivial=len(glyphs) >= 2)
                chk.traces_validated += 1
                total += 1
                try:
                    data, cfgkw, srcs = build_bytes(fmt, glyphs, keep, r)
                except Exception as e:
                    chk.violation(f"{fmt}: valid sources fail to build: {type(e).__name__}: {str(e)[:160]}", replay)
                    continue
                names_expected = keep or ("picosvg" in fmt)   # picosvg builds keep names by design until the end
                expect = None if "svg" in fmt else keep
                for p in validate_font.validate(data, expect_names=expect, ctx=f"{fmt} keep={keep}: "):
                    chk.violation(p, dict(replay, svgs=[s.svg_text for s in srcs][:4]))
    # OT-SVG documents depend on glyph NAMES (grouping, sorted order, ids) as well as on sharing: sequences that are
    # prefixes of one another (keycap vs its base, a person vs a family), names that sort differently from the input
    # order, letters, in every input order, with shapes shared across glyphs
    pool = [(0x23,), (0x23, 0x20E3), (0x1F468,), (0x1F468, 0x200D, 0x1F469), (0x1F469,), (0x2764,), (0x2764, 0xFE0F),
            (0x61,), (0x61, 0x62), (0x1F600,), (0x1F1E6, 0x1F1E7), (0x1F1E6,), (0x39, 0x20E3)]
    for k in range(40 if quick else 800):
        r = common.rng("C07", "names", k)
        n = r.randrange(2, 6)
        cps = r.sample(pool, n)
        if k % 2 == 0:   # make sure a prefix pair is present, longer name first or second
            pair = r.choice([((0x23, 0x20E3), (0x23,)), ((0x1F468, 0x200D, 0x1F469), (0x1F468,)), ((0x61, 0x62), (0x61,)), ((0x2764, 0xFE0F), (0x2764,))])
            cps = [c for c in cps if c not in pair][: n - 2]
            pair = list(pair)
            if k % 4 == 0:
                pair.reverse()
            cps = pair + cps
            if k % 8 >= 4:
                r.shuffle(cps)
        glyphs = S.random_scenario(r, n_glyphs=len(cps), reuse_bias=0.8, allow_special=False)
        glyphs = [(cps[i], vb, specs) for i, (_, vb, specs) in enumerate(glyphs)]
        if k % 2 == 0 and len(glyphs) >= 2:
            # the pair shares a shape for certain: the second glyph of the pair (in input order) carries a translated copy
            # of the first glyph's first shape
            (c0, vb0, s0), (c1, vb1, s1) = glyphs[0], glyphs[1]
            L = s0[0]
            copy = S.LayerSpec(L.cls, (L.place[0], L.place[1], L.place[2], L.place[3], L.place[4] * 0.6 + 15, L.place[5] * 0.6 + 20),
                               S.FillSpec("solid", color=S.PALETTE[k % len(S.PALETTE)], index=None), 1.0)
            glyphs[1] = (c1, vb0, list(s1) + [copy])
        fmt = "picosvg" if k % 3 else "picosvgz"
        replay = {"format": fmt, "family": "names", "codepoints": [list(c) for c in cps], "scenario_seed": [chk.seed, k]}
        chk.case(key=("names", k), nontrivial=True)
        chk.traces_validated += 1
        total += 1
        try:
            data, cfgkw, srcs = build_bytes(fmt, glyphs, k % 2 == 0, r)
        except Exception as e:
            chk.violation(f"{fmt}: valid sources fail to build: {type(e).__name__}: {str(e)[:160]}", replay)
            continue
        for p in validate_font.validate(data, expect_names=None, ctx=f"{fmt} names {k}: "):
            chk.violation(p, dict(replay, svgs=[s.svg_text for s in srcs][:4]))
    # identical gradients in several documents (ids are per document: a reference must resolve inside its own document)
    for k in range(8 if quick else 150):
        r = common.rng("C07", "sharedgrad", k)
        glyphs = S.shared_gradient_docs_scenario(r)
        fmt = "picosvg" if k % 2 else "picosvgz"
        replay = {"format": fmt, "family": "shared gradients", "scenario_seed": [chk.seed, k]}
        chk.case(key=("sharedgrad", k), nontrivial=True)
        chk.traces_validated += 1
        total += 1
        try:
            data, cfgkw, srcs = build_bytes(fmt, glyphs, k % 2 == 0, r)
        except Exception as e:
            chk.violation(f"{fmt}: valid sources fail to build: {type(e).__name__}: {str(e)[:160]}", replay)
            continue
        for p in validate_font.validate(data, expect_names=None, ctx=f"{fmt} shared gradients {k}: "):
            chk.violation(p, dict(replay, svgs=[s.svg_text for s in srcs][:4]))
    # colour glyph ids with gaps: a coloured .notdef (gid 0) skips over .space (gid 1); bitmap strikes must be split into
    # runs and still carry every glyph
    for k, fmt in enumerate(["cbdt", "sbix", "glyf_colr_1", "picosvg", "cbdt"] if quick else FORMATS):
        r = common.rng("C07", "gaps", k)
        n = 3 + k % 3
        bitmap = fmt in ("cbdt", "sbix")
        cfg = build.base_config(color_format=fmt, keep_glyph_names=True, clip_to_viewbox=False, bitmap_resolution=48)
        srcs = []
        vb = (0, 0, 100, 100)
        for i in range(n):
            text = c04.svg_for(i, vb)
            if i == 0:
                srcs.append(build.Src("notdef.svg", text, c04.png_for(i, 48, vb) if bitmap else None, cps=(), glyph_name=".notdef"))
            else:
                srcs.append(build.Src(S.filename_for(S.CODEPOINTS[i - 1]), text, c04.png_for(i, 48, vb) if bitmap else None))
        replay = {"format": fmt, "family": "gid gaps", "glyphs": [s.glyph_name for s in srcs]}
        chk.case(key=("gaps", fmt, n), nontrivial=True)
        chk.traces_validated += 1
        total += 1
        try:
            _, font = build.build(cfg, srcs, reload=False, fea=False)
            data = build.font_bytes(font)
        except Exception as e:
            chk.violation(f"{fmt}: a coloured .notdef plus {n - 1} sources fail to build: {type(e).__name__}: {str(e)[:160]}", replay)
            continue
        from fontTools.ttLib import TTFont
        import io as _io

        order = TTFont(_io.BytesIO(data)).getGlyphOrder()
        gids = [order.index(s.glyph_name) for s in srcs if s.glyph_name in order]
        for p in validate_font.validate(data, expect_names=None if "svg" in fmt else True, ctx=f"{fmt} gid-gaps: ",
                                        bitmap_gids=gids if bitmap else None):
            chk.violation(p, replay)
    # a glyph map (hand-written, or from a custom generator) in which an UNMAPPED row repeats another row's glyph name: the
    # build must refuse it, or else write a font that is still valid (one SVG range / one bitmap per glyph)
    refused = 0
    for k, fmt in enumerate(["untouchedsvg", "cbdt", "picosvg", "glyf_colr_1"] if quick else FORMATS):
        bitmap = fmt in ("cbdt", "sbix")
        cfg = build.base_config(color_format=fmt, keep_glyph_names=True, clip_to_viewbox=False, bitmap_resolution=48)
        vb = (0, 0, 100, 100)
        srcs = [build.Src(S.filename_for(S.CODEPOINTS[i]), c04.svg_for(i, vb), c04.png_for(i, 48, vb) if bitmap else None) for i in range(2)]
        dup = build.Src("extra.svg", c04.svg_for(5, vb), c04.png_for(5, 48, vb) if bitmap else None, cps=(), glyph_name=srcs[k % 2].glyph_name)
        srcs = srcs + [dup] if k % 2 == 0 else [srcs[0], dup, srcs[1]]
        replay = {"format": fmt, "family": "unmapped row repeating a glyph name", "glyphs": [s2.glyph_name for s2 in srcs]}
        chk.case(key=("dupname-unmapped", fmt), nontrivial=True)
        chk.traces_validated += 1
        total += 1
        try:
            _, font = build.build(cfg, srcs, reload=False, fea=False)
            data = build.font_bytes(font)
        except Exception:
            refused += 1
            continue
        for p in validate_font.validate(data, expect_names=None if "svg" in fmt else True,
                                        ctx=f"{fmt}, an unmapped row repeating the glyph name {dup.glyph_name}: "):
            chk.violation(p, replay)
    chk.notes["duplicate_name_rows_refused"] = refused
    chk.notes["fonts_validated_inprocess"] = total
    chk.sample({"formats": FORMATS, "scenarios": n_sc})
    # maximum_color outputs
    from . import c12

    with common.scratch("c07-") as work:
        for k, (fmt, flags) in enumerate([("glyf_colr_1", []), ("picosvg", ["--bitmaps"])] if quick else
                                         [("glyf_colr_1", []), ("picosvg", ["--bitmaps"]), ("glyf_colr_0", ["--keep_glyph_names"]),
                                          ("glyf_colr_1", ["--bitmaps", "--keep_glyph_names"]), ("picosvg", ["--colr_version", "0"])]):
            out = c12.run_maximum_color(work / f"mc{k}", fmt, flags, common.rng("C07", "mc", k))
            chk.case(key=("maximum_color", fmt, tuple(flags)), nontrivial=True)
            chk.traces_validated += 1
            if out["rc"] != 0:
                chk.violation(f"maximum_color {flags} on a {fmt} font fails: {out['log'][-300:]}", {"format": fmt, "flags": flags})
                continue
            for p in validate_font.validate(out["bytes"], expect_names=("--keep_glyph_names" in flags),
                                            ctx=f"maximum_color({fmt},{' '.join(flags)}): "):
                chk.violation(p, {"format": fmt, "flags": flags})
        # maximum_color --bitmaps on fonts whose colour glyph ids form several runs (a coloured .notdef at gid 0, the blank
        # .space at gid 1, the other colour glyphs from gid 2): one CBLC strike per run, every colour glyph with exactly
        # one bitmap
        from fontTools.ttLib import TTFont as _TT

        for k, fmt in enumerate(["picosvg", "glyf_colr_1", "cff_colr_1"] if quick else ["picosvg", "glyf_colr_1", "cff_colr_1", "glyf_colr_0", "untouchedsvg", "cff2_colr_1"]):
            r2 = common.rng("C07", "mc-gaps", k)
            n = 3 + k % 3
            cfg = build.base_config(color_format=fmt, keep_glyph_names=True, clip_to_viewbox=False)
            vb = (0, 0, 100, 100)
            srcs = [build.Src("notdef.svg", c04.svg_for(0, vb), None, cps=(), glyph_name=".notdef")]
            srcs += [build.Src(S.filename_for(S.CODEPOINTS[i - 1]), c04.svg_for(i, vb), None) for i in range(1, n)]
            flags = ["--bitmaps"] + (["--keep_glyph_names"] if k % 2 else [])
            replay = {"kind": "maximum_color --bitmaps on a font with a coloured .notdef", "format": fmt, "flags": flags,
                      "glyphs": [s2.glyph_name for s2 in srcs]}
            chk.case(key=("maximum_color-gaps", fmt, tuple(flags)), nontrivial=True)
            chk.traces_validated += 1
            try:
                _, font = build.build(cfg, srcs, reload=False, fea=False)
                data = build.font_bytes(font)
            except Exception as e:
                raise MachineryError(f"input font for maximum_color (coloured .notdef, {fmt}) does not build: {e}")
            out = c12.run_maximum_color(work / f"mcg{k}", fmt, flags, r2, font_bytes=data)
            if out["rc"] != 0:
                chk.violation(f"maximum_color {flags} on a {fmt} font with a coloured .notdef fails: {out['log'][-300:]}", replay)
                continue
            of = _TT(_io.BytesIO(out["bytes"]), lazy=False)
            order = of.getGlyphOrder()
            colour = set()
            if "COLR" in of:
                colr = of["COLR"]
                if getattr(colr, "version", 0) == 0:
                    colour |= set(colr.ColorLayers)
                else:
                    colour |= {rec.BaseGlyph for rec in colr.table.BaseGlyphList.BaseGlyphPaintRecord}
                    if colr.table.BaseGlyphRecordArray:
                        colour |= {rec.BaseGlyph for rec in colr.table.BaseGlyphRecordArray.BaseGlyphRecord}
            gids = sorted(order.index(g) for g in colour)
            if len(gids) < n:
                chk.violation(f"maximum_color {flags}: only {len(gids)} of {n} colour glyphs have COLR records", replay)
            runs = 1 + sum(1 for a2, b2 in zip(gids, gids[1:]) if b2 != a2 + 1)
            chk.notes["maximum_color_gap_runs"] = max(chk.notes.get("maximum_color_gap_runs", 0), runs)
            for p in validate_font.validate(out["bytes"], expect_names=("--keep_glyph_names" in flags),
                                            ctx=f"maximum_color({fmt}, {' '.join(flags)}) with a coloured .notdef: ", bitmap_gids=gids):
                chk.violation(p, replay)
        if chk.notes.get("maximum_color_gap_runs", 0) < 2:
            raise MachineryError("no maximum_color output has colour glyph ids in more than one run (family is vacuous)")
    chk.assumptions += ["fontTools decompilation is the reference reader; orderings it hides are read from raw bytes"]


def replay(path):
    print(open(path).read()[:8000])
    return 0
