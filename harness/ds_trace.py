"""B2 for DisjointSet.tla: record the union-find calls of real OT-SVG builds and validate them with TLC."""
import json
import re

from . import common

MAX_ELEMS = 16


class Recorder:
    """Replaces nanoemoji.svg.DisjointSet by a recording subclass while active (harness side; /repo is untouched)."""

    def __init__(self):
        self.traces = []

    def __enter__(self):
        common.setup_repo_imports()
        from nanoemoji import svg as nsvg
        from nanoemoji.disjoint_set import DisjointSet

        outer = self

        class Rec(DisjointSet):
            def __init__(self_):
                super().__init__()
                self_._ev, self_._ids, self_._depth = [], {}, 0
                outer.traces.append(self_._ev)

            def _id(self_, e):
                return self_._ids.setdefault(e, len(self_._ids) + 1)

            def make_set(self_, e):
                if self_._depth == 0:
                    self_._ev.append({"op": "make", "x": self_._id(e), "y": 0})
                self_._depth += 1
                try:
                    return super().make_set(e)
                finally:
                    self_._depth -= 1

            def find(self_, e):
                self_._depth += 1
                try:
                    return super().find(e)
                finally:
                    self_._depth -= 1

            def union(self_, x, y):
                if self_._depth == 0:
                    self_._ev.append({"op": "union", "x": self_._id(x), "y": self_._id(y)})
                self_._depth += 1
                try:
                    return super().union(x, y)
                finally:
                    self_._depth -= 1

            def sorted(self_):
                self_._depth += 1
                try:
                    res = super().sorted()
                finally:
                    self_._depth -= 1
                self_._ev.append({"op": "sets", "x": 0, "y": 0, "sets": [[self_._id(e) for e in s] for s in res]})
                return res

        class _Generic:
            # the code writes DisjointSet[str]()
            def __getitem__(self_, _):
                return Rec

            def __call__(self_):
                return Rec()

        self._nsvg, self._old = nsvg, nsvg.DisjointSet
        nsvg.DisjointSet = _Generic()
        return self

    def __exit__(self, *a):
        self._nsvg.DisjointSet = self._old


def validate(chk, traces):
    """-> list of problems (strings).  Traces with more than MAX_ELEMS elements are skipped (counted)."""
    usable = [t for t in traces if t and max([e["x"] for e in t] + [e["y"] for e in t]) <= MAX_ELEMS and any(e["op"] == "sets" for e in t)]
    # sets: TLC needs homogeneous records
    norm = [[{"op": e["op"], "x": e["x"], "y": e["y"], "sets": e.get("sets", [])} for e in t] for t in usable]
    if not norm:
        return [], 0
    with common.scratch("dstrace-") as d:
        f = d / "traces.json"
        f.write_text(json.dumps(norm))
        res = common.run_tlc("DisjointSetTrace", "DisjointSetTrace.cfg", env={"TRACE_FILE": str(f)}, timeout=1200,
                             coverage=False, workers=4)
    chk.add_tlc(res, f"DisjointSetTrace: {len(norm)} recorded groupings of real OT-SVG builds")
    acc = {int(x) for x in re.findall(r'<<"ACCEPT", (\d+)>>', res.stdout)}
    rej = {int(a): (int(b), c) for a, b, c in re.findall(r'<<"REJECT", (\d+), (\d+), "([^"]*)">>', res.stdout)}
    if not res.ok:
        raise common.MachineryError("DisjointSetTrace: TLC reports an error:\n" + res.stdout[-1200:])
    problems = []
    for tid in range(1, len(norm) + 1):
        if tid in acc:
            continue
        where = rej.get(tid)
        if where is None:
            raise common.MachineryError(f"DisjointSetTrace: no verdict for trace {tid}")
        problems.append((norm[tid - 1], f"recorded grouping rejected at event {where[0]} ({where[1]}): "
                                        f"{json.dumps(norm[tid - 1][max(0, where[0] - 3):where[0]])}"))
    unions = sum(1 for t in norm for e in t if e["op"] == "union")
    chk.notes["disjoint_set_traces"] = {"validated": len(norm), "skipped_too_large": len(traces) - len(usable),
                                        "union_events": unions, "rejected": len(problems)}
    chk.traces_validated += len(norm)
    return problems, unions
