"""Layer-by-layer comparison of an expected layer list (SVG side / ground truth) with a produced one (COLR / OT-SVG /
glyf), by point sampling.  Tolerances are functions of the scenario, never of the artefact under test."""
import math

from . import oracle_colr, oracle_geom as OG

EPS_C = 2.5  # colour channels, of 255
EPS_A = 2.5 / 255 + 2 ** -13


class Produced:
    """One produced layer: clip shapes (all must contain the point), a fill with .at(p), group alphas."""

    def __init__(self, shapes, fill, groups):
        self.shapes = shapes
        self.fill = fill
        self.groups = groups

    def inside(self, p):
        return all(s.inside(p) for s in self.shapes)


def colr_layers(font, glyph_name, shape_cache=None):
    """Flatten the COLR (v0 or v1) paint of a glyph into Produced layers with real outlines."""
    shape_cache = shape_cache if shape_cache is not None else {}
    colr = font["COLR"]
    raw = oracle_colr.flatten_v0(font, glyph_name) if colr.version == 0 else oracle_colr.flatten_v1(font, glyph_name)
    out = []
    for L in raw:
        shapes = []
        for gname, m in L.clips:
            if gname not in shape_cache:
                shape_cache[gname] = OG.glyph_shape(font, gname)
            shapes.append(shape_cache[gname].transformed(m))
        out.append(Produced(shapes, L.fill, L.groups))
    return out


def _canon_groups(seq_of_groups):
    """Rename group ids by first appearance so structures can be compared."""
    ren, out = {}, []
    for groups in seq_of_groups:
        row = []
        for gid, alpha in groups:
            if gid not in ren:
                ren[gid] = len(ren)
            row.append((ren[gid], alpha))
        out.append(tuple(row))
    return out


def _col_diff(a, b):
    """max channel difference (0..255 scale) between two colours; foreground colours compare by alpha only."""
    if a is None or b is None:
        return 0.0 if a is b else 255.0
    fa, fb = a[0] == "fg", b[0] == "fg"
    if fa or fb:
        if fa != fb:
            return 255.0
        return abs(a[1] - b[1]) * 255.0
    d = max(abs(a[i] - b[i]) for i in range(3))
    return max(d, abs(a[3] - b[3]) * 255.0)


class _Faded:
    """a fill seen through an opacity factor"""

    def __init__(self, fill, alpha):
        self.fill, self.alpha, self.kind = fill, alpha, fill.kind

    def at(self, p):
        c = self.fill.at(p)
        if c is None:
            return None
        if c[0] == "fg":
            return ("fg", c[1] * self.alpha)
        return (c[0], c[1], c[2], c[3] * self.alpha)


def fold_singleton_groups(layers):
    """Group opacity over exactly one layer IS that layer's opacity (SRC_OVER of a single source): fold such groups into
    the fill so that <g opacity=a><path/></g> and <path opacity=a/> compare equal.  Works on copies."""
    import copy

    count = {}
    for L in layers:
        for gid, _a in L.groups:
            count[gid] = count.get(gid, 0) + 1
    out = []
    for L in layers:
        keep, alpha = [], 1.0
        for gid, a in L.groups:
            if count[gid] == 1:
                alpha *= a
            else:
                keep.append((gid, a))
        if alpha != 1.0 or len(keep) != len(L.groups):
            L2 = copy.copy(L)
            L2.groups = tuple(keep)
            L2.fill = _Faded(L.fill, alpha) if alpha != 1.0 else L.fill
            out.append(L2)
        else:
            out.append(L)
    return out


ROUNDING_DOMINATED = [0]  # layers in which some sample point was accepted only through _rounding_allowance


def _rounding_allowance(fill, p, cp):
    """Largest colour change at p when the stored integer coordinates of a gradient move by up to half a unit each
    (what rounding the exact geometry to OpenType's int16 fields can do).  All sign combinations, at half and full
    magnitude so that a repeat/reflect seam inside the range is seen."""
    import itertools

    if getattr(fill, "kind", "solid") == "solid" or not hasattr(fill, "stops"):
        return 0.0
    if not hasattr(fill, "p0" if fill.kind == "linear" else "c0"):
        return 0.0  # not a COLR fill (OT-SVG documents keep decimals)
    if fill.kind == "linear":
        names = [("p0", 0), ("p0", 1), ("p1", 0), ("p1", 1), ("p2", 0), ("p2", 1)]
    else:
        names = [("c0", 0), ("c0", 1), ("c1", 0), ("c1", 1), ("r1", None)] + ([("r0", None)] if fill.r0 else [])
    saved = {n: getattr(fill, n) for n, _ in names}
    worst = 0.0
    try:
        for mag in (0.25, 0.5):
            for signs in itertools.product((-1, 1), repeat=len(names)):
                vals = {n: (list(v) if isinstance(v, (tuple, list)) else v) for n, v in saved.items()}
                for (n, i), sg in zip(names, signs):
                    if i is None:
                        vals[n] = vals[n] + sg * mag
                    else:
                        vals[n][i] = vals[n][i] + sg * mag
                for n, v in vals.items():
                    setattr(fill, n, tuple(v) if isinstance(v, list) else v)
                c = fill.at(p)
                if c is not None:
                    worst = max(worst, _col_diff(cp, c))
    finally:
        for n, v in saved.items():
            setattr(fill, n, v)
    return worst


def compare(expected, produced, delta, grid=20, bounds=None, ctx=""):
    """expected: [oracle_svg.SvgLayer]; produced: [Produced].  delta: geometric tolerance in font units, may be a
    list (one per expected layer).  Returns list of problem strings (empty = same picture)."""
    problems = []
    if len(expected) != len(produced):
        return [f"{ctx}layer count: expected {len(expected)}, produced {len(produced)}"]
    expected, produced = fold_singleton_groups(expected), fold_singleton_groups(produced)
    eg = _canon_groups([L.groups for L in expected])
    pg = _canon_groups([L.groups for L in produced])
    for i, (a, b) in enumerate(zip(eg, pg)):
        if len(a) != len(b) or any(x[0] != y[0] or abs(x[1] - y[1]) > EPS_A for x, y in zip(a, b)):
            problems.append(f"{ctx}layer {i}: opacity-group structure differs: expected {a}, produced {b}")
    if problems:
        return problems
    for i, (E, P) in enumerate(zip(expected, produced)):
        d = delta[i] if isinstance(delta, (list, tuple)) else delta
        eb = E.shape.bounds
        if eb is None:
            if any(s.bounds is not None and s.area() > d * d for s in P.shapes):
                problems.append(f"{ctx}layer {i}: expected empty outline, produced one")
            continue
        pts = OG.sample_points(eb, grid, margin=0.25)
        # plus points just inside/outside the expected outline's vertices' neighbourhood
        judged = geo_bad = col_bad = rounding_dominated = 0
        worst = 0.0
        for p in pts:
            if E.shape.dist_to_edge(p) <= d:
                continue
            judged += 1
            ie, ip = E.shape.inside(p), P.inside(p)
            if ie != ip:
                geo_bad += 1
                continue
            if ie:
                ce = E.fill.at(p)
                cp = P.fill.at(p)
                if ce is None and cp is None:
                    continue
                # local variation of the expected fill over a delta-ball bounds the tolerable colour shift
                var = 0.0
                if E.fill.kind != "solid" and ce is not None:
                    for k in range(8):
                        dx, dy = 2 * d * math.cos(k * math.pi / 4), 2 * d * math.sin(k * math.pi / 4)
                        cn = E.fill.at((p[0] + dx, p[1] + dy))
                        var = max(var, _col_diff(ce, cn))
                        cn = E.fill.at((p[0] + dx / 2, p[1] + dy / 2))
                        var = max(var, _col_diff(ce, cn))
                diff = _col_diff(ce, cp)
                if diff > EPS_C + var and cp is not None:
                    # OpenType stores the gradient's points and radii as integers: how far can that alone move the
                    # colour here?  (large only for a small gradient extrapolated over many periods)
                    q = _rounding_allowance(P.fill, p, cp)
                    if q > 0 and diff <= EPS_C + var + q:
                        rounding_dominated += 1
                        continue
                if diff > EPS_C + var:
                    col_bad += 1
                    worst = max(worst, diff)
        if judged < 0.3 * len(pts):
            problems.append(f"{ctx}layer {i}: too small to judge ({judged}/{len(pts)} points usable)")
            continue
        if geo_bad > max(1, 0.01 * judged):
            problems.append(f"{ctx}layer {i}: outline differs at {geo_bad}/{judged} sample points (delta={d:.2f})")
        # a genuine fill error moves the colour over the whole layer; isolated points sit on gradient discontinuities
        # (repeat/reflect seams, the focal edge) that integer rounding of the geometry shifts by a fraction of a unit
        if rounding_dominated:
            ROUNDING_DOMINATED[0] += 1
        if col_bad > max(2, 0.05 * judged):
            problems.append(f"{ctx}layer {i}: colour differs at {col_bad}/{judged} sample points (worst {worst:.1f}/255)")
    return problems
