"""C05: a COLRv1 clip box never cuts painted content.

ClipBox.tla (union -> otRound -> outward quantisation, exact rationals on both sides of every rounding / quantisation
boundary) is model-checked for Contains / Multiples / Tight / NoBoxIffNoLayers; every terminal state is replayed into
the real write_font._quantize_bounding_rect + otRound pipeline; real COLRv1 fonts built from Compile.tla scenarios and
random scenarios (rotated / reflected / scaled reuse, user transforms, content outside the viewBox, several
quantisation steps and upems) are read back: ClipList boxes against bounds recomputed independently from the compiled
outlines through the paint graph, and against the source shapes placed in font space."""
import json
import math

from . import build, common, compile_check as CC, oracle_cmp, oracle_colr, oracle_geom as OG, oracle_svg, scenarios as S, shaper
from .common import MachineryError


def replay_clipbox_model(chk, records):
    from fontTools.misc.roundTools import otRound
    from nanoemoji import write_font

    for n, rec in enumerate(records):
        q = rec["q"]
        if not rec["layers"]:
            continue
        xs0 = min(L["x0"]["n"] / L["x0"]["d"] for L in rec["layers"])
        ys0 = min(L["y0"]["n"] / L["y0"]["d"] for L in rec["layers"])
        xs1 = max(L["x1"]["n"] / L["x1"]["d"] for L in rec["layers"])
        ys1 = max(L["y1"]["n"] / L["y1"]["d"] for L in rec["layers"])
        b = tuple(otRound(v) for v in (xs0, ys0, xs1, ys1))
        got = write_font._quantize_bounding_rect(*b, factor=q) if q > 1 else b
        chk.case(key=("clipmodel", n), nontrivial=q > 1)
        if list(got) != list(rec["box"]):
            # judge by the property, the model only says which box the documented algorithm gives
            cut = [xs0 - got[0], ys0 - got[1], got[2] - xs1, got[3] - ys1]
            replay = {"kind": "quantize", "bounds": [xs0, ys0, xs1, ys1], "q": q, "got": list(got), "model": rec["box"]}
            if min(cut) < -0.5 - 1e-9:
                chk.violation(f"quantised box {got} cuts {-min(cut):.2f} units off bounds {(xs0, ys0, xs1, ys1)} (q={q})", replay)
            elif q > 1 and any(v % q for v in got):
                chk.violation(f"quantised box {got} is not on multiples of {q}", replay)
            else:
                chk.notes["clip_model_drift"] = chk.notes.get("clip_model_drift", 0) + 1


def clip_boxes(font):
    cl = font["COLR"].table.ClipList
    if not cl:
        return {}
    return {g: (c.xMin, c.yMin, c.xMax, c.yMax) for g, c in cl.clips.items()}


def check_font(chk, font, cfg, srcs, glyphs, tol, q, ctx, replay):
    clips = clip_boxes(font)
    oc = CC.oracle_cfg(cfg)
    deltas = CC.layer_deltas(glyphs, cfg, tol) if glyphs else None
    cache = {}
    for gi, src in enumerate(srcs):
        reached = shaper.shape(font, src.cps)
        if not reached or len(reached) != 1:
            continue
        g = reached[0]
        layers = oracle_cmp.colr_layers(font, g, cache)
        box = clips.get(g)
        if not layers:
            if box is not None:
                chk.violation(f"{ctx}: glyph {g} paints nothing but has clip box {box}", replay)
            continue
        if box is None:
            chk.violation(f"{ctx}: glyph {g} paints {len(layers)} layers but has no clip box", replay)
            continue
        if any(v % q for v in box):
            chk.violation(f"{ctx}: clip box {box} of {g} is not on multiples of the quantisation step {q}", replay)
        # (1) compiled outlines through the paint graph: rounding error (0.5 unit in the outline's own space) scaled
        #     by the transform that places it
        raw = oracle_colr.flatten_v1(font, g)
        for li, (L, R) in enumerate(zip(layers, raw)):
            for shape, (gname, m) in zip(L.shapes, R.clips):
                if shape.bounds is None:
                    continue
                stretch = CC._sigma_max(m)
                slack = 1.0 + 1.0 * stretch
                b = shape.bounds
                cut = max(box[0] - b[0], box[1] - b[1], b[2] - box[2], b[3] - box[3])
                if cut > slack:
                    chk.violation(f"{ctx}: layer {li} of {g} (outline {gname} placed with stretch {stretch:.2f}) protrudes "
                                  f"{cut:.1f} units beyond clip box {box}", replay)
        # (2) the source shapes as placed in font space
        exp, adv, A = oracle_svg.expected_layers(src.svg_text, oc)
        for li, E in enumerate(exp):
            if E.shape.bounds is None:
                continue
            b = E.shape.bounds
            d = deltas[gi][li] if deltas and li < len(deltas[gi]) else 3.5
            cut = max(box[0] - b[0], box[1] - b[1], b[2] - box[2], b[3] - box[3])
            if cut > d:
                chk.violation(f"{ctx}: source shape {li} of glyph {gi} extends {cut:.1f} units beyond clip box {box} "
                              f"(tolerance {d:.1f})", replay)


def cli_steps(chk, quick):
    """The CONFIGURED step is what the worker quantises with: the step given as a flag and in a TOML file must be the
    grid of the ClipList of the font the real CLI writes (driver -> resolved TOML -> write_font)."""
    import io
    import shutil

    from fontTools.ttLib import TTFont

    from . import cli

    cases = [("flag", 32, 1024), ("file", 48, 2048)] + ([] if quick else [("flag", 7, 1000), ("file", 1, 1024)])
    with common.scratch("c05-cli-") as work:
        for k, (how, step, upem) in enumerate(cases):
            sb = cli.Sandbox(work / f"s{k}")
            sb.write("src/emoji_u1f600.svg", cli.SVG_A)
            sb.write("src/emoji_u1f601.svg", cli.SVG_C)
            flags = ["--color_format", "glyf_colr_1", "--upem", str(upem)]
            if how == "flag":
                args = flags + [f"--clipbox_quantization={step}", "src/emoji_u1f600.svg", "src/emoji_u1f601.svg"]
            else:
                sb.write("font.toml", f'clipbox_quantization = {step}\n[axis.wght]\nname = "Weight"\ndefault = 400\n[master.regular]\n'
                                      f'style_name = "Regular"\nsrcs = ["src/*.svg"]\n[master.regular.position]\nwght = 400\n')
                args = flags + ["font.toml"]
            rc, out = sb.run(args)
            chk.case(key=("cli-step", how, step, upem), nontrivial=True)
            chk.traces_validated += 1
            replay = {"how": how, "step": step, "upem": upem, "args": args}
            if rc != 0:
                chk.violation(f"CLI build with clipbox_quantization={step} ({how}) fails: {out[-300:]}", replay)
                continue
            outs = [p for p in sb.build.glob("*.ttf")]
            font = TTFont(io.BytesIO(outs[0].read_bytes()))
            cl = font["COLR"].table.ClipList
            boxes = [(b.xMin, b.yMin, b.xMax, b.yMax) for b in cl.clips.values()] if cl else []
            if not boxes:
                chk.violation(f"CLI build with clipbox_quantization={step} ({how}) has no clip boxes", replay)
            elif step > 1 and any(v % step for b in boxes for v in b):
                chk.violation(f"clipbox_quantization={step} given by {how}: the CLI's font has clip boxes {boxes[:2]} off the {step} grid", replay)
            shutil.rmtree(sb.root, ignore_errors=True)


def run(chk):
    quick = chk.tier == "quick"
    chk.rule = (
        "ClipBox.tla: all single rectangles over 9 boundary coordinates and all pairs over 5, x steps {1,7,20}, "
        "model-checked and replayed into the real quantiser; real COLRv1 fonts from Compile.tla scenarios and random "
        "scenarios x quantisation {default, 1, 7, 50} x upem/metrics variants x user transforms, clip_to_viewbox off.  "
        "Non-trivial = a glyph with a clip box and >= 1 transformed (reused) layer or a non-default step."
    )
    # the quantisation step for EVERY integer edge and EVERY step (TLC: boundary values, steps {1, 7, 20})
    ok, line = common.run_tlapm("QuantizeProof", ("Quantize",))
    chk.notes["quantize_proof"] = line
    if ok is False:
        raise MachineryError("QuantizeProof.tla no longer proves: " + line)
    for cfgname in ("ClipBox.cfg", "ClipBox_pairs.cfg"):
        res = common.run_tlc("ClipBox", cfgname, timeout=1200)
        chk.add_tlc(res, f"{cfgname} (exhaustive)")
        if not res.ok:
            chk.tlc_violation(res, cfgname)
        if res.vacuous_actions():
            raise MachineryError(f"vacuous: {res.vacuous_actions()}")
        chk.traces_validated += len(res.records)
        replay_clipbox_model(chk, res.records)
        chk.sample(res.records[-1])
    chk.exhaustive = True
    cli_steps(chk, quick)
    recs = CC.run_compile_model(chk, "quick" if quick else "small")
    r0 = common.rng("C05")
    r0.shuffle(recs)
    qs = [None, 1, 7, 50]
    n_model = 60 if quick else 1500
    n_rand = 60 if quick else 1500
    for k in range(n_model + n_rand):
        r = common.rng("C05", k)
        if k < n_model:
            sc = recs[k % len(recs)]
            glyphs = CC.concretise(sc, r)
            tol = 0.1 if sc["reuse"] else -1.0
        elif k % 3 == 0:
            glyphs = S.lattice_scenario(r)      # axis-aligned copies incl. mirrors and half turns
            tol = 0.1
        else:
            glyphs = S.random_scenario(r, reuse_bias=0.7)
            # push some content outside the viewBox
            if r.random() < 0.4:
                cps, vb, specs = glyphs[0]
                L = specs[0]
                L.place = (L.place[0], L.place[1], L.place[2], L.place[3], vb[0] - 0.1 * vb[2], vb[1] + 1.05 * vb[3])
            tol = r.choice([0.1, 0.1, 0.5, -1.0])
        if k >= n_model and k % 3 == 0:
            tol = 0.1
        variant = dict(CC.VARIANTS[k % len(CC.VARIANTS)])
        variant.pop("clipbox_quantization", None)
        qsel = qs[k % 4]
        cfgkw = dict(color_format=r.choice(["glyf_colr_1", "glyf_colr_1", "cff_colr_1"]), keep_glyph_names=True,
                     clip_to_viewbox=False, reuse_tolerance=tol, **variant)
        if qsel is not None:
            cfgkw["clipbox_quantization"] = qsel
        cfg = build.base_config(**cfgkw)
        q = qsel if qsel is not None else round(cfg.upem * 0.02)
        srcs = CC.sources_from(glyphs)
        replay = {"config": {a: str(b) for a, b in cfgkw.items()}, "svgs": [s.svg_text for s in srcs], "k": k}
        try:
            _, font = build.build(cfg, srcs, already_pico=True)
        except Exception as e:
            chk.notes.setdefault("build_failures", []).append(f"{type(e).__name__}: {str(e)[:80]}")
            continue
        chk.case(key=("font", k), nontrivial=True)
        chk.traces_validated += 1
        check_font(chk, font, cfg, srcs, glyphs, tol, max(q, 1), f"scenario {k}", replay)
    # reuse transform kinds x fill kinds (clip boxes are computed through the paint graph of reused layers)
    for k, (label, glyphs) in enumerate(S.reuse_fill_grid()):
        qsel = qs[k % 4]
        cfgkw = dict(color_format="glyf_colr_1", keep_glyph_names=True, clip_to_viewbox=False, reuse_tolerance=0.1, **S.LATTICE_CONFIG)
        if qsel is not None:
            cfgkw["clipbox_quantization"] = qsel
        cfg = build.base_config(**cfgkw)
        q = qsel if qsel is not None else round(cfg.upem * 0.02)
        srcs = CC.sources_from(glyphs)
        replay = {"kind": "reuse-x-fill", "label": label, "config": {a: str(b) for a, b in cfgkw.items()}, "svgs": [x.svg_text for x in srcs]}
        try:
            _, font = build.build(cfg, srcs, already_pico=True)
        except Exception as e:
            chk.notes.setdefault("build_failures", []).append(f"{type(e).__name__}: {str(e)[:80]}")
            continue
        chk.case(key=("reuse-grid", label), nontrivial=True)
        chk.traces_validated += 1
        check_font(chk, font, cfg, srcs, glyphs, 0.1, max(q, 1), f"reuse grid [{label}]", replay)
    chk.assumptions += ["bounds recomputed with the oracle's own flattening of the compiled outlines (12-segment "
                        "curve flattening: under-estimates a curved edge by < 0.1 unit)"]


def replay(path):
    print(open(path).read()[:8000])
    return 0
