"""C12: maximum_color adds colour tables without altering the font.

MaxColor.tla (glyph-order bookkeeping of the donation steps: SVG ids kept valid by reordering the target, CBDT
re-sharded into runs) is model-checked for SameGlyphs / SvgIdsValid / OthersStable / StrikesPartition; model scenarios
(target orders x colour-glyph sets, with and without a space glyph) are realised as third-party-style COLR fonts and
run through the real maximum_color CLI; outputs are compared with inputs name by name (cmap, advances, outlines,
layout, original colour table) and every colour table present is rendered by the oracle for every colour glyph."""
import io
import json
import shutil
from concurrent.futures import ThreadPoolExecutor
from pathlib import Path

from . import build, cli, common, compile_check as CC, oracle_cmp, oracle_otsvg, scenarios as S, shaper, thirdparty as TP
from .common import MachineryError



def run_maximum_color(work: Path, fmt, flags, r, font_bytes=None):
    """Build (or take) an input font, run the real maximum_color CLI on it; -> dict(rc, log, bytes, input)."""
    work.mkdir(parents=True, exist_ok=True)
    if font_bytes is None:
        # a COLRv0 target can express solid fills without group opacity only (C03): such requests get such sources
        v0 = "--colr_version" in flags and flags[list(flags).index("--colr_version") + 1] == "0"
        glyphs = S.random_scenario(r, n_glyphs=r.randrange(2, 4), reuse_bias=0.5, allow_special=False,
                                   view_box=(0, 0, 100, 100), allow_gradients=not v0, allow_groups=not v0)
        cfg = build.base_config(color_format=fmt, keep_glyph_names=r.random() < 0.5, clip_to_viewbox=False)
        if fmt.startswith("untouched"):
            srcs = [build.Src(S.filename_for(cps), S.svg_document(specs, vb)) for cps, vb, specs in glyphs]
            _, font = build.build(cfg, srcs, reload=False)
        else:
            srcs = CC.sources_from(glyphs)
            _, font = build.build(cfg, srcs, already_pico=True, reload=False)
        font_bytes = build.font_bytes(font)
    inp = work / "Input.ttf"
    inp.write_bytes(font_bytes)
    sb = cli.Sandbox(work)
    sb.build = work / "mc"
    rc, log = sb.run(list(flags) + [str(inp)], tool="maximum_color", timeout=900)
    out = sb.build / "Font.ttf"
    return {"rc": rc, "log": log, "bytes": out.read_bytes() if (rc == 0 and out.exists()) else None, "input": font_bytes,
            "build_dir": sb.build}


def name_keyed(font):
    """Facts that must survive, keyed by glyph name."""
    d = {"cmap": dict(font.getBestCmap()), "adv": {g: font["hmtx"][g][0] for g in font.getGlyphOrder()}}
    if "glyf" in font:
        glyf = font["glyf"]
        out = {}
        for g in font.getGlyphOrder():
            gl = glyf[g]
            if gl.isComposite():
                out[g] = ("c", tuple((c.glyphName, c.x, c.y) for c in gl.components))
            elif gl.numberOfContours > 0:
                out[g] = ("s", tuple(map(tuple, gl.coordinates)), tuple(gl.endPtsOfContours))
            else:
                out[g] = ("e",)
        d["outlines"] = out
    return d


def kern_pairs(font):
    """GPOS PairPos format 1 values by glyph names (enough for the fea used by the third-party fonts)."""
    res = {}
    if "GPOS" not in font:
        return res
    for lk in font["GPOS"].table.LookupList.Lookup:
        for st in lk.SubTable:
            if st.LookupType == 9:
                st = st.ExtSubTable
            if st.LookupType == 2 and st.Format == 1:
                for first, ps in zip(st.Coverage.glyphs, st.PairSet):
                    for pv in ps.PairValueRecord:
                        res[(first, pv.SecondGlyph)] = pv.Value1.XAdvance if pv.Value1 else 0
    return res


def compare_fonts(chk, in_bytes, out_bytes, flags, ctx, replay, colr_input, build_dir=None):
    from fontTools.ttLib import TTFont

    fin = TTFont(io.BytesIO(in_bytes), lazy=False)
    fout = TTFont(io.BytesIO(out_bytes), lazy=False)
    a, b = name_keyed(fin), name_keyed(fout)
    keep = "--keep_glyph_names" in flags
    in_named = fin["post"].formatType == 2.0
    if keep and in_named:
        if a["cmap"] != b["cmap"]:
            chk.violation(f"{ctx}: character map changed", replay)
        for g, adv in a["adv"].items():
            if b["adv"].get(g) != adv:
                chk.violation(f"{ctx}: advance of {g} changed {adv} -> {b['adv'].get(g)}", replay)
                break
        for g, o in a.get("outlines", {}).items():
            if o[0] != "e" and b.get("outlines", {}).get(g) != o:
                chk.violation(f"{ctx}: outline of pre-existing glyph {g} changed", replay)
                break
        if kern_pairs(fin) != kern_pairs(fout):
            chk.violation(f"{ctx}: kerning (GPOS pair values by glyph name) changed", replay)
        # every lookup's meaning by glyph name (C11's extraction: substitutions, pair values, anchors, classes, GDEF)
        from . import c11

        for tag in ("GPOS", "GSUB", "GDEF"):
            if tag in fin:
                ma = c11.dump(fin[tag].table)
                mb = c11.dump(fout[tag].table) if tag in fout else None
                if ma != mb:
                    where = c11._first_diff(ma, mb) if mb is not None else "table missing"
                    chk.violation(f"{ctx}: the meaning of {tag} changed ({str(where)[:160]})", replay)
        if fout["post"].formatType != 2.0:
            chk.violation(f"{ctx}: --keep_glyph_names but post format {fout['post'].formatType}", replay)
    else:
        # names not comparable: compare through codepoints
        if set(a["cmap"]) != set(b["cmap"]):
            chk.violation(f"{ctx}: set of mapped codepoints changed", replay)
        for cp, g in a["cmap"].items():
            g2 = b["cmap"].get(cp)
            if g2 is not None and a["adv"][g] != b["adv"][g2]:
                chk.violation(f"{ctx}: advance of U+{cp:04X} changed {a['adv'][g]} -> {b['adv'][g2]}", replay)
                break
        if not keep and fout["post"].formatType != 3.0:
            chk.violation(f"{ctx}: glyph names not requested but post format {fout['post'].formatType}", replay)
    want = {"SVG "} if colr_input else {"COLR", "CPAL"}
    if "--bitmaps" in flags:
        want |= {"CBDT", "CBLC"}
    missing = want - set(fout.keys())
    if missing:
        chk.violation(f"{ctx}: tables {sorted(missing)} were not added", replay)
        return
    # every colour table paints the same picture for the glyph reached from the same codepoints
    cache_in, cache_out, docs = {}, {}, {}
    for cp, gin in sorted(a["cmap"].items()):
        is_colour = (colr_input and _has_colr(fin, gin)) or (not colr_input and _has_svg(fin, gin))
        if not is_colour:
            continue
        gout = b["cmap"].get(cp)
        if gout is None:
            continue
        try:
            ref = oracle_cmp.colr_layers(fin, gin, cache_in) if colr_input else oracle_otsvg.glyph_layers(fin, fin.getGlyphID(gin))[0]
            colr_out = oracle_cmp.colr_layers(fout, gout, cache_out)
            svg_out, why = oracle_otsvg.glyph_layers(fout, fout.getGlyphID(gout), docs)
        except ValueError as e:
            chk.violation(f"{ctx}: U+{cp:04X}: a colour table is not renderable: {e}", replay)
            continue
        if svg_out is None:
            chk.violation(f"{ctx}: U+{cp:04X} ({gout}): {why}", replay)
            continue
        exp = [_Exp(p) for p in (ref or [])]
        if any(e.shape is None for e in exp):
            continue
        for label, got in (("COLR", colr_out), ("SVG", svg_out)):
            for p in oracle_cmp.compare(exp, got, 4.0, grid=12, ctx=f"{ctx} U+{cp:04X} {label} vs input: "):
                if "too small" not in p:
                    chk.violation(p, replay)
        # an input with several palettes: the added OT-SVG table must follow the palette wherever the COLR paint does
        # (var(--colorN, c)); compared once more with palette 1 selected on both sides
        if colr_input and "CPAL" in fout and len(fout["CPAL"].palettes) > 1 and len(fin["CPAL"].palettes) > 1:
            from . import oracle_colr, oracle_svg

            oracle_colr.PALETTE_INDEX[0] = 1
            oracle_svg.PALETTE_OVERRIDE[0] = [(c.red, c.green, c.blue) for c in fout["CPAL"].palettes[1]]
            try:
                ref1 = [_Exp(p) for p in oracle_cmp.colr_layers(fin, gin, cache_in)]
                svg1, _ = oracle_otsvg.glyph_layers(fout, fout.getGlyphID(gout), {})
            finally:
                oracle_colr.PALETTE_INDEX[0] = 0
                oracle_svg.PALETTE_OVERRIDE[0] = None
            if svg1 is not None and not any(e.shape is None for e in ref1):
                for p in oracle_cmp.compare(ref1, svg1, 4.0, grid=12, ctx=f"{ctx} U+{cp:04X} SVG vs input with palette 1 selected: "):
                    if "too small" not in p:
                        chk.violation(p, replay)
        if "CBDT" in fout and "--bitmaps" in flags:
            imgs = [bytes(s[gout].imageData) for s in fout["CBDT"].strikeData if gout in s]
            if not imgs:
                chk.violation(f"{ctx}: U+{cp:04X} ({gout}) has no bitmap in CBDT", replay)
            elif build_dir is not None:
                # the picture of the input's glyph id k is rendered to bitmap/<k>.png: that image, and no other, belongs
                # to the glyph reached from the same codepoint
                png = Path(build_dir) / "bitmap" / f"{fin.getGlyphID(gin):05d}.png"
                if png.exists() and png.read_bytes() not in imgs:
                    others = [p.name for p in sorted((Path(build_dir) / "bitmap").glob("*.png")) if p.read_bytes() in imgs]
                    chk.violation(f"{ctx}: U+{cp:04X} ({gout}) carries in CBDT the bitmap rendered for {others or 'something else'}, "
                                  f"not {png.name} (the picture of its own glyph)", replay)


class _Exp:
    def __init__(self, prod):
        self.shape = prod.shapes[0] if prod.shapes else None
        self.fill = prod.fill
        self.groups = prod.groups


def _has_colr(font, g):
    c = font["COLR"]
    if c.version == 0:
        return g in c.ColorLayers
    return any(r.BaseGlyph == g for r in c.table.BaseGlyphList.BaseGlyphPaintRecord)


def _has_svg(font, g):
    gid = font.getGlyphID(g)
    return any(s <= gid <= e for _, s, e in oracle_otsvg.svg_records(font))


def _single_clip(t, under=False):
    """paint trees whose layers are clipped by exactly one glyph (the layer comparison handles one clip per layer)"""
    if t["k"] in ("solid", "grad"):
        return True
    if t["k"] == "glyph":
        return not under and _single_clip(t["ch"], True)
    if t["k"] == "layers":
        return all(_single_clip(c, under) for c in t["ch"])
    return _single_clip(t["ch"], under)


def thirdparty_font(sc, r, version=1, kerning=True, n_palettes=1, trees=None, hhea_delta=(0, 0)):
    """MaxColor.tla scenario -> a third-party-style COLR font with exactly that glyph order and colour set.  With
    `trees` (paint graphs exported by ColrToSvg.tla) the colour glyphs carry arbitrary supported paint graphs: nested
    non-commuting transforms, colour-glyph references, opacity groups."""
    b = TP.Builder(r, n_palettes=n_palettes, with_space=False)
    b.hhea_delta = hhea_delta
    b.order = [".notdef"]
    outlines = []
    cp = 0x1F600
    plain = []
    for name in sc["target"][1:]:
        if name == "layer":
            continue          # stands for the layer outlines added below
        b.order.append(name)
        if name in sc["colour"]:
            b.glyphs[name] = TP._glyph([])
            b.cmap[cp] = name
            cp += 1
        else:
            b.glyphs[name] = TP._glyph(TP.SHAPES[r.choice(sorted(TP.SHAPES))])
            b.cmap[0x41 + len(plain)] = name
            plain.append(name)
        b.adv[name] = r.choice([1000, 1200])
    # outlines used by the colour glyphs come last (as a third-party font might well do)
    for name in sc["colour"]:
        o1, o2 = b.add_outline(), b.add_outline()
        if version == 0:
            b.colr[name] = [(o1, r.randrange(4)), (o2, r.randrange(4))]
        elif trees:
            subs = {}
            tree = trees[len(b.colr) % len(trees)]
            # model tokens a/b -> translate / scale (do not commute), c.. -> random transform paints
            b.colr[name] = TP.paint_from_tree(tree, b, r, {"a": "a", "b": "b"}, subs)
            for sname, sp in subs.items():
                b.order.append(sname)
                b.glyphs[sname] = TP._glyph([])
                b.adv[sname] = 1000
                b.colr[sname] = sp
        else:
            b.colr[name] = {"Format": 1, "Layers": [
                {"Format": 10, "Glyph": o1, "Paint": TP.solid(r)},
                dict(TP.TOKENS[r.choice(["a", "b", "d"])], Paint={"Format": 10, "Glyph": o2, "Paint": r.choice([TP.solid(r), TP.gradient(r)])})]}
    fea = None
    if kerning and len(plain) >= 2:
        fea = f"feature kern {{ pos {plain[0]} {plain[1]} -50; }} kern;"
        # mark attachment: the last plain glyph is a mark; every other plain glyph and every colour glyph is a base with
        # its own anchor (coverage-indexed record arrays that a reordering must keep paired)
        bases = plain[:-1] + [n for n in sc["target"][1:] if n in sc["colour"]]
        if len(plain) >= 2 and len(bases) >= 2:
            mk = plain[-1]
            rules = " ".join(f"pos base {g} <anchor {200 + 37 * i} {600 + 11 * i}> mark @TOP;" for i, g in enumerate(bases))
            fea = (f"markClass {mk} <anchor 150 520> @TOP;\n" + fea + f"\nfeature mark {{ {rules} }} mark;\n"
                   + f"table GDEF {{ GlyphClassDef [{' '.join(bases)}], , [{mk}], ; }} GDEF;")
    return b.font(version=version, fea=fea)


class BuildFailed(Exception):
    pass


def maxcolor_graph(work, font_bytes, flags, name):
    """B3 for the second driver: the ninja graph maximum_color really writes for `font_bytes`, in the shape Build.tla's
    MC module expects (one world), with strace-measured read sets."""
    import os

    from . import build_model as bm, ninja_graph

    sb = cli.Sandbox(work / f"g-{name}")
    (sb.root / "in.ttf").write_bytes(font_bytes)
    rc, out = sb.run(["--noexec_ninja"] + list(flags) + ["in.ttf"], tool="maximum_color")
    if rc != 0:
        raise MachineryError(f"maximum_color --noexec_ninja failed: {out[-500:]}")
    raw = ninja_graph.parse_build_dir(sb)

    def norm(p):
        return os.path.relpath(p, sb.build) if os.path.isabs(p) else p

    for e in raw:
        e["ins"], e["implicit"], e["order_only"] = [norm(x) for x in e["ins"]], [norm(x) for x in e["implicit"]], [norm(x) for x in e["order_only"]]
    # an edge with several outputs: ninja's compdb names the first output only; the others are modelled as copies of it
    primary = {}
    for e in raw:
        if e["cmd"]:
            primary[(e["rule"], tuple(e["ins"]), tuple(e["implicit"]))] = e["out"]
    try:
        reads, _ = ninja_graph.measure_reads(sb, [e for e in raw if e["cmd"]])
    except MachineryError as e:
        if "traced build failed" in str(e):
            raise BuildFailed(str(e)[-600:])
        raise
    intern = bm.Interner()
    edges = []
    files = {"../in.ttf"} | {e["out"] for e in raw}
    for e in raw:
        if e["cmd"]:
            declared = e["ins"] + e["implicit"] + e["order_only"]
            rd = [norm(x) for x in reads.get(e["out"], [])]
            h = intern(e["cmd"])
            edges.append({"out": e["out"], "ins": declared, "trig": e["ins"] + e["implicit"], "reads": [x for x in rd if x in files], "h": h, "sem": h, "rule": e["rule"]})
        else:
            prim = primary.get((e["rule"], tuple(e["ins"]), tuple(e["implicit"])))
            if prim is None:
                raise MachineryError(f"output {e['out']} has no command and no sibling output")
            h = intern("secondary output of " + prim + ": " + e["out"])
            edges.append({"out": e["out"], "ins": [prim], "reads": [prim], "h": h, "sem": h, "rule": e["rule"]})
    final = [e["out"] for e in raw if not any(e["out"] in (o["ins"] + o["implicit"]) for o in raw)]
    data = {"family": name, "sources": ["../in.ttf"], "opts": ["d"], "commands": {},
            "worlds": [{"id": "w0", "present": ["../in.ttf"], "opt": "d", "edges": edges, "toml": [], "fonts": sorted(final)}]}
    shutil.rmtree(sb.root, ignore_errors=True)
    return data


def model_check_graphs(chk, work, quick):
    """Every interleaving of a maximum_color build (any -j) ends in the canonical content term, and every file a step
    really reads is ordered before it by declared inputs (Build.tla FreeSchedule, DeclaredCoversRead)."""
    from . import build_model as bm

    # graph sizes are kept to <= 14 edges: the number of interleavings (with mtime ranks) explodes beyond that
    jobs = [("colr", "glyf_colr_1", [], 2), ("svg", "picosvg", [], 2)]
    if not quick:
        jobs += [("colr-bitmaps", "glyf_colr_1", ["--bitmaps"], 1), ("svg-v0", "picosvg", ["--colr_version", "0"], 2)]
    for name, fmt, flags, ng in jobs:
        for attempt in range(20):
            r = common.rng("C12", "graph", name, attempt)
            glyphs = S.random_scenario(r, n_glyphs=ng, allow_special=False)
            if all(vb[2] == vb[3] for _, vb, _ in glyphs):   # square art: the default bitmap resolution fits CBDT
                break
        cfg = build.base_config(color_format=fmt, keep_glyph_names=True)
        _, font = build.build(cfg, CC.sources_from(glyphs), already_pico=True)
        try:
            data = maxcolor_graph(work, build.font_bytes(font), flags, name)
        except BuildFailed as e:
            # the graph as written does not build sequentially (ninja -j1): the property's output font does not exist
            chk.violation(f"maximum_color {' '.join(flags)} on a {fmt} font fails under ninja -j1: {str(e)[-300:]}",
                          {"format": fmt, "flags": flags, "log": str(e)})
            continue
        consts = dict(UserOps=[], FaultKinds=[], MaxFaults=0, MaxVer=1, FreeSchedule=True, MaxOps=1)
        sd = work / f"spec-{name}"
        mc = bm.write_mc(data, sd, "sched", consts, ["FreshOKx", "AllFreshx", "DeclaredCoversRead"])
        res = common.run_tlc(mc, mc + ".cfg", spec_dir=sd, timeout=900, coverage=False)
        chk.add_tlc(res, f"Build sched on maximum_color's graph [{name}]: all interleavings, {len(data['worlds'][0]['edges'])} edges")
        if not res.ok:
            chk.tlc_violation(res, f"Build/maximum_color/{name}")


def run(chk):
    quick = chk.tier == "quick"
    chk.rule = (
        "MaxColor.tla: every target order of <=4 glyphs x every non-empty colour-glyph set model-checked; scenarios "
        "realised as third-party COLRv1/COLRv0 fonts (extra kerning lookup, second palette, no space glyph) and fonts "
        "nanoemoji emits (COLRv1, COLRv0, picosvg, untouchedsvg) x {--bitmaps, --colr_version, --keep_glyph_names} run "
        "through the real CLI; outputs compared by name / codepoint and rendered by the oracle per colour table.  "
        "Non-trivial = >= 2 colour glyphs or a non-colour glyph between colour glyphs."
    )
    res = common.run_tlc("MaxColor", "MaxColor.cfg", timeout=900)
    chk.add_tlc(res, "MaxColor (exhaustive)")
    if not res.ok:
        chk.tlc_violation(res, "MaxColor")
    if res.vacuous_actions():
        raise MachineryError(f"vacuous: {res.vacuous_actions()}")
    recs = res.records
    chk.exhaustive = True
    ok_recs = [x for x in recs if x["outcome"] == "ok"]
    bad_recs = [x for x in recs if x["outcome"] != "ok"]
    chk.notes["model_scenarios_failing_for_lack_of_non_colour_glyphs"] = len(bad_recs)
    r0 = common.rng("C12")
    r0.shuffle(ok_recs)
    r0.shuffle(bad_recs)
    jobs = []
    flagsets = [["--keep_glyph_names"], ["--keep_glyph_names", "--bitmaps"], [], ["--keep_glyph_names"]]
    for k, sc in enumerate(ok_recs[: (4 if quick else 40)]):
        jobs.append(("thirdparty", k, sc, flagsets[k % 4], 1 if k % 3 else 0))
    # layout tables under the SVG donation's glyph reordering: colour glyphs whose names are NOT in sorted order carry
    # mark-attachment anchors and kerning (coverage-indexed arrays that must stay paired when the order changes)
    for k, order in enumerate([["zeta", "plainA", "alpha", "plainB", "mid", "markacc"], ["mid", "zeta", "plainA", "alpha", "markacc"],
                               ["plainA", "plainB", "zz", "yy", "xx", "markacc"]][: (2 if quick else 3)]):
        sc = {"target": [".notdef"] + order, "colour": [g for g in order if not g.startswith("plain") and g != "markacc"]}
        jobs.append(("thirdparty-marks", k, sc, ["--keep_glyph_names"] + (["--bitmaps"] if k == 1 else []), 1))
    # arbitrary supported paint graphs: the trees ColrToSvg.tla enumerates (nested transforms, references, groups)
    tres = common.run_tlc("ColrToSvg", "ColrToSvg.cfg", timeout=900, coverage=False)
    chk.add_tlc(tres, "ColrToSvg.cfg (paint graphs for the third-party fonts)")
    trees = [x["root"] for x in tres.records if _single_clip(x["root"]) and x["root"]["k"] in ("layers", "xf", "glyph", "group")]
    def nested_distinct(t):
        """some transform directly over a different transform (their order is observable)"""
        if t["k"] in ("solid", "grad"):
            return False
        if t["k"] == "layers":
            return any(nested_distinct(c) for c in t["ch"])
        if t["k"] == "xf" and t["ch"]["k"] == "xf" and t["ch"]["t"] != t["t"]:
            return True
        return nested_distinct(t["ch"])

    deep = [t for t in trees if nested_distinct(t)]
    if len(deep) < 6:
        raise MachineryError(f"too few paint graphs with nested transforms ({len(deep)})")
    for k, sc in enumerate(ok_recs[4: 4 + (6 if quick else 60)]):
        jobs.append(("thirdparty-graphs", k, sc, [["--keep_glyph_names"], []][k % 2], 1))
    nano = [("glyf_colr_1", ["--keep_glyph_names"]), ("picosvg", ["--keep_glyph_names", "--bitmaps"]), ("glyf_colr_0", []),
            ("picosvg", ["--colr_version", "0", "--keep_glyph_names"]), ("untouchedsvg", ["--keep_glyph_names"]),
            ("glyf_colr_1", ["--bitmaps"])]
    for k, (fmt, flags) in enumerate(nano[: (3 if quick else 6)] * (1 if quick else 4)):
        jobs.append(("nanoemoji", k, fmt, flags, None))
    with common.scratch("c12-") as work:
        model_check_graphs(chk, work, quick)

        def one(job):
            kind, k, what, flags, version = job
            r = common.rng("C12", kind, k)
            if kind.startswith("thirdparty"):
                tr = None
                if kind == "thirdparty-graphs":
                    tr = [deep[(7 * k + j) % len(deep)] for j in range(2)] + [r.choice(trees) for _ in range(2)]
                # every other font: hhea ascent / descent differ from the OS/2 typo metrics (fonts nanoemoji emits never do)
                data = thirdparty_font(what, r, version=version, n_palettes=1 + k % 2, trees=tr,
                                       hhea_delta=(150, 50) if (k + len(kind)) % 2 == 0 else (0, 0))
                return job, run_maximum_color(work / f"{kind}-{k}", None, flags, r, font_bytes=data)
            return job, run_maximum_color(work / f"{kind}-{k}", what, flags, r)

        with ThreadPoolExecutor(4) as ex:
            results = list(ex.map(one, jobs))
        for (kind, k, what, flags, version), out in results:
            ctx = f"{kind} {k} {' '.join(flags)}"
            replay = {"kind": kind, "flags": flags, "what": what if not isinstance(what, dict) else {k2: what[k2] for k2 in ("target", "colour")}}
            chk.case(key=(kind, k, tuple(flags)), nontrivial=True)
            chk.traces_validated += 1
            chk.sample(replay, limit=4)
            if out["rc"] != 0 or out["bytes"] is None:
                chk.violation(f"{ctx}: maximum_color fails: {out['log'][-300:]}", replay)
                continue
            colr_input = b"COLR" in out["input"][:400] or _is_colr(out["input"])
            compare_fonts(chk, out["input"], out["bytes"], flags, ctx, replay, colr_input, build_dir=out["build_dir"])
            if kind == "thirdparty" and "--keep_glyph_names" in flags:
                from fontTools.ttLib import TTFont

                got = [g for g in TTFont(io.BytesIO(out["bytes"])).getGlyphOrder() if g in what["target"] and g != "layer"]
                donor = [g for g in TTFont(str(out["build_dir"] / "MergeSource.picosvg.ttf")).getGlyphOrder() if g in what["colour"]]
                # the model record with the donor order the real build came back with
                match = [m for m in recs if m["target"] == what["target"] and sorted(m["colour"]) == sorted(what["colour"]) and m["donor"] == donor]
                want = [g for g in match[0]["order"] if g != "layer"] if match else None
                if want is not None and got != want:
                    chk.notes["order_drift"] = chk.notes.get("order_drift", 0) + 1
                    chk.notes.setdefault("order_drift_samples", []).append({"model": want, "real": got})
    chk.assumptions += ["the oracle renders COLR and SVG; CBDT content is checked for presence only (C14 covers placement)"]


def _is_colr(data):
    from fontTools.ttLib import TTFont

    return "COLR" in TTFont(io.BytesIO(data))


def replay(path):
    print(open(path).read()[:8000])
    return 0
