"""C13: COLR-to-SVG conversion preserves the picture for supported paint graphs.

ColrToSvg.tla (the recursive walk with accumulate / reset of the transform as a stack machine, one action per branch)
is model-checked for SamePlacement over all paint graphs of the grammar to depth 3 (thorough 4); every graph is built
into a real third-party-style COLRv1 font with fontTools, converted by the real colr_to_svg, and BOTH sides go through
the independent layer oracle (COLR reading vs SVG reading) in the requested viewBox; COLRv0 fonts, multi-palette
fonts (var(--colorN, c)), foreground colour (currentColor) and unsupported paints (must raise or warn) likewise."""
import io
import json
import logging

from . import common, oracle_cmp, oracle_colr, oracle_grad as G, oracle_otsvg, oracle_svg, thirdparty as TP
from .common import MachineryError


class _Exp:
    def __init__(self, prod):
        self.shape = prod.shapes[0] if prod.shapes else None
        self.fill = prod.fill
        self.groups = prod.groups
        self.multi_clip = len(prod.shapes) > 1


def convert_and_compare(chk, data, view_box_fn, ctx, replay, expect_var=False):
    from fontTools.ttLib import TTFont
    from nanoemoji import colr_to_svg
    from picosvg.geometric_types import Rect

    font = TTFont(io.BytesIO(data), lazy=False)
    try:
        svgs = colr_to_svg.colr_to_svg(lambda g: Rect(*view_box_fn(font, g)), font)
    except Exception as e:
        chk.violation(f"{ctx}: conversion of a supported paint graph raises {type(e).__name__}: {str(e)[:150]}", replay)
        return
    cache = {}
    for gname, svg in svgs.items():
        text = svg.tostring()
        vb = view_box_fn(font, gname)
        cfg = {"ascender": font["OS/2"].sTypoAscender, "descender": font["OS/2"].sTypoDescender,
               "width": font["hmtx"][gname][0], "transform": G.IDENT}
        A = oracle_svg.viewbox_to_font(vb, cfg, advance=font["hmtx"][gname][0])
        try:
            doc = oracle_otsvg.Doc(text)
            got = doc.render(doc.root, G.mul(oracle_otsvg.FLIP, A))
        except ValueError as e:
            chk.violation(f"{ctx}: generated SVG for {gname} is not renderable: {e}", dict(replay, svg=text))
            continue
        exp = [_Exp(p) for p in oracle_cmp.colr_layers(font, gname, cache)]
        if any(e.shape is None or e.multi_clip for e in exp):
            continue
        for p in oracle_cmp.compare(exp, got, 3.0, grid=14, ctx=f"{ctx} {gname}: "):
            if "too small" not in p:
                chk.violation(p, dict(replay, svg=text))
        # a font with several palettes: the same comparison with palette 1 selected on both sides (the SVG's
        # var(--colorN, c) must follow the palette wherever the COLR paint does)
        if len(font["CPAL"].palettes) > 1:
            pal = font["CPAL"].palettes[1]
            oracle_colr.PALETTE_INDEX[0] = 1
            oracle_svg.PALETTE_OVERRIDE[0] = [(c.red, c.green, c.blue) for c in pal]
            try:
                doc1 = oracle_otsvg.Doc(text)
                got1 = doc1.render(doc1.root, G.mul(oracle_otsvg.FLIP, A))
                exp1 = [_Exp(p) for p in oracle_cmp.colr_layers(font, gname, cache)]
            finally:
                oracle_colr.PALETTE_INDEX[0] = 0
                oracle_svg.PALETTE_OVERRIDE[0] = None
            for p in oracle_cmp.compare(exp1, got1, 3.0, grid=14, ctx=f"{ctx} {gname} with palette 1 selected: "):
                if "too small" not in p:
                    chk.violation(p, dict(replay, svg=text, palette=1))
        if expect_var and "var(--color" not in text and "fill=" in text:
            chk.violation(f"{ctx}: multi-palette font but {gname}'s SVG has no var(--colorN, c) fills", dict(replay, svg=text))


def vb_region(font, g):
    return (0, -font["OS/2"].sTypoAscender, font["hmtx"][g][0], font["OS/2"].sTypoAscender - font["OS/2"].sTypoDescender)


def vb_other(font, g):
    return (10, 20, 128, 128)


def run(chk):
    quick = chk.tier == "quick"
    from . import solidfill_check

    solidfill_check.run(chk)    # the attribute rule every solid fill and COLRv0 layer goes through
    chk.rule = (
        "ColrToSvg.tla: every paint graph over {ColrLayers, Glyph, Transform tokens, group-opacity Composite, "
        "ColrGlyph, solid, gradient} to depth 3 (thorough 4) model-checked; each built into a real COLRv1 font (tokens "
        "-> Translate/Scale*/Rotate*/Skew*/Transform paints, linear incl. rotated p2 and radial incl. r0>0, c0!=c1 "
        "gradients, extend modes, composite glyf glyphs), converted by the real code, both sides rendered by the "
        "oracle in the glyph-region viewBox and another; COLRv0, two palettes, foreground, unsupported paints.  "
        "Non-trivial = the graph has a transform or a group; distinct by graph."
    )
    cfgname = "ColrToSvg.cfg" if quick else "ColrToSvg_deep.cfg"
    res = common.run_tlc("ColrToSvg", cfgname, timeout=1800)
    chk.add_tlc(res, f"{cfgname} (exhaustive)")
    if not res.ok:
        chk.tlc_violation(res, "ColrToSvg")
    if res.vacuous_actions():
        raise MachineryError(f"vacuous: {res.vacuous_actions()}")
    recs = res.records
    if len(recs) < 100:
        raise MachineryError("too few paint graphs")
    chk.exhaustive = True
    chk.sample(recs[len(recs) // 2])
    r0 = common.rng("C13")
    r0.shuffle(recs)
    for k, rec in enumerate(recs if quick else recs[:3000]):
        r = common.rng("C13", "g", k)
        npal = 2 if k % 5 == 0 else 1
        b = TP.Builder(r, n_palettes=npal, with_space=(k % 3 != 0), composite=(k % 4 == 1))
        subs = {}
        paint = TP.paint_from_tree(rec["root"], b, r, {}, subs)
        for name, sp in subs.items():
            b.order.append(name)
            b.glyphs[name] = TP._glyph([])
            b.adv[name] = 1000
            b.colr[name] = sp
        b.add_color_glyph(0x1F600 + k % 50, paint)
        replay = {"kind": "paint-graph", "tree": rec["root"], "paint": paint}
        txt = json.dumps(rec["root"])
        chk.case(key=txt, nontrivial=('"xf"' in txt or '"group"' in txt))
        chk.traces_validated += 1
        try:
            data = b.font(version=1)
        except Exception as e:
            raise MachineryError(f"cannot build third-party font: {type(e).__name__}: {e}")
        convert_and_compare(chk, data, vb_region if k % 3 else vb_other, f"graph {k}", replay, expect_var=(npal > 1))
    # COLRv0, foreground, unsupported
    from fontTools.ttLib import TTFont
    from nanoemoji import colr_to_svg
    from picosvg.geometric_types import Rect

    r = common.rng("C13", "v0")
    for k in range(6 if quick else 60):
        b = TP.Builder(r, n_palettes=1 + k % 2)
        layers = [(b.add_outline(), r.choice([0, 1, 2, 3, 0xFFFF])) for _ in range(r.randrange(1, 4))]
        b.add_color_glyph(0x1F600, layers)
        chk.case(key=("v0", k), nontrivial=True)
        data = b.font(version=0)
        convert_and_compare(chk, data, vb_region, f"COLRv0 {k}", {"kind": "colrv0", "layers": layers},
                            expect_var=(k % 2 == 1 and any(c != 0xFFFF for _, c in layers)))
        f = TTFont(io.BytesIO(data))
        svgs = colr_to_svg.colr_to_svg(lambda g: Rect(*vb_region(f, g)), f)
        text = svgs["u1F600"].tostring()
        if any(c == 0xFFFF for _, c in layers) and "currentColor" not in text:
            chk.violation(f"COLRv0 {k}: foreground layer did not become currentColor", {"layers": layers, "svg": text})
    # unsupported paints must raise or warn
    unsupported = [
        ("sweep", {"Format": 8, "ColorLine": {"ColorStop": [{"StopOffset": 0, "PaletteIndex": 0, "Alpha": 1}, {"StopOffset": 1, "PaletteIndex": 1, "Alpha": 1}], "Extend": "pad"},
                   "centerX": 300, "centerY": 300, "startAngle": 0, "endAngle": 180}),
        ("composite-multiply", None),
    ]
    for name, fill in unsupported:
        b = TP.Builder(r)
        o = b.add_outline()
        if fill is not None:
            paint = {"Format": 10, "Glyph": o, "Paint": fill}
        else:
            paint = {"Format": 32, "CompositeMode": "multiply", "SourcePaint": {"Format": 10, "Glyph": o, "Paint": TP.solid(r)},
                     "BackdropPaint": {"Format": 10, "Glyph": b.add_outline(), "Paint": TP.solid(r)}}
        b.add_color_glyph(0x1F600, paint)
        data = b.font(version=1)
        f = TTFont(io.BytesIO(data))
        chk.case(key=("unsupported", name), nontrivial=True)
        warned = []

        class H(logging.Handler):
            def emit(self, record):
                warned.append(record.getMessage())

        from absl import logging as absl_logging

        h = H()
        absl_logging.get_absl_logger().addHandler(h)
        logging.getLogger().addHandler(h)
        old = absl_logging.get_verbosity()
        absl_logging.set_verbosity(absl_logging.WARNING)
        lvl = logging.getLogger().level
        logging.getLogger().setLevel(logging.WARNING)
        try:
            colr_to_svg.colr_to_svg(lambda g: Rect(*vb_region(f, g)), f)
            raised = False
        except Exception:
            raised = True
        finally:
            absl_logging.get_absl_logger().removeHandler(h)
            logging.getLogger().removeHandler(h)
            absl_logging.set_verbosity(old)
            logging.getLogger().setLevel(lvl)
        if not raised and not warned:
            chk.violation(f"unsupported paint ({name}) converted silently: no error, no warning", {"paint": paint})
    chk.assumptions += ["SVG side rendered by harness/oracle_otsvg.py; COLR side by harness/oracle_colr.py"]


def replay(path):
    print(open(path).read()[:8000])
    return 0
