"""Variable and per-master static builds through the real CLI (C18)."""
import hashlib
import json
import shutil
import tempfile
from pathlib import Path

from . import cli, common


def toml_for(output, axes, masters, options, subdir=""):
    """axes: [(tag, name, default)]; masters: [(name, style, {tag: pos})]; options: {key: toml literal}; the masters' sources
    live in <master>/<subdir>."""
    lines = [f'output_file = "{output}"']
    for k, v in options.items():
        lines.append(f"{k} = {v}")
    for tag, name, default in axes:
        lines += [f"[axis.{tag}]", f'name = "{name}"', f"default = {default}"]
    for mname, style, pos in masters:
        lines += [f"[master.{mname}]", f'style_name = "{style}"', f'srcs = ["{mname}/{subdir}*.svg"]', f"[master.{mname}.position]"]
        lines += [f"{tag} = {p}" for tag, p in pos.items()]
    return "\n".join(lines) + "\n"


def build_vf(root, axes, masters, sources, options, output="VF.ttf"):
    """sources: {master name: {file name: svg text}}.  -> (rc, log, font bytes or None)"""
    sb = cli.Sandbox(Path(root))
    # every other scenario keeps each master's files in an identically named leaf directory (<master>/svg/<file>): the
    # masters' sources then agree in file name AND parent directory name, and differ only higher up the path
    digest = hashlib.sha1(json.dumps(sources, sort_keys=True).encode()).digest()
    subdir = "svg/" if digest[0] % 2 else ""
    for m, files in sources.items():
        for fn, text in files.items():
            sb.write(f"{m}/{subdir}{fn}", text)
    sb.write("config.toml", toml_for(output, axes, [m for m in masters], options, subdir=subdir))
    rc, out = sb.run(["config.toml"])
    p = sb.build / output
    return rc, out, (p.read_bytes() if rc == 0 and p.exists() else None)


def build_static(root, axes, master, files, options, output="Static.ttf"):
    """The master alone: a static build with the same options (single master at the axis default is what the driver
    builds for a one-master config: no axes needed)."""
    sb = cli.Sandbox(Path(root))
    for fn, text in files.items():
        sb.write(f"{master[0]}/{fn}", text)
    lines = [f'output_file = "{output}"'] + [f"{k} = {v}" for k, v in options.items()]
    # a single master needs the axis table too (config.load requires one); default = the master's own position
    for tag, name, default in axes:
        lines += [f"[axis.{tag}]", f'name = "{name}"', f"default = {master[2][tag]}"]
    lines += [f"[master.{master[0]}]", f'style_name = "{master[1]}"', f'srcs = ["{master[0]}/*.svg"]', f"[master.{master[0]}.position]"]
    lines += [f"{tag} = {p}" for tag, p in master[2].items()]
    sb.write("config.toml", "\n".join(lines) + "\n")
    rc, out = sb.run(["config.toml"])
    p = sb.build / output
    return rc, out, (p.read_bytes() if rc == 0 and p.exists() else None)
