"""C19: congruent copies of a shape are stored once.

Compile.tla (StoredOnce) and OTSVG.tla supply the sharing patterns (which layers are copies, in which glyphs, in which
order); the concretiser supplies ANY isometry (translation inside the em, any rotation angle, either mirror axis) on
shapes of the generator grammar.  The real fonts are projected: set of outline glyphs drawn by the copies after
flattening composites (COLR v0/v1), <use> vs <path> (picosvg)."""
import json
import math

from lxml import etree

from . import build, common, compile_check as CC, oracle_colr, oracle_grad as G, oracle_otsvg, oracle_svg, scenarios as S
from .common import MachineryError

FORMATS = ["glyf_colr_0", "glyf_colr_1", "picosvg"]


def isometric_scenario(r, pattern, quarter_turns=False, view_box=None):
    """pattern: list of glyphs, each a list of class ids (ints).  Every occurrence of a class is an isometric copy of
    one concrete shape (same size), anywhere in the em.  quarter_turns: rotations by exact multiples of 90 degrees."""
    # (large viewBoxes too: 1000 and 2048 units are what icon sets and font-derived artwork use)
    vb = r.choice([(0, 0, 100, 100), (0, 0, 24, 24), (0, 0, 128, 128), (10, -5, 64, 64), (0, 0, 200, 100), (0, 0, 1000, 1000), (0, 0, 2048, 2048)])
    vb = view_box or vb
    span = min(vb[2], vb[3])
    shapes = {}
    glyphs = []
    for g, classes in enumerate(pattern):
        specs = []
        for c in classes:
            if c not in shapes:
                kind = r.choice(["poly", "blob", "ellipse", "ring", "poly", "blob"])
                shapes[c] = (f"{kind}:{r.randrange(10**6)}", r.uniform(0.05, 0.09) * span)
            cls, size = shapes[c]
            if quarter_turns:
                # exact quarter turns (and the identity / half turn): matrices with zeros on the diagonal or off it,
                # which random angles never produce
                cs, sn = [(size, 0.0), (0.0, size), (-size, 0.0), (0.0, -size)][r.randrange(4)]
            else:
                a = r.uniform(0, 2 * math.pi)
                cs, sn = math.cos(a) * size, math.sin(a) * size
            m = (cs, sn, -sn, cs, 0, 0)
            if r.random() < 0.5:
                m = G.mul(m, r.choice([(-1, 0, 0, 1, 0, 0), (1, 0, 0, -1, 0, 0)]))
            m = (m[0], m[1], m[2], m[3], vb[0] + r.uniform(0.25, 0.75) * vb[2], vb[1] + r.uniform(0.25, 0.75) * vb[3])
            specs.append(S.LayerSpec(cls, m, S.random_fill(r, allow_gradients=(r.random() < 0.4), allow_special=False)))
        glyphs.append((S.CODEPOINTS[g], vb, specs))
    return glyphs


def fixed_representable(glyphs, cfg):
    """From ground truth: is every copy -> first-occurrence transform inside the Fixed range (font space)?"""
    oc = CC.oracle_cfg(cfg)
    first = {}
    ok = True
    for cps, vb, specs in glyphs:
        A = oracle_svg.viewbox_to_font(vb, oc)
        for L in specs:
            pf = G.mul(A, L.place)
            if L.cls in first:
                T = G.mul(pf, G.inv(first[L.cls]))
                ok = ok and all(-32768 <= v < 32768 for v in T)
            else:
                first[L.cls] = pf
    return ok


def base_outlines_colr(font, glyph):
    """For every layer of a colour glyph: the simple outline glyph(s) ultimately drawn (composites flattened)."""
    glyf = font["glyf"]
    if font["COLR"].version == 0:
        names = [l.name for l in font["COLR"].ColorLayers.get(glyph, [])]
    else:
        names = [L.clips[-1][0] for L in oracle_colr.flatten_v1(font, glyph) if L.clips]
    out = []
    for n in names:
        g = glyf[n]
        while g.isComposite() and len(g.components) == 1:
            n = g.components[0].glyphName
            g = glyf[n]
        out.append(n)
    return out


def svg_draws(font, srcs):
    """For every source glyph: list of (kind, target) per layer: ('path', own) or ('use', href)."""
    order = font.getGlyphOrder()
    res = {}
    for text, start, end in oracle_otsvg.svg_records(font):
        root = etree.fromstring(text.encode())
        for el in root.iter():
            if isinstance(el.tag, str) and el.attrib.get("id", "").startswith("glyph") and el.attrib["id"][5:].isdigit():
                items = []
                for ch in el.iter():
                    t = etree.QName(ch).localname if isinstance(ch.tag, str) else None
                    if t == "path":
                        items.append(("path", ch.attrib.get("id", f"{el.attrib['id']}:{len(items)}")))
                    elif t == "use":
                        items.append(("use", ch.attrib[oracle_otsvg.XLINK_HREF].lstrip("#")))
                res[order[int(el.attrib["id"][5:])]] = items
    return res


KF_BUCKET = "normalize-grid-boundary"


def normalised_keys(srcs, cfg, tol, svg_space=False):
    """Per source glyph, per path: picosvg's normalised outline (the reuse key) of the path in the space the cache sees
    it - font space for COLR / glyf builds, the source's own viewBox coordinates for OT-SVG builds (svg._glyph_groups
    gives the cache `shape.as_path().d` untransformed) - computed the way the cache does (normalize at tolerance/10).
    picosvg is a dependency, not code under test."""
    from picosvg.svg import SVG
    from picosvg.svg_reuse import normalize
    from picosvg.svg_transform import Affine2D
    from picosvg.svg_types import SVGPath

    oc = CC.oracle_cfg(cfg)
    out = []
    for s in srcs:
        svg = SVG.fromstring(s.svg_text)
        vb = svg.view_box()
        A = Affine2D.identity() if svg_space else Affine2D(*oracle_svg.viewbox_to_font(tuple(vb), oc))
        row = []
        for sh in svg.shapes():
            fp = SVGPath(d=sh.as_path().d)
            if not svg_space:
                fp = fp.apply_transform(A)
            row.append((normalize(fp, tol / 10).d, fp.d))
        out.append(row)
    return out


KF_AFFINE = "affine_between-fails-within-tolerance"


def affine_recoverable(paths, tol):
    """Does picosvg recover an affine between the first copy and every later one at this tolerance?"""
    from picosvg.svg_reuse import affine_between
    from picosvg.svg_types import SVGPath

    return all(affine_between(SVGPath(d=paths[0]), SVGPath(d=p), tol) is not None for p in paths[1:])


def check_one(chk, glyphs, pattern, fmt, tol, ctx, replay):
    cfg = build.base_config(color_format=fmt, keep_glyph_names=True, clip_to_viewbox=False, reuse_tolerance=tol)
    srcs = CC.sources_from(glyphs)
    replay = dict(replay, format=fmt, tolerance=tol, svgs=[s.svg_text for s in srcs], pattern=pattern)
    try:
        _, font = build.build(cfg, srcs, already_pico=True)
    except Exception as e:
        chk.violation(f"{ctx} [{fmt}]: build fails: {type(e).__name__}: {str(e)[:160]}", replay)
        return
    representable = fixed_representable(glyphs, cfg)
    # class -> set of stored outlines used to draw its copies
    stored = {}
    if fmt == "picosvg":
        draws = svg_draws(font, srcs)
        for gi, src in enumerate(srcs):
            items = draws.get(src.glyph_name, [])
            if len(items) != len(pattern[gi]):
                chk.violation(f"{ctx} [{fmt}]: glyph {gi} has {len(items)} drawn elements for {len(pattern[gi])} layers", replay)
                return
            for c, (kind, target) in zip(pattern[gi], items):
                stored.setdefault(c, set()).add(target)
    else:
        for gi, src in enumerate(srcs):
            outs = base_outlines_colr(font, src.glyph_name)
            if len(outs) != len(pattern[gi]):
                chk.violation(f"{ctx} [{fmt}]: glyph {gi} has {len(outs)} layers for {len(pattern[gi])} shapes", replay)
                return
            for c, o in zip(pattern[gi], outs):
                stored.setdefault(c, set()).add(o)
    copies = {c: sum(g.count(c) for g in pattern) for c in stored}
    for c, outs in stored.items():
        if tol == -1:
            if len(outs) != copies[c]:
                chk.violation(f"{ctx} [{fmt}]: reuse disabled yet class {c} ({copies[c]} copies) is stored {len(outs)} times", replay)
        elif representable and len(outs) != 1:
            # is it picosvg's grid-snapping normalisation that separates the copies?  (known finding, see DESIGN §7)
            keys = normalised_keys(srcs, cfg, tol, svg_space=(fmt == "picosvg"))
            mine = [keys[gi][li] for gi, g in enumerate(pattern) for li, cc in enumerate(g) if cc == c]
            class_keys = {k for k, _ in mine}
            fk = None
            if len(class_keys) > 1:
                fk = KF_BUCKET
            elif not affine_recoverable([p for _, p in mine], tol):
                fk = KF_AFFINE
            chk.violation(f"{ctx} [{fmt}]: {copies[c]} congruent copies of class {c} are stored {len(outs)} times: {sorted(outs)}"
                          f" ({len(class_keys)} distinct normalised keys)", replay, finding_key=fk)
    return any(v > 1 for v in copies.values())


def run(chk):
    quick = chk.tier == "quick"
    chk.rule = (
        "sharing patterns = all class assignments of Compile.tla scenarios (<=3 layers, <=2 glyphs; thorough adds "
        "random patterns of <=6 layers over <=3 glyphs); each pattern concretised with random shapes of the grammar "
        "(polygons, curved blobs, ellipses, rings) and random isometries in viewBoxes >= 24 units, tolerance in "
        "{default, larger}; built as glyf_colr_0, glyf_colr_1 and picosvg; representability computed from ground truth. "
        "Non-trivial = some class has >= 2 copies; distinct by (pattern, format, tolerance)."
    )
    recs = CC.run_compile_model(chk, "quick" if quick else "small")
    patterns = []
    seen = set()
    for sc in recs:
        ids = {}
        pat = [[ids.setdefault(L["c"], len(ids) + 1) for L in g] for g in sc["src"]]
        k = json.dumps(pat)
        if k not in seen:
            seen.add(k)
            patterns.append(pat)
    # OTSVG.tla adds patterns over more glyphs / name orders (its Group phase is the same sharing decision)
    res = common.run_tlc("OTSVG", "OTSVG_small.cfg", timeout=1200, coverage=False)
    chk.add_tlc(res, "OTSVG_small (sharing patterns)")
    if not res.ok:
        chk.tlc_violation(res, "OTSVG_small")
    for sc in res.records:
        pat = [[L["c"] for L in g["layers"]] for g in sc["src"]]
        k = json.dumps(pat)
        if k not in seen and any(sum(g.count(c) for g in pat) > 1 for c in (1, 2)):
            seen.add(k)
            patterns.append(pat)
    chk.notes["sharing_patterns_from_model"] = len(patterns)
    r0 = common.rng("C19")
    if not quick:
        for _ in range(300):
            ng = r0.randrange(1, 4)
            patterns.append([[r0.randrange(1, 4) for _ in range(r0.randrange(1, 3))] for _ in range(ng)])
    r0.shuffle(patterns)
    n = 0
    for k, pat in enumerate(patterns if not quick else patterns[:70]):
        for rep in range(1 if quick else 3):
            r = common.rng("C19", k, rep)
            glyphs = isometric_scenario(r, pat, quarter_turns=(k % 3 == 2))
            tol = r.choice([0.1, 0.1, 0.25, -1.0])
            for fmt in ([FORMATS[(k + rep) % 3]] if quick else FORMATS):
                nontrivial = check_one(chk, glyphs, pat, fmt, tol, f"pattern {k}.{rep}", {"seed": [chk.seed, k, rep]})
                chk.case(key=(json.dumps(pat), fmt, tol, rep), nontrivial=bool(nontrivial))
                chk.traces_validated += 1
                n += 1
    # sharing GRAPHS over more glyphs: two groups of glyphs that become one through a late glyph containing copies of
    # both (the document grouping of OT-SVG is a union-find over glyphs; the COLR cache is global)
    merges = [[[1], [1], [2], [2, 1]], [[1], [2], [1], [2, 1]], [[1], [1], [2], [2], [1, 2]], [[1, 2], [3], [3, 1], [2]],
              [[1], [2], [3], [1, 2], [3, 2]], [[1], [1], [2], [2], [3], [3, 1, 2]]]
    rm = common.rng("C19", "merge")
    for k in range(len(merges) if quick else 120):
        pat = merges[k] if k < len(merges) else [[rm.randrange(1, 4) for _ in range(rm.randrange(1, 3))] for _ in range(rm.randrange(4, 7))]
        r = common.rng("C19", "merge", k)
        # (every other one: generic angles in a 2048-unit viewBox, where <use> coordinates are large)
        glyphs = isometric_scenario(r, pat, quarter_turns=(k % 2 == 1), view_box=(0, 0, 2048, 2048) if k % 2 == 0 else None)
        for fmt in (["picosvg"] if quick else FORMATS):
            nontrivial = check_one(chk, glyphs, pat, fmt, 0.1, f"merge pattern {k}", {"seed": [chk.seed, "merge", k]})
            chk.case(key=("merge", json.dumps(pat), fmt), nontrivial=bool(nontrivial))
            chk.traces_validated += 1
    chk.sample({"pattern": patterns[0], "formats": FORMATS})
    chk.assumptions += ["'congruent' = images under isometries generated with float arithmetic and written with 4 decimals"]


def replay(path):
    print(open(path).read()[:8000])
    return 0
