"""C06: shape and gradient reuse never changes what is painted.

Model: Compile.tla explored with reuse on and off (SamePicture/FillSame/OrderKept hold in both, so the denotations are
equal); OTSVG.tla for the <use> side.  Binding: pairs of real builds from identical inputs differing only in
reuse_tolerance, compared layer for layer by the oracle (COLRv1, COLRv0, OT-SVG), including near-miss copies inside /
outside the tolerance, tiny donors, gradients on reused shapes and transforms beyond the Fixed range; plus a CLI pair
(reuse disabled must build)."""
import json

from . import build, c02, cli, common, compile_check as CC, oracle_cmp, oracle_otsvg, scenarios as S, shaper
from .common import MachineryError

FORMATS = ["glyf_colr_1", "glyf_colr_0", "picosvg"]


class _Exp:
    def __init__(self, prod):
        self.shape = prod.shapes[0] if prod.shapes else None
        self.fill = prod.fill
        self.groups = prod.groups


def layers_of(font, fmt, glyph_name, cache):
    if fmt == "picosvg":
        got, why = oracle_otsvg.glyph_layers(font, font.getGlyphID(glyph_name), cache.setdefault("docs", {}))
        if got is None:
            raise ValueError(why)
        return got
    return oracle_cmp.colr_layers(font, glyph_name, cache.setdefault("shapes", {}))


def near_miss_scenario(r):
    """Copies of one shape with per-coordinate jitter at 0.5x / 0.9x / 1.1x / 2x the tolerance (viewBox units)."""
    cls = r.choice([f"poly:{r.randrange(999)}", f"blob:{r.randrange(999)}", "F", "T", f"ring:{r.randrange(99)}"])
    tol = 0.1
    specs = []
    for k, mult in enumerate([0, 0.5, 0.9, 1.1, 2.0][: r.randrange(3, 6)]):
        m = S.random_isometry(r, 100.0, r.uniform(5, 8))
        fill = S.random_fill(r, allow_gradients=True, allow_special=False)
        specs.append(S.LayerSpec(cls, m, fill, r.choice([1, 0.5]), None, jitter=(r, mult * tol) if mult else None))
    half = max(1, len(specs) // 2)
    return [(S.CODEPOINTS[0], (0, 0, 100, 100), specs[:half]), (S.CODEPOINTS[1], (0, 0, 100, 100), specs[half:])], tol


def big_transform_scenario(r):
    """A tiny donor reused at huge scale and far away: the reuse transform may not fit Fixed."""
    cls = r.choice(["F", "T", "poly:5"])
    k = r.choice([0.5, 0.4, 0.25])
    a = S.LayerSpec(cls, (k, 0, 0, k, 5, 5), S.random_fill(r, True, False))
    b = S.LayerSpec(cls, (60 * k, 0, 0, 60 * k, 60, 60), S.random_fill(r, True, False))
    c = S.LayerSpec(cls, (0, 6, -6, 0, 30, 70), S.random_fill(r, True, False))
    order = [a, b, c]
    r.shuffle(order)
    return [(S.CODEPOINTS[0], (0, 0, 100, 100), order[:2]), (S.CODEPOINTS[1], (0, 0, 100, 100), order[2:])], 0.1


def black_donor_scenario(r):
    """In-glyph reuse where the donor needs no paint attribute at all (black, opaque) and its copies share one."""
    cls = r.choice(["F", "T", f"poly:{r.randrange(99)}", f"blob:{r.randrange(99)}"])
    col = r.choice(S.PALETTE)
    op = r.choice([1, 1, 0.5])
    specs = [S.LayerSpec(cls, S.random_isometry(r, 100.0, r.uniform(5, 8)), S.FillSpec("solid", color="black", index=None))]
    for _ in range(r.randrange(1, 3)):
        specs.append(S.LayerSpec(cls, S.random_isometry(r, 100.0, r.uniform(5, 8)), S.FillSpec("solid", color=col, index=None), op))
    return [(S.CODEPOINTS[0], (0, 0, 100, 100), specs)], 0.1


def compare_pair(chk, glyphs, tol_on, fmt, ctx, replay, variant=None):
    variant = dict(variant or {})
    variant.pop("clipbox_quantization", None)
    kw = dict(color_format=fmt, keep_glyph_names=True, clip_to_viewbox=False, **variant)
    cfg_on = build.base_config(reuse_tolerance=tol_on, **kw)
    cfg_off = build.base_config(reuse_tolerance=-1.0, **kw)
    srcs = CC.sources_from(glyphs)
    replay = dict(replay, format=fmt, tolerance=tol_on, svgs=[s.svg_text for s in srcs])
    fonts = {}
    for label, cfg in (("reuse on", cfg_on), ("reuse off", cfg_off)):
        try:
            _, fonts[label] = build.build(cfg, srcs, already_pico=True)
        except Exception as e:
            chk.violation(f"{ctx} [{fmt}] {label}: build fails: {type(e).__name__}: {str(e)[:160]}", replay)
            return None
    deltas = CC.layer_deltas(glyphs, cfg_on, tol_on)
    hits = 0
    for gi, src in enumerate(srcs):
        c_on, c_off = {}, {}
        try:
            on = layers_of(fonts["reuse on"], fmt, src.glyph_name, c_on)
            off = layers_of(fonts["reuse off"], fmt, src.glyph_name, c_off)
        except ValueError as e:
            chk.violation(f"{ctx} [{fmt}] glyph {gi}: {e}", replay)
            continue
        exp = [_Exp(p) for p in off]
        if any(e.shape is None for e in exp):
            continue
        for p in oracle_cmp.compare(exp, on, deltas[gi] if len(deltas[gi]) == len(exp) else max(deltas[gi] + [3.5]),
                                    grid=14, ctx=f"{ctx} [{fmt}] glyph {gi} reuse on vs off: "):
            if "too small to judge" in p:
                chk.notes["too_small_to_judge"] = chk.notes.get("too_small_to_judge", 0) + 1
            else:
                chk.violation(p, replay)
    # how much reuse actually happened (non-triviality)
    f_on, f_off = fonts["reuse on"], fonts["reuse off"]
    if fmt == "picosvg":
        n_on = sum(t.count("<use") for t, _, _ in oracle_otsvg.svg_records(f_on))
        return n_on
    return len(f_off.getGlyphOrder()) - len(f_on.getGlyphOrder())


def cli_pair(chk):
    """The documented way to disable reuse must build through the CLI, and yield as many layers as the default."""
    files = {"src/emoji_u1f600.svg": cli.SVG_A, "src/emoji_u1f601.svg": cli.SVG_B}
    with common.scratch("c06-") as work:
        res = {}
        for label, flags in (("default", []), ("disabled", ["--reuse_tolerance", "-1"])):
            sb = cli.Sandbox(work / label)
            for p, t in files.items():
                sb.write(p, t)
            rc, out = sb.run(["--color_format", "glyf_colr_1", "--keep_glyph_names"] + flags + sorted(files))
            res[label] = (rc, out[-400:] if rc else "", sb.build / "Font.ttf")
            chk.case(key=("cli", label), nontrivial=True)
            if rc != 0:
                chk.violation(f"CLI build with reuse {label} fails (rc={rc})", {"flags": flags, "log": res[label][1], "files": files})
        if all(v[0] == 0 for v in res.values()):
            from fontTools.ttLib import TTFont

            a, b = TTFont(str(res["default"][2])), TTFont(str(res["disabled"][2]))
            for g in ("g_1f600", "g_1f601"):
                la, lb = oracle_cmp.colr_layers(a, g), oracle_cmp.colr_layers(b, g)
                if len(la) != len(lb):
                    chk.violation(f"CLI: {g} has {len(la)} layers with reuse, {len(lb)} without", {"files": files})


def run(chk):
    quick = chk.tier == "quick"
    chk.rule = (
        "Compile.tla with Reuse in {TRUE, FALSE} (denotation invariants hold in both modes); pairs of real builds "
        "(reuse_tolerance t vs -1) over Compile.tla sharing patterns, random scenarios, near-miss copies at "
        "0.5/0.9/1.1/2x tolerance, tiny-donor/huge-copy scenarios, for COLRv1, COLRv0 and picosvg, compared layer for "
        "layer.  Non-trivial = the reuse-on build actually shares at least one outline; distinct by (scenario, format)."
    )
    recs = CC.run_compile_model(chk, "quick" if quick else "small")
    recs = [x for x in recs if x["reuse"]]
    r0 = common.rng("C06")
    r0.shuffle(recs)
    jobs = []
    for k, sc in enumerate(recs[: (24 if quick else 600)]):
        jobs.append(("model", k, CC.concretise(sc, common.rng("C06", "m", k)), 0.1, {"scenario": sc["src"]}))
    for k in range(20 if quick else 500):
        r = common.rng("C06", "r", k)
        jobs.append(("random", k, S.random_scenario(r, reuse_bias=0.8, allow_special=False), r.choice([0.1, 0.05, 0.5, 1.0]), {"seed": [chk.seed, k]}))
    for k in range(10 if quick else 200):
        g, t = near_miss_scenario(common.rng("C06", "n", k))
        jobs.append(("near-miss", k, g, t, {"seed": [chk.seed, k]}))
    for k in range(6 if quick else 60):
        g, t = big_transform_scenario(common.rng("C06", "b", k))
        jobs.append(("big-transform", k, g, t, {"seed": [chk.seed, k]}))
    for k in range(6 if quick else 60):
        g, t = black_donor_scenario(common.rng("C06", "bd", k))
        jobs.append(("black-donor", k, g, t, {"seed": [chk.seed, k]}))
    for k in range(12 if quick else 300):
        r = common.rng("C06", "co", k)
        g = S.thin_bar_scenario(r) if k % 2 else S.lattice_scenario(r)
        jobs.append(("coincidence", k, g, 0.1, {"seed": [chk.seed, k], "variant": "lattice"}))
    for k in range(8 if quick else 120):
        r = common.rng("C06", "sg", k)
        jobs.append(("same-gradient", k, S.lattice_scenario(r, same_gradient=True), 0.1, {"seed": [chk.seed, k], "variant": "lattice"}))
    for k, (label, glyphs) in enumerate(S.reuse_fill_grid()):
        if quick and k % 2:
            continue
        jobs.append(("reuse-grid", k, glyphs, 0.1, {"label": label, "variant": "lattice"}))
    for n, (kind, k, glyphs, tol, info) in enumerate(jobs):
        fmt = FORMATS[n % 3] if quick else None
        for f in ([fmt] if fmt else FORMATS):
            variant = CC.VARIANTS[n % len(CC.VARIANTS)] if n % 4 == 0 else None
            if kind == "reuse-grid":
                variant = S.LATTICE_CONFIG
                if fmt:
                    f = ["picosvg", "glyf_colr_1", "glyf_colr_1"][(k // 2) % 3]
            if kind == "same-gradient":
                variant = S.LATTICE_CONFIG
                if fmt:
                    f = ["picosvg", "glyf_colr_1"][k % 2]
            if kind == "coincidence":
                variant = [S.LATTICE_CONFIG, {"upem": 2048, "ascender": 1900, "descender": -500, "width": 0}, {}][k % 3]
                if fmt and k % 2:
                    f = "glyf_colr_1"   # the gradient fallbacks only exist in COLRv1
            if len(glyphs) >= 2 and n % 2 == 1:
                # names against the input order: the glyph that comes FIRST (the donor of a shared shape) gets the name
                # that sorts LAST (OT-SVG documents are written in name order, COLR layers in input order)
                cps_rev = [g[0] for g in glyphs][::-1]
                glyphs = [(cps_rev[i], g[1], g[2]) for i, g in enumerate(glyphs)]
                info = dict(info, names="reversed against the input order")
            shared = compare_pair(chk, glyphs, tol, f, f"{kind} {k}", dict(info, kind=kind), variant=variant)
            chk.case(key=(kind, k, f), nontrivial=bool(shared and shared > 0))
            chk.traces_validated += 1
    chk.sample({"job_kinds": sorted({j[0] for j in jobs}), "formats": FORMATS})
    cli_pair(chk)
    chk.assumptions += ["the reuse-off build is the reference for the reuse-on build (C01/C02/C03 tie it to the source)"]


def replay(path):
    print(open(path).read()[:8000])
    return 0
