"""SVG side of the layer oracle: an independent reading of a (picosvg-normal) source SVG as a list of layers placed in
font space by the rule in the property text:
    scale uniformly so the viewBox height spans descender..ascender, centre horizontally in the advance
    (advance = max(width, round(em height * vb.w / vb.h))), y up from the baseline, then the user transform.
Written from the SVG specification; does not import nanoemoji."""
import math
import re

from lxml import etree

from . import oracle_geom as OG
from . import oracle_grad as G

SVGNS = "{http://www.w3.org/2000/svg}"
XLINK = "{http://www.w3.org/1999/xlink}href"
FOREGROUND = "fg"


def _num(s, ref=1.0):
    s = s.strip()
    if s.endswith("%"):
        return float(s[:-1]) / 100.0 * ref
    return float(s)


PALETTE_OVERRIDE = [None]   # [(r, g, b), ...] of the selected palette, or None = the defaults written in the document


def parse_color(s, alpha=1.0):
    """-> ((r,g,b,a) | ('fg', a), palette index or None)"""
    from PIL import ImageColor

    s = s.strip()
    m = re.match(r"var\s*\(\s*--color([0-9]+)\s*,\s*(#?\w+)\s*\)", s)
    if m:
        c, _ = parse_color(m.group(2), alpha)
        if PALETTE_OVERRIDE[0] is not None and int(m.group(1)) < len(PALETTE_OVERRIDE[0]) and c[0] != FOREGROUND:
            # a text engine that selected another palette: --colorN is that palette's entry (entries keep their alpha
            # across the palettes the harness builds)
            o = PALETTE_OVERRIDE[0][int(m.group(1))]
            c = (o[0], o[1], o[2], c[3])
        return c, int(m.group(1))
    if s == "currentColor":
        return (FOREGROUND, alpha), None
    if s.startswith("#") and len(s) in (5, 9):  # #RGBA / #RRGGBBAA
        h = s[1:]
        if len(h) == 4:
            h = "".join(ch + ch for ch in h)
        return (int(h[0:2], 16), int(h[2:4], 16), int(h[4:6], 16), alpha * int(h[6:8], 16) / 255), None
    rgb = ImageColor.getrgb(s)
    return (rgb[0], rgb[1], rgb[2], alpha), None


def parse_transform(s):
    """SVG transform list -> matrix (a,b,c,d,e,f)."""
    m = G.IDENT
    for name, args in re.findall(r"(\w+)\s*\(([^)]*)\)", s or ""):
        v = [float(x) for x in re.split(r"[\s,]+", args.strip()) if x]
        if name == "matrix":
            t = tuple(v)
        elif name == "translate":
            t = (1, 0, 0, 1, v[0], v[1] if len(v) > 1 else 0)
        elif name == "scale":
            t = (v[0], 0, 0, v[1] if len(v) > 1 else v[0], 0, 0)
        elif name == "rotate":
            a = math.radians(v[0])
            cs, sn = math.cos(a), math.sin(a)
            t = (cs, sn, -sn, cs, 0, 0)
            if len(v) == 3:
                cx, cy = v[1], v[2]
                t = G.mul(G.mul((1, 0, 0, 1, cx, cy), t), (1, 0, 0, 1, -cx, -cy))
        elif name == "skewX":
            t = (1, 0, math.tan(math.radians(v[0])), 1, 0, 0)
        elif name == "skewY":
            t = (1, math.tan(math.radians(v[0])), 0, 1, 0, 0)
        else:
            raise ValueError(name)
        m = G.mul(m, t)
    return m


def view_box(root):
    vb = [float(x) for x in re.split(r"[\s,]+", root.attrib["viewBox"].strip())]
    return tuple(vb)


def advance_for(vb, cfg):
    emh = cfg["ascender"] - cfg["descender"]
    return max(cfg["width"], round(emh * vb[2] / vb[3]))


def viewbox_to_font(vb, cfg, advance=None):
    """The placement rule of the property, as a matrix."""
    emh = cfg["ascender"] - cfg["descender"]
    if advance is None:
        advance = advance_for(vb, cfg)
    s = emh / vb[3]
    dx = (advance - s * vb[2]) / 2
    # x' = s (x - vb.x) + dx ; y' = ascender - s (y - vb.y)
    m = (s, 0, 0, -s, dx - s * vb[0], cfg["ascender"] + s * vb[1])
    user = cfg.get("transform", G.IDENT)
    return G.mul(user, m)


class SvgFill:
    def __init__(self, kind, **kw):
        self.kind = kind
        self.__dict__.update(kw)

    def at(self, p):
        """colour at font-space point p"""
        if self.kind == "solid":
            return self.color
        mi = G.inv(self.to_font)
        if mi is None:
            return None
        q = G.mapp(mi, p)  # gradient coordinate system
        if self.kind == "linear":
            t = G.linear_t_svg(self.x1, self.y1, self.x2, self.y2, q)
        else:
            t = G.radial_t((self.fx, self.fy), self.fr, (self.cx, self.cy), self.r, q, self.spread)
        if t is None:
            return None
        return G.color_at(self.stops, t, self.spread)


class SvgLayer:
    def __init__(self, shape, fill, groups, d, palette_index=None):
        self.shape = shape  # OG.Shape in font space
        self.fill = fill
        self.groups = groups
        self.d = d
        self.palette_index = palette_index


def _gradient(root, gid, shape_user: OG.Shape, vb, opacity, A):
    el = None
    for e in root.iter():
        if e.attrib.get("id") == gid:
            el = e
            break
    if el is None:
        raise ValueError(f"unresolved paint url(#{gid})")
    tag = etree.QName(el).localname
    units = el.attrib.get("gradientUnits", "objectBoundingBox")
    gt = parse_transform(el.attrib.get("gradientTransform", ""))
    spread = el.attrib.get("spreadMethod", "pad")
    if units == "objectBoundingBox":
        b = shape_user.bounds
        bbox = (b[2] - b[0], 0, 0, b[3] - b[1], b[0], b[1])
        wref = href = dref = 1.0
    else:
        bbox = G.IDENT
        wref, href = vb[2], vb[3]
        dref = math.sqrt((vb[2] ** 2 + vb[3] ** 2) / 2)
    to_font = G.mul(A, G.mul(bbox, gt))
    stops = []
    for st in el:
        if etree.QName(st).localname != "stop":
            continue
        off = _num(st.attrib.get("offset", "0"))
        c, _ = parse_color(st.attrib.get("stop-color", "black"))
        so = _num(st.attrib.get("stop-opacity", "1"))
        if c[0] == FOREGROUND:
            c = (0, 0, 0, c[1])
        stops.append((off, (c[0], c[1], c[2], c[3] * so * opacity)))
    # SVG: each offset is clamped to be >= previous
    fixed, last = [], 0.0
    for off, c in stops:
        off = max(off, last)
        last = off
        fixed.append((off, c))
    if tag == "linearGradient":
        return SvgFill("linear", to_font=to_font, spread=spread, stops=fixed,
                       x1=_num(el.attrib.get("x1", "0%"), wref), y1=_num(el.attrib.get("y1", "0%"), href),
                       x2=_num(el.attrib.get("x2", "100%"), wref), y2=_num(el.attrib.get("y2", "0%"), href))
    if tag == "radialGradient":
        cx = _num(el.attrib.get("cx", "50%"), wref)
        cy = _num(el.attrib.get("cy", "50%"), href)
        r = _num(el.attrib.get("r", "50%"), dref)
        fx = _num(el.attrib["fx"], wref) if "fx" in el.attrib else cx
        fy = _num(el.attrib["fy"], href) if "fy" in el.attrib else cy
        fr = _num(el.attrib.get("fr", "0%"), dref)
        return SvgFill("radial", to_font=to_font, spread=spread, stops=fixed, cx=cx, cy=cy, r=r, fx=fx, fy=fy, fr=fr)
    raise ValueError(f"unsupported paint server {tag}")


def expected_layers(svg_text, cfg, A=None):
    """-> (layers bottom-up, advance, viewBox->font matrix)."""
    root = etree.fromstring(svg_text.encode() if isinstance(svg_text, str) else svg_text)
    vb = view_box(root)
    adv = advance_for(vb, cfg)
    if A is None:
        A = viewbox_to_font(vb, cfg, adv)
    layers = []
    counter = [0]

    def walk(el, groups):
        for ch in el:
            if not isinstance(ch.tag, str):
                continue
            tag = etree.QName(ch).localname
            if tag == "defs":
                continue
            if tag == "g":
                op = float(ch.attrib.get("opacity", "1"))
                g2 = groups
                if op != 1.0:
                    counter[0] += 1
                    g2 = groups + ((counter[0], op),)
                walk(ch, g2)
            elif tag == "path":
                d = ch.attrib["d"]
                user_shape = OG.svg_path_shape(d)
                if ch.attrib.get("transform"):
                    user_shape = user_shape.transformed(parse_transform(ch.attrib["transform"]))
                op = float(ch.attrib.get("opacity", "1")) * float(ch.attrib.get("fill-opacity", "1"))
                fill = ch.attrib.get("fill", "black")
                pidx = None
                if fill.startswith("url("):
                    gid = re.match(r"url\(\s*#([^)]+)\)", fill).group(1).strip()
                    f = _gradient(root, gid, user_shape, vb, op, A)
                else:
                    c, pidx = parse_color(fill, op)
                    f = SvgFill("solid", color=c)
                layers.append(SvgLayer(user_shape.transformed(A), f, groups, d, pidx))
            else:
                raise ValueError(f"not picosvg-normal: <{tag}>")

    walk(root, ())
    return layers, adv, A
