"""C01: a COLRv1 glyph paints the same picture as its source SVG.

Compile.tla (cache / reuse / fallback protocol with exact rational geometry) is model-checked; every exported scenario
class is concretised to picosvg-normal sources, compiled with the real pipeline under varying configurations, the font
is saved and reloaded, its COLR paint graph is flattened by an independent reading of the COLR spec and compared layer
by layer (outline, fill colour at sample points, opacity groups, order) with an independent reading of the source SVG
placed by the rule in the property.  Random continuous scenarios and the repository's sample SVGs go through the same
oracle; reuse-cache events of those builds are validated against CompileTrace.tla (B2)."""
import glob
import json
from pathlib import Path

from . import build, common, compile_check as CC, compile_trace, painted_check, scenarios as S
from .common import MachineryError


def replay_model_scenarios(chk, recs, n, pid="C01"):
    r = common.rng(pid, "model")
    recs = list(recs)
    r.shuffle(recs)
    structure_drift = 0
    for k, sc in enumerate(recs[:n]):
        variant = dict(CC.VARIANTS[k % len(CC.VARIANTS)])
        flavour = CC.FLAVOURS[k % 7 % len(CC.FLAVOURS)] if k % 7 < 3 else "glyf_colr_1"
        tol = 0.1 if sc["reuse"] else -1.0
        cfgkw = dict(color_format=flavour, reuse_tolerance=tol, keep_glyph_names=True, clip_to_viewbox=False, **variant)
        cfg = build.base_config(**cfgkw)
        glyphs = CC.concretise(sc, common.rng(pid, "conc", k))
        srcs = CC.sources_from(glyphs)
        replay = {"kind": "model-scenario", "scenario": sc, "config": {k2: str(v) for k2, v in cfgkw.items()},
                  "svgs": [s.svg_text for s in srcs]}
        nontrivial = any(o["kind"] == "hit" for out in sc["outs"] for g in out for o in g)
        chk.case(key=json.dumps([sc["reuse"], sc["src"]], sort_keys=True), nontrivial=nontrivial)
        chk.traces_validated += 1
        if k < 2:
            chk.sample({"scenario": sc["src"], "reuse": sc["reuse"], "predicted": sc["outs"][0]})
        try:
            _, font = build.build(cfg, srcs, already_pico=True)
        except Exception as e:
            chk.violation(f"valid sources fail to compile: {type(e).__name__}: {str(e)[:200]}", replay)
            continue
        deltas = CC.layer_deltas(glyphs, cfg, tol)
        CC.check_font_pictures(chk, font, cfg, srcs, glyphs, tol, f"model scenario {k} [{flavour}]", replay, deltas=deltas)
        # structure (which outline glyph each layer draws from) against the model's prediction
        real = []
        for gi, src in enumerate(srcs):
            names = CC.clip_names(font, src.glyph_name)
            row = []
            for nm in names:
                base, _, idx = (nm or "").rpartition(".")
                owner = [j for j, s2 in enumerate(srcs) if s2.glyph_name == base]
                row.append([owner[0] + 1, int(idx)] if owner and idx.isdigit() else None)
            real.append(row)
        if not any([[o["glyph"] for o in g] for g in out] == real for out in sc["outs"]):
            structure_drift += 1
            chk.notes.setdefault("structure_drift_samples", [])
            if len(chk.notes["structure_drift_samples"]) < 3:
                chk.notes["structure_drift_samples"].append({"real": real, "model": sc["outs"][0], "src": sc["src"]})
    chk.notes["structure_drift"] = structure_drift


def random_scenarios(chk, n, pid="C01"):
    for k in range(n):
        r = common.rng(pid, "random", k)
        glyphs = S.random_scenario(r)
        variant = dict(r.choice(CC.VARIANTS))
        flavour = r.choice(CC.FLAVOURS + ["glyf_colr_1"] * 3)
        tol = r.choice([0.1, 0.1, 0.05, 1.0, -1.0])
        keep = r.random() < 0.7
        cfgkw = dict(color_format=flavour, reuse_tolerance=tol, keep_glyph_names=keep, clip_to_viewbox=False, **variant)
        cfg = build.base_config(**cfgkw)
        try:
            srcs = CC.sources_from(glyphs)
        except Exception as e:
            raise MachineryError(f"generated SVG rejected by picosvg: {e}")
        replay = {"kind": "random-scenario", "seed": [chk.seed, k], "config": {k2: str(v) for k2, v in cfgkw.items()},
                  "svgs": [s.svg_text for s in srcs]}
        chk.case(key=("random", k), nontrivial=sum(len(g[2]) for g in glyphs) >= 2)
        chk.traces_validated += 1
        try:
            _, font = build.build(cfg, srcs, already_pico=True)
        except Exception as e:
            chk.violation(f"valid sources fail to compile: {type(e).__name__}: {str(e)[:200]}", replay)
            continue
        deltas = CC.layer_deltas(glyphs, cfg, tol)
        CC.check_font_pictures(chk, font, cfg, srcs, glyphs, tol, f"random scenario {k} [{flavour}]", replay, deltas=deltas)


def transform_fill_grid(chk):
    """user transform kinds (skew, rotation, non-uniform scale, affine, translation, mirror) x gradient kinds, compiled to
    COLRv1 (the user transform is folded into outlines and gradient geometry)."""
    for k, (label, t, glyphs) in enumerate(S.transform_fill_grid()):
        flavour = CC.FLAVOURS[k % len(CC.FLAVOURS)]
        cfgkw = dict(color_format=flavour, keep_glyph_names=True, reuse_tolerance=0.1, clip_to_viewbox=False, transform=t)
        cfg = build.base_config(**cfgkw)
        srcs = CC.sources_from(glyphs)
        replay = {"kind": "transform-x-fill", "label": label, "config": {a: str(b) for a, b in cfgkw.items()}, "svgs": [x.svg_text for x in srcs]}
        chk.case(key=("grid", label), nontrivial=True)
        chk.traces_validated += 1
        try:
            _, font = build.build(cfg, srcs, already_pico=True)
        except Exception as e:
            chk.violation(f"valid source fails to compile with user transform {t} ({flavour}): {type(e).__name__}: {str(e)[:200]}", replay)
            continue
        CC.check_font_pictures(chk, font, cfg, srcs, glyphs, 0.1, f"grid [{label}] [{flavour}]", replay, deltas=CC.layer_deltas(glyphs, cfg, 0.1))


def nested_groups(chk, pid="C01"):
    """Nested <g opacity> groups ending in every way relative to their parents (inner group last / first / in the
    middle, three levels, a sibling or the end of the document after the outer group)."""
    for k, name in enumerate(sorted(S.NESTED_GROUP_SHAPES)):
        for rep in range(2):
            r = common.rng(pid, "nested", name, rep)
            glyphs = S.nested_group_scenario(r, name)
            flavour = CC.FLAVOURS[(k + rep) % len(CC.FLAVOURS)]
            tol = 0.1 if rep == 0 else -1.0
            cfgkw = dict(color_format=flavour, keep_glyph_names=True, reuse_tolerance=tol, clip_to_viewbox=False)
            cfg = build.base_config(**cfgkw)
            srcs = CC.sources_from(glyphs)
            replay = {"kind": "nested-groups", "shape": name, "config": {a: str(b) for a, b in cfgkw.items()}, "svgs": [x.svg_text for x in srcs]}
            chk.case(key=("nested", name, rep), nontrivial=True)
            chk.traces_validated += 1
            try:
                _, font = build.build(cfg, srcs, already_pico=True)
            except Exception as e:
                chk.violation(f"valid source with nested opacity groups fails to compile ({flavour}): {type(e).__name__}: {str(e)[:200]}", replay)
                continue
            CC.check_font_pictures(chk, font, cfg, srcs, glyphs, max(tol, 0), f"nested groups [{name}] [{flavour}]", replay,
                                   deltas=CC.layer_deltas(glyphs, cfg, max(tol, 0)))


def reuse_fill_grid(chk, pid="C01"):
    """reuse transform kinds x fill kinds, compiled to COLRv1 and compared with the source."""
    for k, (label, glyphs) in enumerate(S.reuse_fill_grid()):
        flavour = CC.FLAVOURS[k % len(CC.FLAVOURS)]
        cfgkw = dict(color_format=flavour, keep_glyph_names=True, reuse_tolerance=0.1, clip_to_viewbox=False, **S.LATTICE_CONFIG)
        cfg = build.base_config(**cfgkw)
        srcs = CC.sources_from(glyphs)
        replay = {"kind": "reuse-x-fill", "label": label, "config": {a: str(b) for a, b in cfgkw.items()}, "svgs": [x.svg_text for x in srcs]}
        chk.case(key=("reuse-grid", label), nontrivial=True)
        chk.traces_validated += 1
        try:
            _, font = build.build(cfg, srcs, already_pico=True)
        except Exception as e:
            chk.violation(f"valid sources fail to compile [{label}] ({flavour}): {type(e).__name__}: {str(e)[:200]}", replay)
            continue
        CC.check_font_pictures(chk, font, cfg, srcs, glyphs, 0.1, f"reuse grid [{label}] [{flavour}]", replay, deltas=CC.layer_deltas(glyphs, cfg, 0.1))


def coincidence_scenarios(chk, n, pid="C01", only=None):
    """Integer-lattice axis-aligned copies (scale exactly 1 on one axis, integer scale centres) and thin-bar overflow
    fallbacks: coincidences random floats never hit."""
    for k in range(n):
        r = common.rng(pid, "lattice", k)
        if only == "overflow":
            glyphs, variant = (S.thin_bar_scenario(r), dict(S.LATTICE_CONFIG)) if k % 3 == 0 else (S.tiny_copy_scenario(r), dict(S.TINY_CONFIG))
        elif k % 4 == 3:
            glyphs, variant = S.thin_bar_scenario(r), dict(S.LATTICE_CONFIG)
        elif k % 4 == 1 and k % 8 == 1:
            glyphs, variant = S.tiny_copy_scenario(r), dict(S.TINY_CONFIG)
        else:
            glyphs, variant = S.lattice_scenario(r), dict(S.LATTICE_CONFIG if k % 3 else {"upem": 100, "ascender": 100, "descender": 0, "width": 100})
        tol = 0.1
        cfgkw = dict(color_format=r.choice(["glyf_colr_1", "glyf_colr_1", "cff_colr_1"]), reuse_tolerance=tol,
                     keep_glyph_names=True, clip_to_viewbox=False, **variant)
        cfg = build.base_config(**cfgkw)
        srcs = CC.sources_from(glyphs)
        replay = {"kind": "coincidence-scenario", "seed": [chk.seed, k], "config": {a: str(b) for a, b in cfgkw.items()},
                  "svgs": [s.svg_text for s in srcs]}
        chk.case(key=("lattice", k), nontrivial=True)
        chk.traces_validated += 1
        try:
            _, font = build.build(cfg, srcs, already_pico=True)
        except Exception as e:
            chk.violation(f"valid sources fail to compile: {type(e).__name__}: {str(e)[:200]}", replay)
            continue
        CC.check_font_pictures(chk, font, cfg, srcs, glyphs, tol, f"coincidence scenario {k}", replay,
                               deltas=CC.layer_deltas(glyphs, cfg, tol))


KF_RADIAL = "radial-gradient-uniform-part-overflows-int16"


def radial_overflow_finding(chk):
    """An objectBoundingBox radial gradient on a very thin shape: the uniform part of the decomposition multiplies the
    circle centres by the bbox aspect ratio and overflows int16 at PARSE time, so a valid source does not compile."""
    import traceback

    r = common.rng("C01", "kf-radial")
    glyphs = S.thin_bar_scenario(r, parse_overflow=True)
    cfg = build.base_config(color_format="glyf_colr_1", keep_glyph_names=True, clip_to_viewbox=False)
    srcs = CC.sources_from(glyphs)
    chk.case(key="kf-radial", nontrivial=True)
    try:
        build.build(cfg, srcs, already_pico=True)
    except OverflowError as e:
        tb = traceback.format_exc()
        key = KF_RADIAL if ("_parse_radial_gradient" in tb and "check_overflows" in tb) else None
        chk.violation(f"a picosvg-normal source with an objectBoundingBox radial gradient on a thin bar does not compile: {e}",
                      {"svgs": [s.svg_text for s in srcs]}, finding_key=key)
    except Exception as e:
        chk.violation(f"valid source fails to compile: {type(e).__name__}: {e}", {"svgs": [s.svg_text for s in srcs]})


def corpus(chk):
    """Every sample SVG of the repository that picosvg accepts."""
    from picosvg.svg import SVG

    files = sorted(glob.glob(str(common.repo_root() / "tests" / "*.svg")))
    n = 0
    for f in files:
        name = Path(f).name
        if "_from_colr" in name or "otsvg" in name:
            continue
        try:
            ptext = SVG.fromstring(open(f).read()).topicosvg().tostring()
        except Exception:
            continue
        cfg = build.base_config(color_format="glyf_colr_1", keep_glyph_names=True, clip_to_viewbox=False)
        src = build.Src("emoji_u1f600.svg", ptext)
        replay = {"kind": "corpus", "file": name, "svgs": [ptext]}
        chk.case(key=("corpus", name), nontrivial=ptext.count("<path") >= 2)
        try:
            _, font = build.build(cfg, [src], already_pico=True)
        except Exception as e:
            chk.notes.setdefault("corpus_build_failures", []).append(f"{name}: {type(e).__name__}")
            continue
        n += 1
        CC.check_font_pictures(chk, font, cfg, [src], None, 0.1, f"corpus {name}", replay, deltas=None)
    chk.notes["corpus_files_checked"] = n


def stop_alpha_grid(chk, pid="C01"):
    """colour spelling (own alpha or not) x stop-opacity x shape opacity, compiled to COLRv1 and compared with the source."""
    for k, (label, glyphs) in enumerate(S.stop_alpha_grid()):
        flavour = CC.FLAVOURS[k % len(CC.FLAVOURS)]
        cfgkw = dict(color_format=flavour, keep_glyph_names=True, reuse_tolerance=0.1, clip_to_viewbox=False)
        cfg = build.base_config(**cfgkw)
        srcs = CC.sources_from(glyphs)
        replay = {"kind": "stop-alpha", "label": label, "config": {a: str(b) for a, b in cfgkw.items()}, "svgs": [x.svg_text for x in srcs]}
        chk.case(key=("stop-alpha", label), nontrivial=True)
        chk.traces_validated += 1
        try:
            _, font = build.build(cfg, srcs, already_pico=True)
        except Exception as e:
            chk.violation(f"valid sources fail to compile [{label}] ({flavour}): {type(e).__name__}: {str(e)[:200]}", replay)
            continue
        CC.check_font_pictures(chk, font, cfg, srcs, glyphs, 0.1, f"alpha grid [{label}] [{flavour}]", replay, deltas=CC.layer_deltas(glyphs, cfg, 0.1))


def run(chk):
    quick = chk.tier == "quick"
    chk.rule = (
        "Compile.tla scenarios (all lists of <=3 layers over shape classes x rational placements x fills, cut into <=2 "
        "glyphs) model-checked for SamePicture/FillSame/OrderKept/Representable/StoredOnce; a seed-selected sample is "
        "concretised, compiled (glyf/cff/cff2 COLRv1, 8 metric/transform/quantisation variants), reloaded and compared "
        "layer by layer by the independent layer oracle; plus random continuous scenarios from the same grammar "
        "(gradients in both unit systems, gradientTransform, spread, focal point, stop opacity, opacity groups, "
        "palette variables, currentColor, odd viewBoxes) and the repository's sample SVGs.  Non-trivial = the scenario "
        "has a reuse hit (model) / >=2 layers (random); distinct by abstract scenario."
    )
    # trusted base first: the SVG-side oracle must agree with an independent renderer (MachineryError otherwise)
    from . import oracle_selftest

    chk.notes["oracle_selftest_vs_resvg"] = oracle_selftest.svg_side(24 if quick else 200)
    recs = CC.run_compile_model(chk, "quick" if quick else "small")
    chk.notes["model_scenarios"] = len(recs)
    replay_model_scenarios(chk, recs, 90 if quick else 2500)
    random_scenarios(chk, 60 if quick else 2500)
    painted_check.run(chk)     # the SVG-tree -> Paint-tree front end, exhaustively over small document trees
    painted_check.end_to_end(chk, CC.FLAVOURS, lambda c, font, cfg, srcs, ctx, replay:
                             CC.check_font_pictures(c, font, cfg, srcs, None, 0.1, ctx, replay))
    nested_groups(chk)
    coincidence_scenarios(chk, 60 if quick else 2000)
    transform_fill_grid(chk)
    reuse_fill_grid(chk)
    stop_alpha_grid(chk)
    corpus(chk)
    radial_overflow_finding(chk)
    compile_trace.run(chk, 30 if quick else 400)
    chk.assumptions += [
        "COLRv1 semantics as implemented by harness/oracle_colr.py (validated against 44 repository SVGs and, for "
        "COLRv0/SVG sides, FreeType/resvg in oracle-selftest)",
        "picosvg normalize/affine_between behave as stated in Compile.tla",
        "inputs are samples of an infinite space; exhaustive only over the abstract scenario grammar within bounds",
    ]


def replay(path):
    print(open(path).read()[:8000])
    return 0
