"""Third-party-style COLR fonts built directly with fontTools (FontBuilder + colorLib), independent of nanoemoji:
arbitrary supported paint graphs, glyph orders, palettes, kerning/mark lookups.  Used by C12 and C13."""
import io
import math

UPEM = 1000
ASC, DESC = 800, -200

SHAPES = {
    # simple outlines in font units (y up)
    "rect": [[(100, 100), (500, 100), (500, 400), (100, 400)]],
    "tri": [[(200, 50), (800, 50), (500, 600)]],
    "L": [[(100, 0), (400, 0), (400, 200), (250, 200), (250, 700), (100, 700)]],
    "ring": [[(100, 100), (700, 100), (700, 700), (100, 700)], [(300, 300), (300, 500), (500, 500), (500, 300)]],
}
TOKENS = {
    "a": {"Format": 14, "dx": 120, "dy": -60},                                   # PaintTranslate
    "b": {"Format": 16, "scaleX": 0.5, "scaleY": 0.75},                          # PaintScale
    "c": {"Format": 24, "angle": 30.0},                                          # PaintRotate
    "d": {"Format": 12, "Transform": (0.8, 0.2, -0.3, 1.1, 40, 25)},             # PaintTransform
    "e": {"Format": 18, "scaleX": -1.0, "scaleY": 1.0, "centerX": 400, "centerY": 0},   # PaintScaleAroundCenter (mirror)
    "f": {"Format": 28, "xSkewAngle": 15.0, "ySkewAngle": 0.0},                  # PaintSkew
    "g": {"Format": 26, "angle": -45.0, "centerX": 300, "centerY": 300},         # PaintRotateAroundCenter
    "h": {"Format": 22, "scale": 1.5, "centerX": 200, "centerY": 100},           # PaintScaleUniformAroundCenter
    "i": {"Format": 20, "scale": 0.6},                                           # PaintScaleUniform
    "j": {"Format": 30, "xSkewAngle": 0.0, "ySkewAngle": -20.0, "centerX": 100, "centerY": 500},  # PaintSkewAroundCenter
}


def _glyph(contours):
    from fontTools.pens.ttGlyphPen import TTGlyphPen

    pen = TTGlyphPen(None)
    for c in contours:
        pen.moveTo(c[0])
        for p in c[1:]:
            pen.lineTo(p)
        pen.closePath()
    return pen.glyph()


class Builder:
    def __init__(self, r, n_palettes=1, with_space=True, composite=False):
        self.r = r
        self.order = [".notdef"] + ([ "space"] if with_space else [])
        self.glyphs = {".notdef": _glyph(SHAPES["rect"])}
        if with_space:
            self.glyphs["space"] = _glyph([])
        self.cmap = {0x20: "space"} if with_space else {}
        self.adv = {n: 600 for n in self.order}
        self.colr = {}
        self.n_palettes = n_palettes
        self.palette = [(0.9, 0.1, 0.1, 1.0), (0.1, 0.3, 0.9, 1.0), (0.1, 0.7, 0.2, 1.0), (0.9, 0.8, 0.1, 0.5), (0, 0, 0, 1.0)]
        self.outlines = []
        self.composite = composite

    def add_outline(self, shape=None):
        name = f"o{len(self.outlines)}"
        shape = shape or self.r.choice(sorted(SHAPES))
        self.outlines.append(name)
        self.order.append(name)
        self.glyphs[name] = _glyph(SHAPES[shape])
        self.adv[name] = 1000
        return name

    def add_composite_outline(self, base):
        """A composite glyf glyph (component with offset) for 'PaintGlyph over composite glyphs'."""
        from fontTools.pens.ttGlyphPen import TTGlyphPen

        name = f"c{len(self.outlines)}"
        pen = TTGlyphPen({base: self.glyphs[base]})
        pen.addComponent(base, (1, 0, 0, 1, 150, 80))
        g = pen.glyph()
        self.outlines.append(name)
        self.order.append(name)
        self.glyphs[name] = g
        self.adv[name] = 1000
        return name

    def add_color_glyph(self, cp, paint, name=None):
        name = name or f"u{cp:04X}"
        self.order.append(name)
        self.glyphs[name] = _glyph([])
        self.cmap[cp] = name
        self.adv[name] = self.r.choice([1000, 1000, 1200, 800])
        self.colr[name] = paint
        return name

    def font(self, version=1, fea=None):
        from fontTools.fontBuilder import FontBuilder

        fb = FontBuilder(UPEM, isTTF=True)
        fb.setupGlyphOrder(self.order)
        fb.setupCharacterMap(self.cmap)
        fb.setupGlyf(self.glyphs)
        fb.setupHorizontalMetrics({n: (self.adv[n], 0) for n in self.order})
        # a third-party font's hhea line box need not be its typographic one (the em box maximum_color scales artwork by)
        hd = getattr(self, "hhea_delta", (0, 0))
        fb.setupHorizontalHeader(ascent=ASC + hd[0], descent=DESC - hd[1])
        fb.setupNameTable({"familyName": "Third", "styleName": "Regular"})
        fb.setupOS2(sTypoAscender=ASC, sTypoDescender=DESC, sTypoLineGap=0, fsSelection=0x80)
        fb.setupPost()
        # further palettes: every entry takes the NEXT entry's colour (so that black, too, becomes something else) and keeps
        # its own alpha
        n = len(self.palette)
        pals = [self.palette] + [[self.palette[(i + k) % n][:3] + (self.palette[i][3],) for i in range(n)]
                                 for k in range(1, self.n_palettes)]
        fb.setupCPAL(pals)
        if version == 0:
            fb.setupCOLR({g: layers for g, layers in self.colr.items()}, version=0)
        else:
            fb.setupCOLR(self.colr)
        if fea:
            fb.addOpenTypeFeatures(fea)
        buf = io.BytesIO()
        fb.save(buf)
        return buf.getvalue()


def solid(r, npal=5, foreground=False):
    if foreground:
        return {"Format": 2, "PaletteIndex": 0xFFFF, "Alpha": r.choice([1.0, 0.5])}
    return {"Format": 2, "PaletteIndex": r.randrange(npal), "Alpha": r.choice([1.0, 1.0, 0.5])}


def gradient(r, npal=5):
    stops = [{"StopOffset": 0.0, "PaletteIndex": r.randrange(npal), "Alpha": 1.0},
             {"StopOffset": r.choice([1.0, 0.7]), "PaletteIndex": r.randrange(npal), "Alpha": r.choice([1.0, 0.5])}]
    line = {"ColorStop": stops, "Extend": r.choice(["pad", "repeat", "reflect"])}
    if r.random() < 0.5:
        x0, y0 = r.randrange(100, 300), r.randrange(100, 300)
        x1, y1 = x0 + r.randrange(200, 500), y0 + r.randrange(-100, 300)
        if r.random() < 0.5:   # rotated p2
            x2, y2 = x0 + r.randrange(-300, -50), y0 + r.randrange(100, 400)
        else:
            x2, y2 = x0 - (y1 - y0), y0 + (x1 - x0)
        return {"Format": 4, "ColorLine": line, "x0": x0, "y0": y0, "x1": x1, "y1": y1, "x2": x2, "y2": y2}
    x1, y1, r1 = r.randrange(200, 500), r.randrange(200, 500), r.randrange(150, 400)
    if r.random() < 0.5:
        return {"Format": 6, "ColorLine": line, "x0": x1, "y0": y1, "r0": 0, "x1": x1, "y1": y1, "r1": r1}
    return {"Format": 6, "ColorLine": line, "x0": x1 + r.randrange(-60, 60), "y0": y1 + r.randrange(-60, 60),
            "r0": r.randrange(5, 40), "x1": x1, "y1": y1, "r1": r1}


def paint_from_tree(tree, b: Builder, r, token_map=None, colr_glyphs=None):
    """ColrToSvg.tla tree -> colorLib paint dict; tokens become concrete transform paints; fills random."""
    token_map = token_map if token_map is not None else {}
    k = tree["k"]
    if k == "solid":
        return solid(r)
    if k == "grad":
        return gradient(r)
    if k == "glyph":
        base = b.add_outline()
        if b.composite and r.random() < 0.4:
            base = b.add_composite_outline(base)
        return {"Format": 10, "Glyph": base, "Paint": paint_from_tree(tree["ch"], b, r, token_map, colr_glyphs)}
    if k == "xf":
        if tree["t"] not in token_map:
            token_map[tree["t"]] = r.choice(sorted(TOKENS))
        d = dict(TOKENS[token_map[tree["t"]]])
        d["Paint"] = paint_from_tree(tree["ch"], b, r, token_map, colr_glyphs)
        return d
    if k == "layers":
        return {"Format": 1, "Layers": [paint_from_tree(c, b, r, token_map, colr_glyphs) for c in tree["ch"]]}
    if k == "group":
        return {"Format": 32, "CompositeMode": "src_in", "SourcePaint": paint_from_tree(tree["ch"], b, r, token_map, colr_glyphs),
                "BackdropPaint": {"Format": 2, "PaletteIndex": 4, "Alpha": r.choice([0.5, 0.25, 0.8])}}
    if k == "colrglyph":
        # the referenced colour glyph is a separate base glyph
        sub = paint_from_tree(tree["ch"], b, r, token_map, colr_glyphs)
        name = f"sub{len(colr_glyphs)}"
        colr_glyphs[name] = sub
        return {"Format": 11, "Glyph": name}
    raise ValueError(k)
