"""C16, gradients: GradXform.tla states replayed into _decompose_uniform_transform / apply_transform, and
'same colour at corresponding points' judged by the independent gradient evaluator on the decompiled paint."""
import math

from . import common, oracle_grad as G
from .common import MachineryError


def _q(j):
    return j["n"] / j["d"]


def _close(a, b, tol=1e-6):
    return all(abs(x - y) <= tol * max(1.0, abs(y)) for x, y in zip(a, b))


def _replay_decompose(chk, records):
    from nanoemoji import paint as P
    from nanoemoji.paint import ColorStop, Extend
    from nanoemoji.colors import Color
    from picosvg.geometric_types import Point
    from picosvg.svg_transform import Affine2D

    stops = (ColorStop(0.0, Color(255, 0, 0, 1.0)), ColorStop(1.0, Color(0, 0, 255, 0.5)))
    for n, rec in enumerate(records):
        T = tuple(_q(x) for x in rec["T"])
        U = tuple(_q(x) for x in rec["U"])
        Rm = tuple(_q(x) for x in rec["R"])
        replay = {"kind": "decompose", "T": T, "model": {"U": U, "R": Rm, "outcome": rec["outcome"]}}
        chk.case(key=("gx", n), nontrivial=not _close(Rm, G.IDENT))
        u, r = P._decompose_uniform_transform(Affine2D(*T))
        # property level: R o U = T, U is a similarity (uniform scale, optional y flip, translation)
        comp = G.mul(tuple(r), tuple(u))
        # "up to OpenType fixed-point precision": linear part to 2^-16, translation far below the integer
        # rounding of the circle coordinates (the code rounds the residual to 9 digits, which moves a
        # translation of 1e5 units by ~1e-4)
        lin_ok = all(abs(comp[i] - T[i]) <= 2 ** -16 for i in range(4))
        tr_ok = all(abs(comp[i] - T[i]) <= 1e-2 for i in (4, 5))
        if not (lin_ok and tr_ok):
            chk.violation(f"uniform part {tuple(u)} and residual {tuple(r)} compose to {comp}, not {T}", replay)
            continue
        if abs(u.b) > 1e-9 or abs(u.c) > 1e-9 or abs(abs(u.a) - abs(u.d)) > 1e-9 * max(1, abs(u.a)):
            chk.violation(f"'uniform' part {tuple(u)} is not a uniform scale + translation", replay)
            continue
        if not (_close(tuple(u), U) and _close(tuple(r), Rm)):
            chk.notes["decompose_drift"] = chk.notes.get("decompose_drift", 0) + 1
        g = rec["g"]
        grad = P.PaintRadialGradient(
            extend=Extend.PAD, stops=stops,
            c0=Point(_q(g["c0"][0]), _q(g["c0"][1])), c1=Point(_q(g["c1"][0]), _q(g["c1"][1])),
            r0=_q(g["r0"]), r1=_q(g["r1"]),
        )
        try:
            res = grad.apply_transform(Affine2D(*T))
            err = None
        except OverflowError as e:
            err = "OverflowError"
        if (err == "OverflowError") != (rec["outcome"] == "OverflowError"):
            # which side is right is decided by the binary below, not by the model
            chk.notes["overflow_drift"] = chk.notes.get("overflow_drift", 0) + 1
        if err is None:
            _check_same_colour(chk, grad, res, T, replay)


class _C:  # palette entries in fontTools form
    def __init__(self, c):
        self.red, self.green, self.blue, self.alpha = c.red, c.green, c.blue, 255


def _fills(paint):
    """(fill read from the unrounded ufo2ft dict, fill read from the compiled binary or None if it does not fit)"""
    from nanoemoji import paint as P
    from .c16 import _roundtrip
    from . import oracle_colr

    colors = sorted({s.color.opaque() for s in _find_gradient(paint).stops})
    pal = [_C(c) for c in colors]
    d = P.PaintGlyph(glyph="b", paint=paint).to_ufo_paint(colors)
    exact = oracle_colr.fill_of(oracle_colr.DictPaint(d).Paint, pal)
    try:
        binary = oracle_colr.fill_of(_roundtrip(d).Paint, pal)
    except Exception:
        binary = None
    return exact, binary


def _find_gradient(p):
    while hasattr(p, "paint"):
        p = p.paint
    return p


def _src_eval(grad, p):
    """Evaluate the *source* nanoemoji gradient (plain parameters) with the independent evaluator."""
    mode = grad.extend.name.lower()
    stops = sorted((s.stopOffset, (s.color.red, s.color.green, s.color.blue, s.color.alpha)) for s in grad.stops)
    if hasattr(grad, "p0"):
        t = G.linear_t_colr(tuple(grad.p0), tuple(grad.p1), tuple(grad.p2), p)
    else:
        t = G.radial_t(tuple(grad.c0), grad.r0, tuple(grad.c1), grad.r1, p, mode)
    if t is None:
        return None
    return G.color_at(stops, t, mode)


def _check_same_colour(chk, grad, res, T, replay, r=None):
    """colour of res at T(p) == colour of grad at p: tightly on the unrounded paint dict, and through the compiled
    binary with a slack derived from integer rounding of the gradient geometry."""
    exact, binary = _fills(res)
    if binary is None:
        chk.notes["grad_compile_errors"] = chk.notes.get("grad_compile_errors", 0) + 1
    r = r or common.rng("c16g", str(T))
    if hasattr(grad, "p0"):
        cx, cy = grad.p0
        span = max(1.0, math.hypot(grad.p1[0] - grad.p0[0], grad.p1[1] - grad.p0[1]))
    else:
        cx, cy = grad.c1
        span = max(1.0, grad.r1)
    pts = [(cx + r.uniform(-1.5, 1.5) * span, cy + r.uniform(-1.5, 1.5) * span) for _ in range(24)]
    # smallest stretch of T: the mapped gradient is at least smin*span long
    a, b, c, d = T[:4]
    s1 = a * a + b * b + c * c + d * d
    s2 = math.sqrt(max(s1 * s1 - 4 * (a * d - b * c) ** 2, 0.0))
    smin = math.sqrt(max((s1 - s2) / 2, 0.0))
    offs = sorted(s.stopOffset for s in grad.stops)
    min_gap = min([y - x for x, y in zip(offs, offs[1:]) if y > x] or [1.0])
    slope = 1.0 / min_gap
    mapped_len = smin * span
    bin_slack = 255.0 * slope * (2.5 / max(mapped_len, 1e-9)) + 2.0
    check_binary = binary is not None and mapped_len >= 150
    if binary is not None and not check_binary:
        chk.notes["grad_binary_skipped_small"] = chk.notes.get("grad_binary_skipped_small", 0) + 1
    bad_exact = bad_bin = 0
    worst = 0.0
    for p in pts:
        want = _src_eval(grad, p)
        q = G.mapp(T, p)
        if want is None:
            continue
        got = exact.at(q)
        if got is not None:
            dd = max(max(abs(want[i] - got[i]) for i in range(3)), abs(want[3] - got[3]) * 255.0)
            if dd > 1.0 + 255.0 * slope * 1e-6:
                bad_exact += 1
                worst = max(worst, dd)
        if check_binary:
            got = binary.at(q)
            if got is not None:
                dd = max(max(abs(want[i] - got[i]) for i in range(3)), abs(want[3] - got[3]) * 255.0)
                if dd > bin_slack:
                    bad_bin += 1
                    worst = max(worst, dd)
    # a couple of points may sit on a pad/repeat/radial-edge discontinuity
    if bad_exact > 2 or bad_bin > 3:
        chk.violation(
            f"gradient mapped through {T}: {bad_exact} (unrounded) / {bad_bin} (binary) of {len(pts)} sample points "
            f"change colour (worst {worst:.1f}/255)",
            dict(replay, grad=repr(grad), result=repr(res)),
        )


def _random_gradients(chk, count):
    from nanoemoji import paint as P
    from nanoemoji.paint import ColorStop, Extend
    from nanoemoji.colors import Color
    from picosvg.geometric_types import Point
    from picosvg.svg_transform import Affine2D

    r = common.rng("c16-grad-random")
    for n in range(count):
        stops = tuple(
            ColorStop(o, Color(r.randrange(256), r.randrange(256), r.randrange(256), r.choice([1.0, 0.5, 0.25])))
            for o in sorted({0.0, 1.0} | {round(r.random(), 2) for _ in range(r.randrange(3))})
        )
        ext = r.choice(list(Extend))
        a = r.uniform(0, 2 * math.pi)
        sx, sy = r.choice([1, 8, 0.5, 20]) * r.uniform(0.5, 1.5), r.choice([1, 8, 0.5, -8]) * r.uniform(0.5, 1.5)
        sh = r.choice([0, 0, 0.3])
        lin = G.mul((math.cos(a), math.sin(a), -math.sin(a), math.cos(a), 0, 0), (sx, 0, sh * sy, sy, 0, 0))
        if r.random() < 0.4:
            lin = (sx, 0, 0, sy, 0, 0)
        T = (lin[0], lin[1], lin[2], lin[3], r.uniform(-500, 500), r.uniform(-500, 1500))
        if r.random() < 0.5:
            p0 = Point(r.uniform(0, 100), r.uniform(0, 100))
            p1 = Point(p0[0] + r.uniform(10, 80), p0[1] + r.uniform(-40, 40))
            grad = P.PaintLinearGradient(extend=ext, stops=stops, p0=p0, p1=p1)
        else:
            c1 = Point(r.uniform(20, 100), r.uniform(20, 100))
            r1 = r.uniform(10, 60)
            if r.random() < 0.5:
                c0, r0 = c1, 0.0
            else:  # focal point inside the end circle
                ang, d = r.uniform(0, 6.28), r.uniform(0, 0.6) * r1
                c0, r0 = Point(c1[0] + d * math.cos(ang), c1[1] + d * math.sin(ang)), r.choice([0.0, 0.1 * r1])
            grad = P.PaintRadialGradient(extend=ext, stops=stops, c0=c0, c1=c1, r0=r0, r1=r1)
        chk.case(key=("gr", n), nontrivial=True)
        replay = {"kind": "gradient-random", "T": T, "grad": repr(grad)}
        try:
            res = grad.apply_transform(Affine2D(*T))
        except OverflowError:
            continue  # an error, not a wrap
        _check_same_colour(chk, grad, res, T, replay, r)


def run(chk):
    res = common.run_tlc("GradXform", "GradXform.cfg", timeout=900)
    chk.add_tlc(res, "GradXform (exhaustive)")
    if not res.ok:
        chk.tlc_violation(res, "GradXform")
    vac = res.vacuous_actions()
    if vac:
        raise MachineryError(f"vacuous actions in GradXform: {vac}")
    if len(res.records) < 100:
        raise MachineryError("too few GradXform states")
    chk.traces_validated += len(res.records)
    chk.sample({"GradXform": res.records[0]})
    _replay_decompose(chk, res.records)
    _random_gradients(chk, 400 if chk.tier == "quick" else 6000)
