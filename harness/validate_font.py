"""Structural validation of an emitted font (C07): what renderers and sanitisers rely on, read from the saved binary.
Independent of nanoemoji; uses fontTools only to decompile and, for orderings fontTools hides, the raw table bytes."""
import io
import re
import struct

from . import oracle_otsvg


def _raw(font, tag):
    return font.reader[tag] if hasattr(font, "reader") and font.reader and tag in font.reader else None


def validate(data: bytes, expect_names=None, ctx="", bitmap_gids=None):
    """-> list of problem strings.  expect_names: True/False/None = glyph names requested / not / unknown.
    bitmap_gids: glyph ids that must carry exactly one bitmap (the colour glyphs of a CBDT / sbix build)."""
    from fontTools.ttLib import TTFont

    problems = []
    try:
        font = TTFont(io.BytesIO(data), lazy=False)
        for tag in font.keys():
            font[tag]
    except Exception as e:
        return [f"{ctx}font does not load/decompile fully: {type(e).__name__}: {str(e)[:120]}"]
    # 1. re-save and compare table by table
    try:
        buf = io.BytesIO()
        font.save(buf)
        again = TTFont(io.BytesIO(buf.getvalue()), lazy=False)
        if sorted(again.keys()) != sorted(font.keys()):
            problems.append(f"{ctx}re-saved font has tables {sorted(again.keys())} != {sorted(font.keys())}")
        else:
            orig = TTFont(io.BytesIO(data))
            for tag in orig.keys():
                if tag in ("GlyphOrder", "head"):
                    continue
                a, b = orig.reader[tag] if tag in orig.reader else None, again.reader[tag] if tag in again.reader else None
                if a is not None and b is not None and a != b:
                    # byte differences are tolerated only if the decompiled content is equal
                    try:
                        xa, xb = io.StringIO(), io.StringIO()
                        from fontTools.misc.xmlWriter import XMLWriter

                        orig[tag].toXML(XMLWriter(xa), orig) if hasattr(orig[tag], "toXML") else None
                        again[tag].toXML(XMLWriter(xb), again) if hasattr(again[tag], "toXML") else None
                        if xa.getvalue() != xb.getvalue():
                            problems.append(f"{ctx}table {tag} changes when the font is re-saved")
                    except Exception as e:
                        problems.append(f"{ctx}table {tag} cannot be dumped after re-save: {type(e).__name__}")
    except Exception as e:
        problems.append(f"{ctx}font cannot be re-saved: {type(e).__name__}: {str(e)[:120]}")
    order = font.getGlyphOrder()
    n = len(order)
    # 2. glyph set agreement
    if font["maxp"].numGlyphs != n:
        problems.append(f"{ctx}maxp.numGlyphs {font['maxp'].numGlyphs} != {n}")
    if len(font["hmtx"].metrics) != n or set(font["hmtx"].metrics) != set(order):
        problems.append(f"{ctx}hmtx covers {len(font['hmtx'].metrics)} glyphs, glyph order has {n}")
    if "glyf" in font:
        if set(font["glyf"].keys()) != set(order):
            problems.append(f"{ctx}glyf and glyph order disagree")
    elif "CFF " in font:
        cs = font["CFF "].cff.topDictIndex[0].CharStrings
        if set(cs.keys()) != set(order):
            problems.append(f"{ctx}CFF CharStrings and glyph order disagree")
    elif "CFF2" in font:
        cs = font["CFF2"].cff.topDictIndex[0].CharStrings
        if set(cs.keys()) != set(order):
            problems.append(f"{ctx}CFF2 CharStrings and glyph order disagree")
    else:
        problems.append(f"{ctx}no outline table")
    if order[0] != ".notdef":
        problems.append(f"{ctx}glyph 0 is {order[0]}")
    for table in font["cmap"].tables:
        for cp, g in table.cmap.items():
            if g not in font.getReverseGlyphMap():
                problems.append(f"{ctx}cmap maps U+{cp:04X} to unknown glyph {g}")
                break
    post = font["post"].formatType
    if "glyf" in font and expect_names is not None:
        want = 2.0 if expect_names else 3.0
        if post != want:
            problems.append(f"{ctx}post format {post} (glyph names requested: {expect_names})")
    # 3. COLR
    if "COLR" in font:
        npal = len(font["CPAL"].palettes[0]) if "CPAL" in font else 0
        raw = TTFont(io.BytesIO(data)).reader["COLR"]
        version, nbase, obase, olayer, nlayer = struct.unpack(">HHIIH", raw[:14])
        prev = -1
        for i in range(nbase):
            gid, first, num = struct.unpack(">HHH", raw[obase + 6 * i: obase + 6 * i + 6])
            if gid <= prev:
                problems.append(f"{ctx}COLR v0 base glyph records not sorted by glyph id ({prev} then {gid})")
            prev = gid
            if gid >= n or first + num > nlayer:
                problems.append(f"{ctx}COLR v0 base record {gid}: layers {first}+{num} of {nlayer}, {n} glyphs")
        for i in range(nlayer):
            gid, pal = struct.unpack(">HH", raw[olayer + 4 * i: olayer + 4 * i + 4])
            if gid >= n or (pal != 0xFFFF and pal >= npal):
                problems.append(f"{ctx}COLR v0 layer {i}: glyph {gid} / palette index {pal} out of range")
        if version >= 1:
            t = font["COLR"].table
            rev = font.getReverseGlyphMap()
            if t.BaseGlyphList:
                gids = [rev.get(r.BaseGlyph, -1) for r in t.BaseGlyphList.BaseGlyphPaintRecord]
                if gids != sorted(gids) or len(set(gids)) != len(gids) or (gids and gids[0] < 0):
                    problems.append(f"{ctx}COLR v1 BaseGlyphPaintRecords not sorted/unique by glyph id: {gids[:10]}")
            nl = len(t.LayerList.Paint) if t.LayerList else 0
            seen = set()

            def walk(p, depth=0):
                if id(p) in seen or depth > 64:
                    return
                seen.add(id(p))
                name = p.getFormatName()
                if name == "PaintColrLayers" and p.FirstLayerIndex + p.NumLayers > nl:
                    problems.append(f"{ctx}PaintColrLayers {p.FirstLayerIndex}+{p.NumLayers} beyond LayerList ({nl})")
                if hasattr(p, "Glyph") and p.Glyph not in rev:
                    problems.append(f"{ctx}{name} references unknown glyph {p.Glyph}")
                if hasattr(p, "PaletteIndex") and p.PaletteIndex != 0xFFFF and p.PaletteIndex >= npal:
                    problems.append(f"{ctx}{name} palette index {p.PaletteIndex} >= {npal}")
                if hasattr(p, "ColorLine") and p.ColorLine is not None:
                    for s in p.ColorLine.ColorStop:
                        if s.PaletteIndex != 0xFFFF and s.PaletteIndex >= npal:
                            problems.append(f"{ctx}{name} stop palette index {s.PaletteIndex} >= {npal}")
                for attr in ("Paint", "SourcePaint", "BackdropPaint"):
                    ch = getattr(p, attr, None)
                    if ch is not None:
                        walk(ch, depth + 1)

            if t.BaseGlyphList:
                for r in t.BaseGlyphList.BaseGlyphPaintRecord:
                    walk(r.Paint)
            if t.LayerList:
                for p in t.LayerList.Paint:
                    walk(p)
            if t.ClipList:
                for g in t.ClipList.clips:
                    if g not in rev:
                        problems.append(f"{ctx}ClipList names unknown glyph {g}")
    # 4. SVG
    if "SVG " in font:
        prev_end = -1
        for text, start, end in oracle_otsvg.svg_records(font):
            if start > end or start <= prev_end or end >= n:
                problems.append(f"{ctx}SVG document range {start}..{end} not sorted/disjoint/in range (previous end {prev_end})")
            prev_end = max(prev_end, end)
            try:
                doc = oracle_otsvg.Doc(text)
            except Exception as e:
                problems.append(f"{ctx}SVG document {start}..{end} is not well-formed: {e}")
                continue
            if doc.dup_ids:
                problems.append(f"{ctx}duplicate ids {doc.dup_ids[:3]} in SVG document {start}..{end}")
            for e in doc.root.iter():
                if not isinstance(e.tag, str):
                    continue
                eid = e.attrib.get("id", "")
                if re.fullmatch(r"glyph\d+", eid) and not (start <= int(eid[5:]) <= end):
                    problems.append(f"{ctx}element {eid} in document for glyph ids {start}..{end}")
                ref = e.attrib.get(oracle_otsvg.XLINK_HREF) or (e.attrib.get("href") if e.tag.endswith("}use") else None)
                if ref:
                    tgt = doc.by_id.get(ref.lstrip("#"))
                    if tgt is None:
                        problems.append(f"{ctx}href {ref} does not resolve inside its document")
                    else:
                        def owner(x):
                            while x is not None:
                                if re.fullmatch(r"glyph\d+", x.attrib.get("id", "")):
                                    return x.attrib["id"]
                                x = x.getparent()
                            return None

                        if owner(tgt) is not None and owner(e) != owner(tgt):
                            problems.append(f"{ctx}{owner(e)} references {ref} inside {owner(tgt)}")
                fill = e.attrib.get("fill", "")
                if fill.startswith("url("):
                    m = re.match(r"url\(\s*#([^)]+)\)", fill)
                    if not m or m.group(1) not in doc.by_id:
                        problems.append(f"{ctx}paint {fill} does not resolve inside its document")
            for gid in range(start, end + 1):
                pass
    # 5. CBLC / CBDT
    if "CBLC" in font:
        rev = font.getReverseGlyphMap()
        covered = {}
        for si, (st, data) in enumerate(zip(font["CBLC"].strikes, font["CBDT"].strikeData)):
            for sub in st.indexSubTables:
                gids = [rev[nm] for nm in sub.names]
                if gids != list(range(gids[0], gids[0] + len(gids))):
                    problems.append(f"{ctx}CBLC strike {si}: index subtable glyph ids not consecutive: {gids[:8]}")
                for nm in sub.names:
                    key = (st.bitmapSizeTable.ppemX, nm)
                    covered[key] = covered.get(key, 0) + 1
                    if nm not in data:
                        problems.append(f"{ctx}CBLC strike {si} indexes {nm} but CBDT has no bitmap for it")
            if not (st.bitmapSizeTable.startGlyphIndex <= st.bitmapSizeTable.endGlyphIndex < n):
                problems.append(f"{ctx}CBLC strike {si} glyph range out of order/range")
        dup = [k for k, v in covered.items() if v != 1]
        if dup:
            problems.append(f"{ctx}glyphs with several bitmaps at one ppem: {dup[:4]}")
        if bitmap_gids is not None:
            have = {rev[nm] for (_ppem, nm) in covered}
            missing = sorted(set(bitmap_gids) - have)
            if missing:
                problems.append(f"{ctx}colour glyph ids {missing} have no bitmap in CBDT (exactly one per glyph expected)")
    if "sbix" in font and bitmap_gids is not None:
        order = font.getGlyphOrder()
        for ppem, strike in font["sbix"].strikes.items():
            missing = sorted(g for g in bitmap_gids if not (strike.glyphs.get(order[g]) and strike.glyphs[order[g]].imageData))
            if missing:
                problems.append(f"{ctx}colour glyph ids {missing} have no image in the sbix strike at {ppem} ppem")
    return problems
