------------------------------ MODULE ClipBox ------------------------------
(***************************************************************************)
(* C05.  write_font._bounds + _quantize_bounding_rect: the clip box of a   *)
(* colour glyph is the union of the (transformed) control bounds of its    *)
(* PaintGlyphs, each edge rounded with otRound (floor(x + 1/2)), then      *)
(* pushed outwards to a multiple of the quantisation step q (> 1 only).    *)
(* Exact rationals; one action per layer folded into the running union,    *)
(* then Round, then Quantize.                                              *)
(***************************************************************************)
EXTENDS Integers, Sequences, FiniteSets, TLC, Json, Rat, Quantize

CONSTANTS Coords,     \* set of rationals a layer edge may take
          Steps,      \* quantisation steps to explore
          MaxLayers

\* values on both sides of every rounding / quantisation boundary
CoordSet == {<<-41, 2>>, <<-20, 1>>, <<-1, 2>>, <<0, 1>>, <<5, 2>>, <<7, 1>>, <<39, 2>>, <<20, 1>>, <<101, 4>>}
CoordSetSmall == {<<-41, 2>>, <<-1, 2>>, <<5, 2>>, <<7, 1>>, <<39, 2>>}
NoneR == [none |-> TRUE]
Rects == {r \in [x0 : Coords, y0 : Coords, x1 : Coords, y1 : Coords] : RLt(r.x0, r.x1) /\ RLt(r.y0, r.y1)}
VARIABLES layers, q, i, acc, box, phase
vars == <<layers, q, i, acc, box, phase>>

RMin(a, b) == IF RLt(a, b) THEN a ELSE b
OtRound(x) == RFloor(RAdd(x, <<1, 2>>))
\* FloorTo / CeilTo: module Quantize (their outwardness for every n and every step is proved in QuantizeProof.tla)

Init == /\ layers \in UNION {[1..n -> Rects] : n \in 0..MaxLayers}
        /\ q \in Steps /\ i = 1 /\ acc = NoneR /\ box = NoneR /\ phase = "union"
Fold == /\ phase = "union" /\ i <= Len(layers)
        /\ acc' = IF acc = NoneR THEN layers[i]
                  ELSE [x0 |-> RMin(acc.x0, layers[i].x0), y0 |-> RMin(acc.y0, layers[i].y0),
                        x1 |-> RMax(acc.x1, layers[i].x1), y1 |-> RMax(acc.y1, layers[i].y1)]
        /\ i' = i + 1 /\ UNCHANGED <<layers, q, box, phase>>
Round == /\ phase = "union" /\ i > Len(layers)
         /\ box' = IF acc = NoneR THEN NoneR
                   ELSE [x0 |-> OtRound(acc.x0), y0 |-> OtRound(acc.y0), x1 |-> OtRound(acc.x1), y1 |-> OtRound(acc.y1)]
         /\ phase' = "quantize" /\ UNCHANGED <<layers, q, i, acc>>
Quantize == /\ phase = "quantize"
            /\ box' = IF box = NoneR \/ q <= 1 THEN box
                      ELSE [x0 |-> FloorTo(box.x0, q), y0 |-> FloorTo(box.y0, q), x1 |-> CeilTo(box.x1, q), y1 |-> CeilTo(box.y1, q)]
            /\ phase' = "done" /\ UNCHANGED <<layers, q, i, acc>>
Next == Fold \/ Round \/ Quantize
Spec == Init /\ [][Next]_vars

-----------------------------------------------------------------------------
Done == phase = "done"
Half == <<1, 2>>
\* the box may cut at most the rounding error (half a unit) off any layer
Contains == (Done /\ box # NoneR) => \A k \in DOMAIN layers :
    /\ RLe(RSub(RI(box.x0), Half), layers[k].x0) /\ RLe(RSub(RI(box.y0), Half), layers[k].y0)
    /\ RLe(layers[k].x1, RAdd(RI(box.x1), Half)) /\ RLe(layers[k].y1, RAdd(RI(box.y1), Half))
\* with q > 1 nothing is cut at all unless the rounded edge is itself a multiple of q
Multiples == (Done /\ box # NoneR /\ q > 1) => box.x0 % q = 0 /\ box.y0 % q = 0 /\ box.x1 % q = 0 /\ box.y1 % q = 0
\* not wastefully large: each edge is within q (+ rounding) of the content
Tight == (Done /\ box # NoneR) =>
    /\ RLt(RSub(acc.x0, RI(q + 1)), RI(box.x0)) /\ RLt(RI(box.x1), RAdd(acc.x1, RI(q + 1)))
    /\ RLt(RSub(acc.y0, RI(q + 1)), RI(box.y0)) /\ RLt(RI(box.y1), RAdd(acc.y1, RI(q + 1)))
NoBoxIffNoLayers == Done => ((box = NoneR) <=> (Len(layers) = 0))
RJ(x) == [n |-> x[1], d |-> x[2]]
Export == Done => PrintT(<<"VERIF", ToJson([q |-> q,
    layers |-> [k \in DOMAIN layers |-> [x0 |-> RJ(layers[k].x0), y0 |-> RJ(layers[k].y0), x1 |-> RJ(layers[k].x1), y1 |-> RJ(layers[k].y1)]],
    box |-> IF box = NoneR THEN << >> ELSE <<box.x0, box.y0, box.x1, box.y1>>])>>)
=============================================================================
