SPECIFICATION TSpec
CONSTANTS
  Elems = {1, 2, 3, 4, 5, 6, 7, 8, 9, 10, 11, 12, 13, 14, 15, 16}
  MaxOps = 0
  LinkRoots = TRUE
INVARIANT Forest
