SPECIFICATION Spec
INVARIANT CacheSound
