------------------------------ MODULE Palette ------------------------------
(***************************************************************************)
(* C15.  colors.uniq_sort_cpal_colors as a PlusCal algorithm (one label    *)
(* per loop iteration of the code), checked against a declarative          *)
(* statement of what a CPAL palette must look like.                        *)
(*                                                                         *)
(* A colour is [v, idx]: v is the rank of its RGBA tuple in ascending      *)
(* tuple order (the harness concretises ranks to real RGBA values that     *)
(* respect the order), idx is the explicit palette index or NoIdx.         *)
(* Black is the token the code uses for gaps and for the empty input.      *)
(***************************************************************************)
EXTENDS Integers, Sequences, FiniteSets, TLC, Json, FiniteSetsExt, SequencesExt

CONSTANTS NVals,      \* number of distinct RGBA values in the universe
          MaxIdx,     \* explicit indices range over 0..MaxIdx
          MaxColors   \* input sets have at most this many colours

MaxRank == NVals
INSTANCE PaletteOps
Univ  == [v : 0..(NVals - 1), idx : {NoIdx} \cup (0..MaxIdx)]
Inputs == UNION {kSubset(k, Univ) : k \in 0..MaxColors}

(* --fair algorithm Palette
variables
  input \in Inputs,
  all = {}, slots = 0, deque = << >>, result = << >>, i = 0, outcome = "running";
begin
Collect:
  all := Effective(input);
CheckIdx:
  if Conflict(all) then
    outcome := "ValueError";
    goto Done;
  end if;
Size:
  slots := Slots(all);
  deque := SortedDeque(all, Slots(all));
  result := [k \in 1..Slots(all) |-> Black];
Loop:
  while i < slots do
    if deque = << >> then
      outcome := "IndexError";      \* cpal_colors[0] on an empty deque
      goto Done;
    elsif Head(deque).idx = i then
      result[i + 1] := Head(deque);
      deque := Tail(deque);
      i := i + 1;
    elsif Last(deque).idx = NoIdx then
      result[i + 1] := Last(deque);
      deque := Front(deque);
      i := i + 1;
    else
      i := i + 1;                   \* more gaps than unindexed colours: stays black
    end if;
  end while;
Final:
  outcome := IF deque = << >> THEN "ok" ELSE "AssertionError";
end algorithm *)
\* BEGIN TRANSLATION
VARIABLES pc, input, all, slots, deque, result, i, outcome

vars == << pc, input, all, slots, deque, result, i, outcome >>

Init == (* Global variables *)
        /\ input \in Inputs
        /\ all = {}
        /\ slots = 0
        /\ deque = << >>
        /\ result = << >>
        /\ i = 0
        /\ outcome = "running"
        /\ pc = "Collect"

Collect == /\ pc = "Collect"
           /\ all' = Effective(input)
           /\ pc' = "CheckIdx"
           /\ UNCHANGED << input, slots, deque, result, i, outcome >>

CheckIdx == /\ pc = "CheckIdx"
            /\ IF Conflict(all)
                  THEN /\ outcome' = "ValueError"
                       /\ pc' = "Done"
                  ELSE /\ pc' = "Size"
                       /\ UNCHANGED outcome
            /\ UNCHANGED << input, all, slots, deque, result, i >>

Size == /\ pc = "Size"
        /\ slots' = Slots(all)
        /\ deque' = SortedDeque(all, Slots(all))
        /\ result' = [k \in 1..Slots(all) |-> Black]
        /\ pc' = "Loop"
        /\ UNCHANGED << input, all, i, outcome >>

Loop == /\ pc = "Loop"
        /\ IF i < slots
              THEN /\ IF deque = << >>
                         THEN /\ outcome' = "IndexError"
                              /\ pc' = "Done"
                              /\ UNCHANGED << deque, result, i >>
                         ELSE /\ IF Head(deque).idx = i
                                    THEN /\ result' = [result EXCEPT ![i + 1] = Head(deque)]
                                         /\ deque' = Tail(deque)
                                         /\ i' = i + 1
                                    ELSE /\ IF Last(deque).idx = NoIdx
                                               THEN /\ result' = [result EXCEPT ![i + 1] = Last(deque)]
                                                    /\ deque' = Front(deque)
                                                    /\ i' = i + 1
                                               ELSE /\ i' = i + 1
                                                    /\ UNCHANGED << deque, 
                                                                    result >>
                              /\ pc' = "Loop"
                              /\ UNCHANGED outcome
              ELSE /\ pc' = "Final"
                   /\ UNCHANGED << deque, result, i, outcome >>
        /\ UNCHANGED << input, all, slots >>

Final == /\ pc = "Final"
         /\ outcome' = (IF deque = << >> THEN "ok" ELSE "AssertionError")
         /\ pc' = "Done"
         /\ UNCHANGED << input, all, slots, deque, result, i >>

(* Allow infinite stuttering to prevent deadlock on termination. *)
Terminating == pc = "Done" /\ UNCHANGED vars

Next == Collect \/ CheckIdx \/ Size \/ Loop \/ Final
           \/ Terminating

Spec == /\ Init /\ [][Next]_vars
        /\ WF_vars(Next)

Termination == <>(pc = "Done")

\* END TRANSLATION

-----------------------------------------------------------------------------
Finished == pc = "Done"

\* C15 on the model
ErrorIffConflict == Finished => ((outcome = "ValueError") <=> Conflict(Effective(input)))
NoInternalError  == outcome \notin {"IndexError", "AssertionError"}
PaletteGood      == (Finished /\ outcome = "ok") => GoodAscending(input, result)
NeverEmpty       == (Finished /\ outcome = "ok") => Len(result) >= 1
LoopInv == (pc = "Loop" /\ outcome = "running") =>
              /\ Len(deque) = Cardinality(all) - Cardinality({k \in 1..i : result[k] # Black \/ result[k] \in all})
              /\ \A k \in 1..i : result[k] = Black \/ result[k] \in all
Terminates == <>Finished

\* export terminal states for spec -> code replay (B1)
ColorJ(c) == [v |-> c.v, idx |-> c.idx]
Export == Finished =>
    PrintT(<<"VERIF", ToJson([in |-> SetToSeq({ColorJ(c) : c \in input}),
                              outcome |-> outcome,
                              out |-> IF outcome = "ok" THEN [k \in 1..Len(result) |-> ColorJ(result[k])] ELSE << >>])>>)
=============================================================================
