----------------------------- MODULE PartsProof -----------------------------
(***************************************************************************)
(* Parts.tla without the bound on the number of calls, by TLAPS: after ANY *)
(* sequence of add / merge / compute_donors / try_reuse / JSON round trips *)
(* a cached donor is the one the current shape set deserves (CacheFresh),  *)
(* provided the cache entry of a normal form is dropped whenever a shape   *)
(* is added under it (Invalidate).  TLC checks <= 6 calls and shows that   *)
(* without the drop the invariant breaks.                                  *)
(***************************************************************************)
EXTENDS Parts, TLAPS

ASSUME Inval == Invalidate = TRUE

TypeOK == /\ sets \in [Objects -> [Classes -> SUBSET Ids]]
          /\ DOMAIN cache = Objects
          /\ \A o \in Objects : DOMAIN cache[o] = Classes
Inv == TypeOK /\ CacheFresh

LEMMA InitInv == Init => Inv
  BY DEF Init, Inv, TypeOK, CacheFresh, Empty, Absent, Objects

LEMMA AddAllInv == ASSUME Inv, NEW o \in Objects, NEW S \in SUBSET Ids, AddAll(o, S) PROVE Inv'
<1>1. sets' = [sets EXCEPT ![o] = [c \in Classes |-> sets[o][c] \cup {s \in S : Shape[s].cls = c}]]
  BY DEF AddAll
<1>2. cache' = [cache EXCEPT ![o] = [c \in Classes |-> IF \E s \in S : Shape[s].cls = c THEN "absent" ELSE cache[o][c]]]
  BY Inval DEF AddAll
<1>3. TypeOK'
  BY <1>1, <1>2 DEF Inv, TypeOK
<1>4. CacheFresh'
  <2> SUFFICES ASSUME NEW p \in Objects, NEW c \in Classes, cache'[p][c] # "absent"
               PROVE sets'[p][c] # {} /\ cache'[p][c] = Best(sets'[p][c])
    BY DEF CacheFresh
  <2>1. CASE p # o
    BY <2>1, <1>1, <1>2 DEF Inv, TypeOK, CacheFresh
  <2>2. CASE p = o
    <3>1. cache'[o][c] = IF \E s \in S : Shape[s].cls = c THEN "absent" ELSE cache[o][c]
      BY <1>2 DEF Inv, TypeOK
    <3>2. ~(\E s \in S : Shape[s].cls = c) /\ cache[o][c] # "absent"
      BY <3>1, <2>2
    <3>3. sets'[o][c] = sets[o][c] \cup {s \in S : Shape[s].cls = c}
      BY <1>1 DEF Inv, TypeOK
    <3>4. sets'[o][c] = sets[o][c]
      BY <3>2, <3>3
    <3> QED BY <2>2, <3>1, <3>2, <3>4 DEF Inv, CacheFresh
  <2> QED BY <2>1, <2>2
<1> QED BY <1>3, <1>4 DEF Inv

LEMMA StepInv == Inv /\ [Next]_vars => Inv'
<1> SUFFICES ASSUME Inv, [Next]_vars PROVE Inv'
  OBVIOUS
<1>1. CASE UNCHANGED vars
  BY <1>1 DEF vars, Inv, TypeOK, CacheFresh
<1>2. ASSUME NEW o \in Objects, NEW S \in Docs, AddSvg(o, S) PROVE Inv'
  BY <1>2, AddAllInv DEF AddSvg, Docs
<1>3. ASSUME NEW o \in Objects, AddParts(o) PROVE Inv'
  <2>1. UNION {sets[o][c] : c \in Classes} \in SUBSET Ids
    BY DEF Inv, TypeOK
  <2>2. "merged" \in Objects
    BY DEF Objects
  <2> QED BY <1>3, <2>1, <2>2, AddAllInv DEF AddParts
<1>4. ASSUME NEW o \in Objects, ComputeDonors(o) PROVE Inv'
  <2>1. cache' = [cache EXCEPT ![o] = [c \in Classes |-> IF sets[o][c] = {} THEN "absent" ELSE Best(sets[o][c])]]
        /\ sets' = sets
    BY <1>4 DEF ComputeDonors
  <2> QED BY <2>1 DEF Inv, TypeOK, CacheFresh
<1>5. ASSUME NEW o \in Objects, NEW s \in Ids, Query(o, s) PROVE Inv'
  <2> DEFINE c == Shape[s].cls
  <2>0. c \in Classes
    BY DEF Classes
  <2>1. sets' = sets
    BY <1>5 DEF Query
  <2>2. CASE s \notin sets[o][c]
    <3>1. cache' = cache
      BY <1>5, <2>2 DEF Query
    <3> QED BY <2>1, <3>1 DEF Inv, TypeOK, CacheFresh
  <2>3. CASE s \in sets[o][c]
    <3> DEFINE d == IF cache[o][c] = "absent" THEN Best(sets[o][c]) ELSE cache[o][c]
    <3>1. cache' = [cache EXCEPT ![o][c] = d]
      BY <1>5, <2>3 DEF Query
    <3>2. d = Best(sets[o][c]) /\ sets[o][c] # {}
      BY <2>3, <2>0 DEF Inv, CacheFresh
    <3> QED BY <2>0, <2>1, <3>1, <3>2 DEF Inv, TypeOK, CacheFresh
  <2> QED BY <2>2, <2>3
<1>6. ASSUME NEW o \in Objects, RoundTrip(o) PROVE Inv'
  BY <1>6 DEF RoundTrip, Inv, TypeOK, CacheFresh
<1> QED BY <1>1, <1>2, <1>3, <1>4, <1>5, <1>6 DEF Next

THEOREM Safety == Spec => []CacheFresh
<1>1. Inv => CacheFresh
  BY DEF Inv
<1> QED BY InitInv, StepInv, <1>1, PTL DEF Spec
=============================================================================
