SPECIFICATION Spec
CONSTANTS
  Elems = {1, 2, 3, 4}
  MaxOps = 5
  LinkRoots = TRUE
VIEW View
INVARIANT Forest
INVARIANT ParentsKnown
INVARIANT PartitionIsClosure
INVARIANT JoinedKnown
PROPERTY Monotone
INVARIANT Export
