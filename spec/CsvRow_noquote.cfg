SPECIFICATION Spec
CONSTANTS
  MaxLen = 3
  QuoteLeadingBlank = FALSE
INVARIANT RoundTrip
