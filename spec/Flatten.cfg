SPECIFICATION Spec
CONSTANTS
  MaxLeaves = 4
  Xfs = {"I", "T"}
  Order = "dfs"
INVARIANT EachLeafOnce
INVARIANT ZOrderWhenFlat
INVARIANT ZOrder
INVARIANT Export
