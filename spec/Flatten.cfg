SPECIFICATION Spec
CONSTANTS
  MaxLeaves = 4
  Xfs = {"I", "T"}
INVARIANT EachLeafOnce
INVARIANT ZOrderWhenFlat
INVARIANT Export
