SPECIFICATION Spec
CONSTANTS
  CompareIndex = FALSE
INVARIANT FollowsPalette
