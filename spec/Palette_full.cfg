SPECIFICATION Spec
CONSTANTS
  NVals = 3
  MaxIdx = 6
  MaxColors = 7
INVARIANT ErrorIffConflict
INVARIANT NoInternalError
INVARIANT PaletteGood
INVARIANT NeverEmpty
INVARIANT LoopInv
