------------------------------ MODULE Quantize ------------------------------
(* write_font._quantize_bounding_rect on one integer edge: down / up to a multiple of the step. *)
(* Shared by ClipBox.tla (model-checked by TLC) and QuantizeProof.tla (proved by TLAPS).        *)
EXTENDS Integers
FloorTo(n, s) == (n \div s) * s                      \* \div floors (also for negatives)
CeilTo(n, s) == -FloorTo(-n, s)
=============================================================================
