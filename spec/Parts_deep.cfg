SPECIFICATION Spec
CONSTANTS
  Invalidate = TRUE
  MaxSteps = 6
VIEW View
INVARIANT CacheFresh
INVARIANT NoAssert
INVARIANT Partition
INVARIANT MergeIsUnion
PROPERTY Grow
