SPECIFICATION Spec
CONSTANTS
  Elems = {1, 2, 3, 4}
  MaxOps = 5
  LinkRoots = FALSE
VIEW View
INVARIANT PartitionIsClosure
