------------------------------ MODULE Flatten ------------------------------
(***************************************************************************)
(* C03.  How COLRv0 layers and glyf components are derived from a colour   *)
(* glyph's Paint trees: write_font._colr0_layers / _glyf_ufo walk every    *)
(* top-level paint with Paint.depth_first (a LIFO frontier carrying the    *)
(* accumulated transform; Order = "dfs") and emit one layer / component    *)
(* per PaintGlyph.  Order = "bfs" is the FIFO walk (Paint.breadth_first)   *)
(* the pinned tree used: TLC then violates ZOrder as soon as a reused copy *)
(* or a nested group sits inside an opacity group (fixed in /repo).        *)
(*                                                                         *)
(* Trees have the shapes the compiler produces: a leaf is a PaintGlyph,    *)
(* optionally wrapped in ONE transform (shape reuse); an opacity group is  *)
(* PaintComposite(SRC_IN, PaintColrLayers(children), solid black).         *)
(* Nodes:  [k |-> "glyph", id, t]   t = "I" or the reuse transform token   *)
(*         [k |-> "group", ch]     ch = sequence of nodes                  *)
(***************************************************************************)
EXTENDS Integers, Sequences, FiniteSets, TLC, Json, SequencesExt

CONSTANTS MaxLeaves, Xfs,    \* e.g. Xfs = {"I", "T"}
          Order             \* "dfs" (the code) | "bfs" (the pinned tree)

Leaf(i, t) == [k |-> "glyph", id |-> i, t |-> t]
\* all forests with leaves numbered 1..n in z-order, groups of >= 2 children, nesting depth <= 2
RECURSIVE Forests(_, _, _)
Forests(lo, hi, depth) ==      \* set of sequences of nodes whose leaves are exactly lo..hi in order
    IF lo > hi THEN {<< >>}
    ELSE UNION {
           \* first node is a leaf
           {<<Leaf(lo, t)>> \o rest : t \in Xfs, rest \in Forests(lo + 1, hi, depth)}
           \cup
           \* first node is a group spanning lo..m (m > lo), if depth allows
           (IF depth = 0 THEN {}
            ELSE UNION {{<<[k |-> "group", ch |-> inner]>> \o rest :
                            inner \in {f \in Forests(lo, m, depth - 1) : Len(f) >= 2}, rest \in Forests(m + 1, hi, depth)}
                        : m \in (lo + 1)..hi})
         : dummy \in {0}}

VARIABLES roots, ri, frontier, emitted
vars == <<roots, ri, frontier, emitted>>

RECURSIVE LeavesOf(_)
LeavesOf(f) == IF f = << >> THEN << >>
               ELSE (IF Head(f).k = "glyph" THEN <<Head(f)>> ELSE LeavesOf(Head(f).ch)) \o LeavesOf(Tail(f))
\* a copy can only be a reuse of an outline registered EARLIER in z-order (the migration walks depth-first)
WellFormed(f) == LET ls == LeavesOf(f) IN \A i \in DOMAIN ls : ls[i].t # "I" => \E j \in 1..(i - 1) : ls[j].t = "I"
Init == /\ roots \in {f \in UNION {Forests(1, n, 2) : n \in 1..MaxLeaves} : WellFormed(f)}
        /\ ri = 1 /\ frontier = << >> /\ emitted = << >>

StartRoot ==    \* for paint in color_glyph.painted_layers: ... root.breadth_first()
    /\ frontier = << >> /\ ri <= Len(roots)
    /\ frontier' = <<[n |-> roots[ri], acc |-> <<>>]>>
    /\ ri' = ri + 1 /\ UNCHANGED <<roots, emitted>>
Push(rest, new) == IF Order = "dfs" THEN new \o rest ELSE rest \o new
Visit ==        \* context = frontier.pop(); yield; children pushed with the accumulated transform
    /\ frontier # << >>
    /\ LET c == Head(frontier) IN
       IF c.n.k = "glyph" /\ c.n.t # "I"
       THEN \* a reused copy is PaintTransform(PaintGlyph): the wrapper is visited first, its PaintGlyph child is
            \* appended to the END of the frontier with the accumulated transform (so it is emitted after its
            \* later siblings when it sits inside a group)
            /\ frontier' = Push(Tail(frontier), <<[n |-> Leaf(c.n.id, "I"), acc |-> c.acc \o <<c.n.t>>]>>)
            /\ UNCHANGED emitted
       ELSE IF c.n.k = "glyph"
       THEN /\ emitted' = Append(emitted, [id |-> c.n.id, xf |-> c.acc])
            /\ frontier' = Tail(frontier)
       ELSE IF c.n.k = "group"     \* PaintComposite: children are (source = PaintColrLayers, backdrop = PaintSolid)
       THEN /\ frontier' = Push(Tail(frontier), <<[n |-> [k |-> "layers", ch |-> c.n.ch], acc |-> c.acc],
                                                    [n |-> [k |-> "solid"], acc |-> c.acc]>>)
            /\ UNCHANGED emitted
       ELSE IF c.n.k = "layers"    \* PaintColrLayers: its children in order
       THEN /\ frontier' = Push(Tail(frontier), [i \in DOMAIN c.n.ch |-> [n |-> c.n.ch[i], acc |-> c.acc]])
            /\ UNCHANGED emitted
       ELSE /\ frontier' = Tail(frontier) /\ UNCHANGED emitted      \* the backdrop: nothing to emit
    /\ UNCHANGED <<roots, ri>>
Next == StartRoot \/ Visit
Spec == Init /\ [][Next]_vars

-----------------------------------------------------------------------------
Done == frontier = << >> /\ ri > Len(roots)
RECURSIVE Depth(_)
Depth(f) == IF f = << >> THEN 0
            ELSE LET h == IF Head(f).k = "glyph" THEN 0 ELSE 1 + Depth(Head(f).ch)
                     r == Depth(Tail(f)) IN IF h > r THEN h ELSE r
\* C03: every source outline is placed exactly once, with exactly its own placing transform
EachLeafOnce == Done =>
    /\ Len(emitted) = Len(LeavesOf(roots))
    /\ \A l \in Range(LeavesOf(roots)) :
         Cardinality({j \in DOMAIN emitted : emitted[j].id = l.id}) = 1
         /\ \E j \in DOMAIN emitted : emitted[j].id = l.id /\ emitted[j].xf = (IF l.t = "I" THEN <<>> ELSE <<l.t>>)
\* C03 / C06: layers come out in source z-order - for every forest when the walk is depth-first; the FIFO walk only
\* guarantees it for sources without group opacity (Depth = 0)
ZOrder == Done => \A j \in DOMAIN emitted : emitted[j].id = j
ZOrderWhenFlat == (Done /\ Depth(roots) = 0) => \A j \in DOMAIN emitted : emitted[j].id = j

RECURSIVE NodeJ(_)
NodeJ(n) == IF n.k = "glyph" THEN [k |-> "glyph", id |-> n.id, t |-> n.t]
            ELSE [k |-> "group", ch |-> [i \in DOMAIN n.ch |-> NodeJ(n.ch[i])]]
Export == Done => PrintT(<<"VERIF", ToJson([roots |-> [i \in DOMAIN roots |-> NodeJ(roots[i])],
                                            emitted |-> emitted, depth |-> Depth(roots)])>>)
=============================================================================
