SPECIFICATION Spec
INVARIANT AmbiguityStops
INVARIANT NoFalseRejection
INVARIANT ErrorBeforeWrite
INVARIANT Export
