SPECIFICATION Spec
CONSTANTS
  KeyHasTransform = TRUE
  ResetPerDocument = TRUE
  MaxDocs = 2
  MaxFills = 3
INVARIANT HrefsClosed
INVARIANT SameGradient
INVARIANT DefinedOnce
INVARIANT IdsUnique
INVARIANT Export
PROPERTY Terminates
