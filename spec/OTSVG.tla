------------------------------- MODULE OTSVG -------------------------------
(***************************************************************************)
(* C02 / C07.  How svg.py assembles the OT-SVG documents of a picosvg      *)
(* build: element placement is an order-dependent protocol.                *)
(*                                                                         *)
(*  Group   (svg._glyph_groups): in INPUT order every layer either         *)
(*          registers as donor of its shape class or records a reuse of    *)
(*          the registered donor; glyphs that share are unioned.           *)
(*  Reorder (_ensure_groups_grouped_in_glyph_order): groups in sorted      *)
(*          order get consecutive glyph ids.                               *)
(*  Place   (_add_glyph): per document, glyphs in SORTED NAME order,       *)
(*          layers in order: a fresh <path>, or a <use> of the donor; the  *)
(*          donor <path> moves to <defs> when the reuse crosses glyphs or  *)
(*          the donor carries paint attributes a <use> cannot override;    *)
(*          a donor not yet assembled (it sorts AFTER its user) is         *)
(*          replaced by a stand-in <use> that is placed when its own       *)
(*          glyph is assembled.                                            *)
(*  Tidy    (_tidy_use_elements): a paint attribute common to all uses of  *)
(*          a target moves to the target.                                  *)
(*                                                                         *)
(* A layer is [c, a]: shape class and the paint attributes its fill needs  *)
(* ("none" = black opaque: no attribute at all).                           *)
(***************************************************************************)
EXTENDS Integers, Sequences, FiniteSets, TLC, Json, SequencesExt, FiniteSetsExt

CONSTANTS MaxGlyphs, MaxLayersPerGlyph, MaxLayers, NClasses, Attrs,  \* Attrs e.g. {"none", "A", "B"}
          MoveSingletons   \* TRUE = the code as it is: EVERY group, also a glyph that shares nothing, is re-appended to
                           \* the glyph order and has its stored glyph id refreshed.  FALSE (only groups that really
                           \* share are moved) is the tempting optimisation; TLC shows what it breaks (negative config)

Layer == [c : 1..NClasses, a : Attrs]
VARIABLES src,      \* input-order sequence of glyphs; glyph = [rank, layers]; rank = position in sorted name order
          phase,    \* "group" | "place" | "tidy" | "done" | "error"
          gi, li,   \* cursor (meaning depends on phase)
          donorOf,  \* class -> layer name <<g, i>> registered as donor (g = input index)
          reuse,    \* layer name -> donor layer name
          part,     \* glyph (input index) -> representative of its sharing group
          body,     \* glyph -> sequence of items placed in its <g id=glyphN>
          defs,     \* set of path names living in <defs>
          loc,      \* path name -> "unplaced" | "defs" | <<g, k>>  (where the <path> with that outline is)
          standin,  \* path names whose glyph_elements entry was replaced by a stand-in <use>
          tattr,    \* path name -> paint attribute currently on the <path> element
          order,    \* the font's glyph order restricted to colour glyphs (sequence of input indices)
          gid       \* glyph -> the glyph id STORED in its ColorGlyph (names <g id=glyphN>, gives the document ranges)
vars == <<src, phase, gi, li, donorOf, reuse, part, body, defs, loc, standin, tattr, order, gid>>

NG == Len(src)
Names == {<<g, i>> : g \in 1..NG, i \in 1..MaxLayersPerGlyph} \cap {n \in (1..NG) \X (1..MaxLayersPerGlyph) : n[2] <= Len(src[n[1]].layers)}
LayerOf(n) == src[n[1]].layers[n[2]]
\* glyphs in sorted-name order
ByRank == SortSeq([g \in 1..NG |-> g], LAMBDA x, y : src[x].rank < src[y].rank)

Ranks(n) == {p \in [1..n -> 1..n] : \A i, j \in 1..n : i # j => p[i] # p[j]}
Init == /\ \E n \in 1..MaxGlyphs : \E ranks \in Ranks(n) :
             \E ls \in [1..n -> UNION {[1..k -> Layer] : k \in 1..MaxLayersPerGlyph}] :
                /\ src = [g \in 1..n |-> [rank |-> ranks[g], layers |-> ls[g]]]
        /\ LET RECURSIVE Sum(_) Sum(k) == IF k = 0 THEN 0 ELSE Len(src[k].layers) + Sum(k - 1) IN Sum(Len(src)) <= MaxLayers
        /\ phase = "group" /\ gi = 1 /\ li = 1
        /\ donorOf = << >> /\ reuse = << >> /\ part = [g \in 1..Len(src) |-> g]
        /\ body = [g \in 1..Len(src) |-> << >>] /\ defs = {} /\ standin = {}
        /\ loc = << >> /\ tattr = << >>
        /\ order = [g \in 1..Len(src) |-> g] /\ gid = [g \in 1..Len(src) |-> g]      \* input order

Unplaced == [w |-> "unplaced", g |-> 0, k |-> 0]
InDefs == [w |-> "defs", g |-> 0, k |-> 0]
Put(f, k, v) == [x \in DOMAIN f \cup {k} |-> IF x = k THEN v ELSE f[x]]
NextCursor(ord) ==   \* advance (gi, li) through glyphs taken in `order` (a sequence of input indices); gi indexes order
    IF li < Len(src[ord[gi]].layers) THEN <<gi, li + 1>> ELSE <<gi + 1, 1>>

(* ---- Group: input order *)
GroupLayer ==
    /\ phase = "group" /\ gi <= NG
    /\ LET n == <<gi, li>>  c == LayerOf(n).c IN
       /\ loc' = Put(loc, n, Unplaced) /\ tattr' = Put(tattr, n, "none")
       /\ IF c \in DOMAIN donorOf
          THEN /\ reuse' = Put(reuse, n, donorOf[c])
               /\ LET a == part[gi]  b == part[donorOf[c][1]] IN       \* union of the two glyphs' groups
                  part' = [g \in DOMAIN part |-> IF part[g] = a THEN b ELSE part[g]]
               /\ UNCHANGED donorOf
          ELSE /\ donorOf' = Put(donorOf, c, n) /\ UNCHANGED <<reuse, part>>
    /\ LET nc == NextCursor([g \in 1..NG |-> g]) IN gi' = nc[1] /\ li' = nc[2]
    /\ UNCHANGED <<src, phase, body, defs, standin, order, gid>>
GroupDone ==
    /\ phase = "group" /\ gi > NG
    /\ phase' = "reorder" /\ gi' = 1 /\ li' = 1
    /\ UNCHANGED <<src, donorOf, reuse, part, body, defs, loc, standin, tattr, order, gid>>

(* ---- Reorder: documents = groups; a group is named by the sorted tuple of its member ranks *)
GroupOf(g) == {h \in 1..NG : part[h] = part[g]}
MinRank(S) == Min({src[h].rank : h \in S})
\* documents in sorted order of their (sorted) name tuples = order of their smallest rank; glyphs inside by rank
DocOrder == SortSeq(SetToSeq({GroupOf(g) : g \in 1..NG}), LAMBDA A, B : MinRank(A) < MinRank(B))
PlaceOrder ==  \* all glyphs: documents in order, members by rank
    LET RECURSIVE Cat(_) Cat(k) == IF k = 0 THEN << >> ELSE Cat(k - 1) \o SortSeq(SetToSeq(DocOrder[k]), LAMBDA x, y : src[x].rank < src[y].rank)
    IN Cat(Len(DocOrder))
\* first colour glyph id is 2 + #blank glyphs; here glyph ids are relative: position among the colour glyphs
\* (_ensure_groups_grouped_in_glyph_order): glyphs of the groups that move are taken out of the order and appended group
\* by group; ONLY those get their stored glyph id rewritten
MovedGroups == SelectSeq(DocOrder, LAMBDA G : MoveSingletons \/ Cardinality(G) > 1)
Appended == LET RECURSIVE Cat(_) Cat(k) == IF k = 0 THEN << >>
                                            ELSE Cat(k - 1) \o SortSeq(SetToSeq(MovedGroups[k]), LAMBDA x, y : src[x].rank < src[y].rank)
            IN Cat(Len(MovedGroups))
Reshuffle ==
    /\ phase = "reorder"
    /\ LET moving == {Appended[k] : k \in DOMAIN Appended}
           keep == SelectSeq(order, LAMBDA g : g \notin moving)
       IN /\ order' = keep \o Appended
          /\ gid' = [g \in DOMAIN gid |-> IF g \in moving THEN Len(keep) + (CHOOSE k \in DOMAIN Appended : Appended[k] = g) ELSE gid[g]]
    /\ phase' = "place"
    /\ UNCHANGED <<src, gi, li, donorOf, reuse, part, body, defs, loc, standin, tattr>>

(* ---- Place *)
UseItem(href, a) == [t |-> "use", ref |-> href, a |-> a]
PathItem(n, a) == [t |-> "path", ref |-> n, a |-> a]
PlaceLayer ==
    /\ phase = "place" /\ gi <= NG
    /\ LET g == PlaceOrder[gi]  n == <<g, li>>  paint == LayerOf(n).a IN
       IF n \in DOMAIN reuse
       THEN LET d == reuse[n] IN
            IF d \in standin /\ loc[d].w # "defs"
            THEN /\ phase' = "error" /\ UNCHANGED <<body, defs, loc, standin, tattr>>   \* xpath_one would fail
            ELSE
            /\ LET cross == d[1] # g
                   migrate == (cross \/ tattr[d] # "none") /\ loc[d].w # "defs"
                   b1 == [body EXCEPT ![g] = Append(@, UseItem(d, paint))]
               IN IF ~migrate THEN /\ body' = b1 /\ UNCHANGED <<defs, loc, standin, tattr>>
                  ELSE IF loc[d].w = "unplaced"
                  THEN \* donor's own glyph comes later: a stand-in <use> will take its place
                       /\ body' = b1 /\ standin' = standin \cup {d} /\ defs' = defs \cup {d}
                       /\ loc' = [loc EXCEPT ![d] = InDefs] /\ UNCHANGED tattr
                  ELSE \* donor already sits in glyph h at index k: a <use> replaces it there, paint attrs move to the <use>
                       LET h == loc[d].g  k == loc[d].k IN
                       /\ body' = [b1 EXCEPT ![h] = [@ EXCEPT ![k] = UseItem(d, tattr[d])]]
                       /\ defs' = defs \cup {d} /\ loc' = [loc EXCEPT ![d] = InDefs]
                       /\ tattr' = [tattr EXCEPT ![d] = "none"] /\ UNCHANGED standin
            /\ UNCHANGED phase
       ELSE \* not a reuse: the element registered for this layer is appended (a <path>, or its stand-in <use>)
            /\ IF n \in standin
               THEN /\ body' = [body EXCEPT ![g] = Append(@, UseItem(n, paint))] /\ UNCHANGED <<loc, tattr>>
               ELSE /\ body' = [body EXCEPT ![g] = Append(@, PathItem(n, paint))]
                    /\ loc' = [loc EXCEPT ![n] = [w |-> "glyph", g |-> g, k |-> Len(body[g]) + 1]]
                    /\ tattr' = [tattr EXCEPT ![n] = paint]
            /\ UNCHANGED <<defs, standin, phase>>
    /\ LET nc == NextCursor(PlaceOrder) IN gi' = nc[1] /\ li' = nc[2]
    /\ UNCHANGED <<src, donorOf, reuse, part, order, gid>>
PlaceDone ==
    /\ phase = "place" /\ gi > NG
    /\ phase' = "tidy" /\ UNCHANGED <<src, gi, li, donorOf, reuse, part, body, defs, loc, standin, tattr, order, gid>>

(* ---- Tidy: an attribute carried by every <use> of a target moves to the target - only when the target lives in
   <defs>.  (Without that condition TLC finds: one glyph, layers <<[c1, none], [c1, A]>>: the black donor <path> inside
   the glyph takes the fill of its single <use> and is repainted.  That was the behaviour of the pinned tree; fixed in
   /repo by a "fix:" commit, see known_findings.json.) *)
UsesOf(d) == {<<g, k>> \in (1..NG) \X (1..MaxLayersPerGlyph) : k \in DOMAIN body[g] /\ body[g][k].t = "use" /\ body[g][k].ref = d}
Tidy ==
    /\ phase = "tidy"
    /\ LET movable == {d \in Names : loc[d].w = "defs" /\ UsesOf(d) # {} /\ \E a \in Attrs \ {"none"} : \A u \in UsesOf(d) : body[u[1]][u[2]].a = a}
       IN /\ tattr' = [n \in DOMAIN tattr |-> IF n \in movable THEN body[(CHOOSE u \in UsesOf(n) : TRUE)[1]][(CHOOSE u \in UsesOf(n) : TRUE)[2]].a ELSE tattr[n]]
          /\ body' = [g \in DOMAIN body |-> [k \in DOMAIN body[g] |->
                        IF body[g][k].t = "use" /\ body[g][k].ref \in movable THEN [body[g][k] EXCEPT !.a = "none"] ELSE body[g][k]]]
    /\ phase' = "done" /\ UNCHANGED <<src, gi, li, donorOf, reuse, part, defs, loc, standin, order, gid>>

Next == GroupLayer \/ GroupDone \/ Reshuffle \/ PlaceLayer \/ PlaceDone \/ Tidy
Spec == Init /\ [][Next]_vars

-----------------------------------------------------------------------------
Done == phase = "done"
NoError == phase # "error"
\* what an item paints: (outline, paint attribute).  A <use> attribute applies unless the target has its own.
Effective(it) == IF it.t = "path" THEN <<it.ref, tattr[it.ref]>>
                 ELSE <<it.ref, IF tattr[it.ref] # "none" THEN tattr[it.ref] ELSE it.a>>
ClassOf(n) == LayerOf(n).c
\* C02: each glyph element paints its source layers, in order, each with its own paint, from an outline of its class
SamePicture == Done => \A g \in 1..NG :
    /\ Len(body[g]) = Len(src[g].layers)
    /\ \A k \in DOMAIN body[g] :
         /\ ClassOf(Effective(body[g][k])[1]) = src[g].layers[k].c
         /\ Effective(body[g][k])[2] = src[g].layers[k].a
\* C07: a <use> never targets an element inside another glyph's <g>
NoCrossGlyphRef == \A g \in DOMAIN body : \A k \in DOMAIN body[g] :
    body[g][k].t = "use" => (loc[body[g][k].ref].w = "defs" \/ (loc[body[g][k].ref].w = "glyph" /\ loc[body[g][k].ref].g = g))
\* C07: every href resolves inside its own document
HrefsClosed == Done => \A g \in 1..NG : \A k \in DOMAIN body[g] :
    body[g][k].t = "use" => /\ loc[body[g][k].ref].w # "unplaced"
                            /\ part[body[g][k].ref[1]] = part[g]
\* C04 / C07: the id stored in a colour glyph (it names the <g id=glyphN> element and gives its document's record) is
\* the glyph's position in the font's glyph order, so that cmap / GSUB, which follow the order, reach the artwork
GidIsPosition == phase \in {"place", "tidy", "done"} => \A g \in 1..NG : order[gid[g]] = g
\* C07: documents (records [min stored id, max stored id]) cover disjoint, contiguous ranges, each exactly its members
DocRanges == Done => \A i \in DOMAIN DocOrder :
    LET ids == {gid[g] : g \in DocOrder[i]} IN
    /\ Max(ids) - Min(ids) + 1 = Cardinality(ids)
    /\ \A j \in DOMAIN DocOrder : i # j => (Max(ids) < Min({gid[g] : g \in DocOrder[j]}) \/ Max({gid[g] : g \in DocOrder[j]}) < Min(ids))
\* every path outline lives in exactly one place
PlacedOnce == Done => \A n \in Names : n \notin DOMAIN reuse => loc[n].w # "unplaced"

ItemJ(it) == [t |-> it.t, ref |-> it.ref, a |-> it.a]
Export == (Done \/ phase = "error") =>
    PrintT(<<"VERIF", ToJson([src |-> src, phase |-> phase,
        docs |-> [i \in DOMAIN DocOrder |-> SortSeq(SetToSeq(DocOrder[i]), LAMBDA x, y : src[x].rank < src[y].rank)],
        body |-> [g \in DOMAIN body |-> [k \in DOMAIN body[g] |-> ItemJ(body[g][k])]],
        defs |-> SetToSeq(defs), order |-> order, gid |-> gid,
        tattr |-> [n \in {x \in DOMAIN tattr : tattr[x] # "none"} |-> tattr[n]]])>>)
=============================================================================
