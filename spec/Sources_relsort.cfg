SPECIFICATION Spec
CONSTANTS
  Dirs = {1, 2}
  Files = {5, 6, 7}
  SortAbsolute = FALSE
INVARIANT Canonical
