SPECIFICATION Spec
CONSTANTS
  Invalidate = FALSE
  MaxSteps = 4
VIEW View
INVARIANT CacheFresh
