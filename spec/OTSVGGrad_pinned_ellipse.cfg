SPECIFICATION Spec
CONSTANTS
  Level = "pinned"
INVARIANT SameEllipse
