----------------------------- MODULE PaletteOps -----------------------------
(***************************************************************************)
(* Pure operators shared by Palette (the slot-filling algorithm) and       *)
(* PaletteUse (glyph colours -> palette -> per-paint index/alpha).         *)
(* A palette colour is [v, idx]; v is the rank of its RGBA tuple.          *)
(***************************************************************************)
EXTENDS Integers, Sequences, FiniteSets, FiniteSetsExt, SequencesExt
CONSTANT MaxRank   \* ranks (v) range over 0..MaxRank-1

NoIdx == -1
Black == [v |-> -1, idx |-> NoIdx]


Max2(a, b) == IF a >= b THEN a ELSE b
MaxIdxOf(S) == LET I == {c.idx : c \in S} IN Max(I)   \* NoIdx = -1 when nothing is indexed
Conflict(S) == \E a, b \in S : a # b /\ a.idx # NoIdx /\ a.idx = b.idx
Effective(in) == IF in = {} THEN {Black} ELSE in
Slots(S) == Max2(Cardinality(S), MaxIdxOf(S) + 1)

\* sorted(all_colors, key=_color_sort_key): indexed colours by index, then the
\* unindexed ones by DEscending value (the key negates the RGBA tuple).
SortKey(c, slots) == IF c.idx # NoIdx THEN c.idx ELSE slots + (MaxRank - c.v)
SortedDeque(S, slots) ==
    SortSeq(SetToSeq(S), LAMBDA a, b : SortKey(a, slots) < SortKey(b, slots))

(***************************************************************************)
(* What the property demands of a palette `out` for input set `in`.        *)
(* AnyOrder: the property text (unindexed colours fill the lowest free     *)
(* slots, in SOME order).  Ascending: what the code documents and does.    *)
(***************************************************************************)
FreeSlots(S, n) == {k \in 0..(n - 1) : \A c \in S : c.idx # k}
Unindexed(S) == {c \in S : c.idx = NoIdx}
AscSeq(S) == SortSeq(SetToSeq(S), LAMBDA a, b : a.v < b.v)
IntSeq(S) == SortSeq(SetToSeq(S), LAMBDA a, b : a < b)

GoodCommon(in, out) ==
    LET S == Effective(in)
        n == Len(out)
    IN  /\ n = Slots(S)
        /\ n >= 1                                                  \* never empty
        /\ \A c \in S : c.idx # NoIdx => out[c.idx + 1] = c         \* explicit index honoured
        /\ \A c \in S : \E k \in 1..n : out[k] = c                  \* every colour present

GoodAnyOrder(in, out) ==
    LET S == Effective(in)
        free == IntSeq(FreeSlots(S, Len(out)))
        nu == Cardinality(Unindexed(S))
    IN  /\ GoodCommon(in, out)
        /\ {out[free[j] + 1] : j \in 1..nu} = Unindexed(S)          \* lowest free slots
        /\ \A j \in (nu + 1)..Len(free) : out[free[j] + 1] = Black   \* gaps are black

GoodAscending(in, out) ==
    LET S == Effective(in)
        free == IntSeq(FreeSlots(S, Len(out)))
        un == AscSeq(Unindexed(S))
    IN  /\ GoodAnyOrder(in, out)
        /\ \A j \in 1..Len(un) : out[free[j] + 1] = un[j]


\* The palette the code computes, in closed form (used by PaletteUse).
PaletteFn(in) ==
    LET S == Effective(in)
        n == Slots(S)
        free == FreeSlots(S, n)
        un == AscSeq(Unindexed(S))
    IN  [k \in 1..n |->
            IF \E c \in S : c.idx = k - 1 THEN CHOOSE c \in S : c.idx = k - 1
            ELSE LET j == Cardinality({f \in free : f <= k - 1})
                 IN  IF j <= Len(un) THEN un[j] ELSE Black]
IndexIn(pal, c) == CHOOSE k \in 1..Len(pal) : pal[k] = c
=============================================================================
