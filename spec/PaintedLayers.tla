--------------------------- MODULE PaintedLayers ---------------------------
(***************************************************************************)
(* C01 / C02 / C03 (shared front end).  color_glyph._painted_layers: from  *)
(* the picosvg document tree (shapes are leaves, <g opacity> groups nest)  *)
(* to the Paint tree, statement by statement:                              *)
(*                                                                         *)
(*   the nodes are visited in REVERSED pre-order (leaves first);           *)
(*   Shape   pad `layers` to the node's depth, append the PaintGlyph to    *)
(*           layers[depth]  (assert: nothing deeper is still open)         *)
(*   Group   pop layers[depth + 1] (its children, in reversed order),      *)
(*           assert 2+ children, append PaintComposite(ColrLayers(         *)
(*           reversed(children)), alpha) to layers[depth]                  *)
(*   Finish  assert one list is left; the result is its reverse            *)
(*                                                                         *)
(* A document is its pre-order list of [k, d] (kind, depth >= 1).  What    *)
(* must come out is defined declaratively from that list (children of a    *)
(* node = the following nodes one level deeper before the next node that   *)
(* is not deeper), independently of the stack discipline above.            *)
(* ReverseChildren = FALSE forgets the inner reversed() (negative          *)
(* configuration).                                                         *)
(***************************************************************************)
EXTENDS Integers, Sequences, FiniteSets, TLC, Json

CONSTANTS MaxNodes, MaxDepth, ReverseChildren

Node == [k : {"s", "g"}, d : 1..MaxDepth]
D(doc, i) == IF i = 0 THEN 0 ELSE doc[i].d
ChildSet(doc, i) == {j \in (i + 1)..Len(doc) : doc[j].d = D(doc, i) + 1 /\ \A m \in (i + 1)..(j - 1) : doc[m].d > D(doc, i)}
Valid(doc) == /\ doc[1].d = 1
              /\ \A i \in 1..(Len(doc) - 1) : doc[i + 1].d <= doc[i].d + (IF doc[i].k = "g" THEN 1 ELSE 0)
              /\ \A i \in 1..Len(doc) : doc[i].k = "g" => Cardinality(ChildSet(doc, i)) >= 2
Docs == UNION {{doc \in [1..n -> Node] : Valid(doc)} : n \in 1..MaxNodes}

\* ascending sequence of a finite set of integers
RECURSIVE Asc(_)
Asc(S) == IF S = {} THEN << >> ELSE LET m == CHOOSE x \in S : \A y \in S : x <= y IN <<m>> \o Asc(S \ {m})
RECURSIVE Term(_, _)
Term(doc, i) == IF doc[i].k = "s" THEN <<"s", i>>
                ELSE LET cs == Asc(ChildSet(doc, i)) IN <<"g", i, [n \in DOMAIN cs |-> Term(doc, cs[n])]>>
Expected(doc) == LET cs == Asc(ChildSet(doc, 0)) IN [n \in DOMAIN cs |-> Term(doc, cs[n])]

Rev(s) == [i \in DOMAIN s |-> s[Len(s) + 1 - i]]

VARIABLES doc, pos, layers, result, fin, err
vars == <<doc, pos, layers, result, fin, err>>

Init == /\ doc \in Docs /\ pos = Len(doc) /\ layers = << >> /\ result = << >> /\ fin = FALSE /\ err = ""
Cur == doc[pos]
Pad(ls, n) == ls \o [i \in 1..(n - Len(ls)) |-> << >>]
Shape == /\ pos >= 1 /\ err = "" /\ Cur.k = "s"
         /\ IF Len(layers) > Cur.d
            THEN err' = "assert len(layers) == depth" /\ UNCHANGED layers
            ELSE /\ layers' = [Pad(layers, Cur.d) EXCEPT ![Cur.d] = Append(@, <<"s", pos>>)]
                 /\ UNCHANGED err
         /\ pos' = pos - 1 /\ UNCHANGED <<doc, result, fin>>
Group == /\ pos >= 1 /\ err = "" /\ Cur.k = "g"
         /\ IF Len(layers) # Cur.d + 1
            THEN err' = "assert len(layers) == depth + 1" /\ UNCHANGED layers
            ELSE LET kids == layers[Cur.d + 1]
                     popped == SubSeq(layers, 1, Cur.d) IN
                 IF Len(kids) < 2 THEN err' = "assert 2+ children" /\ UNCHANGED layers
                 ELSE /\ layers' = [popped EXCEPT ![Cur.d] = Append(@, <<"g", pos, IF ReverseChildren THEN Rev(kids) ELSE kids>>)]
                      /\ UNCHANGED err
         /\ pos' = pos - 1 /\ UNCHANGED <<doc, result, fin>>
Finish == /\ pos = 0 /\ err = "" /\ ~fin
          /\ IF Len(layers) # 1 THEN err' = "assert len(layers) == 1" /\ UNCHANGED <<result, fin>>
             ELSE result' = Rev(layers[1]) /\ fin' = TRUE /\ UNCHANGED err
          /\ UNCHANGED <<doc, pos, layers>>
Next == Shape \/ Group \/ Finish
Spec == Init /\ [][Next]_vars

-----------------------------------------------------------------------------
\* no valid document trips an assertion
NoAssert == err = ""
\* same nesting, same order, same groups
TreeSame == fin => result = Expected(doc)
\* while walking, nothing deeper than the current node's parent chain stays open for ever: at most MaxDepth lists
Bounded == Len(layers) <= MaxDepth
Export == fin => PrintT(<<"VERIF", ToJson([doc |-> doc, n |-> Len(doc)])>>)
=============================================================================
