SPECIFICATION Spec
CONSTANTS
  Upems = {100, 1000, 1024, 2048}
  Vmetrics <- VmetricsDef
  WidthModes = {"zero", "half", "em", "double", "quad"}
  Heights = {32, 64, 128, 136, 255, 256}
  Aspects <- AspectsDef
  GidSets <- GidSetsDef
  CentreOn = "width"
INVARIANT PpemRule
INVARIANT VBox
INVARIANT HBox
INVARIANT AdvancePx
INVARIANT SbixOrigin
INVARIANT Rejects
INVARIANT StrikesPartition
INVARIANT Export
