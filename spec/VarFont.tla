------------------------------ MODULE VarFont ------------------------------
(***************************************************************************)
(* C18.  A multi-master configuration becomes a variable colour font:      *)
(*                                                                         *)
(*   LoadConfig     config.load / FontConfig.validate / .default           *)
(*   BuildMaster(m) nanoemoji.py write_ufo_build: one static build per     *)
(*                  master with a single-master config (independent ninja  *)
(*                  edges: any order)                                      *)
(*   Assemble       write_variable_font.main: axis min/max from the        *)
(*                  masters' positions, default from the axis table,       *)
(*                  source locations keyed by axis NAME                    *)
(*   Merge          ufo2ft.compileVariableTTF: structures must agree,      *)
(*                  regions (tents) per non-default master, deltas solved  *)
(*                  master by master (gvar, HVAR, COLR VarStore)           *)
(*                                                                         *)
(* and is then read by a renderer: value(loc) = default + sum of           *)
(* scalar(region, loc) * delta  (OpenType variation semantics).            *)
(*                                                                         *)
(* Geometry is one-dimensional (x): a colour glyph with two layers, a      *)
(* donor square A and a second square B.  With shape reuse on, B is stored *)
(* as a transform of A (paint.transformed picks translate / scale around   *)
(* centre / general affine); with reuse off B has its own outline.  The    *)
(* clip box is the static clip box of each master, interpolated.           *)
(* Exact rationals (Rat).                                                  *)
(***************************************************************************)
EXTENDS Integers, Sequences, FiniteSets, TLC, Json, Rat

CONSTANTS Reuse,      \* shape reuse on (default reuse_tolerance) / off (-1)
          Layouts,    \* set of [axes : Seq([tag, name, def]), masters : Seq([tag -> user position])]
          Sources,    \* set of [a : <<lo, hi>>, b : <<lo, hi>>, adv : Nat]  (font units)
          Q,          \* clipbox_quantization
          TDen        \* renderer locations explored: k / TDen on each axis

NoneR == [none |-> TRUE]
ErrR  == [error |-> TRUE]

\* ---- layouts: one or two axes, two or three masters, default first / last / middle / absent ----------------------
W(v) == [wght |-> v]
WD(v, w) == [wght |-> v, wdth |-> w]
AxW(d) == <<[tag |-> "wght", name |-> "Weight", def |-> d]>>
AxWD(d, e) == <<[tag |-> "wght", name |-> "Weight", def |-> d], [tag |-> "wdth", name |-> "Width", def |-> e]>>
LayoutSet == {
    [id |-> "two",        axes |-> AxW(300), masters |-> <<W(300), W(700)>>],
    [id |-> "two-rev",    axes |-> AxW(300), masters |-> <<W(700), W(300)>>],      \* default master listed last
    [id |-> "def-max",    axes |-> AxW(700), masters |-> <<W(300), W(700)>>],
    [id |-> "def-mid",    axes |-> AxW(500), masters |-> <<W(300), W(500), W(700)>>],
    [id |-> "inter",      axes |-> AxW(300), masters |-> <<W(300), W(400), W(700)>>],   \* intermediate master at 1/4
    [id |-> "inter-neg",  axes |-> AxW(700), masters |-> <<W(300), W(500), W(700)>>],   \* at -1/2
    [id |-> "two-axes",   axes |-> AxWD(300, 100), masters |-> <<WD(300, 100), WD(700, 100), WD(300, 200)>>],
    [id |-> "frac",       axes |-> AxW(175), masters |-> <<W(125), W(175), W(225)>>],   \* concretised at HALF these values
                                                                                     \* (62.5 / 87.5 / 112.5): fractional positions
    [id |-> "zero-mid",   axes |-> AxW(0), masters |-> <<W(-100), W(0), W(100)>>],    \* a default of ZERO (slant-like axes)
    [id |-> "zero-max",   axes |-> AxW(0), masters |-> <<W(-12), W(0)>>],             \* ... that is not the lowest master
    [id |-> "no-default", axes |-> AxW(400), masters |-> <<W(300), W(700)>>] }      \* rejected by config.default
LayoutSmall == {l \in LayoutSet : l.id \in {"two", "def-max", "inter", "no-default"}}

SourceSet == {
    [a |-> <<600, 700>>, b |-> <<100, 300>>, adv |-> 1000],    \* B = 2 x A: beyond F2Dot14, a general affine
    [a |-> <<700, 900>>, b |-> <<100, 700>>, adv |-> 1000],    \* B = 3 x A, donor moved and grown
    [a |-> <<600, 700>>, b |-> <<100, 200>>, adv |-> 1000],    \* B = A translated
    [a |-> <<650, 850>>, b |-> <<150, 350>>, adv |-> 1200],    \* translated, both grown, wider advance
    [a |-> <<600, 800>>, b |-> <<100, 400>>, adv |-> 1000],    \* B = 3/2 x A around the integral centre 1600
    [a |-> <<700, 800>>, b |-> <<100, 250>>, adv |-> 1200],    \* 3/2 again, centre 1900, donor moved
    [a |-> <<600, 800>>, b |-> <<100, 350>>, adv |-> 1000] }   \* 5/4 x A around 2600
SourceSmall == {s \in SourceSet : s.b \in {<<100, 300>>, <<100, 400>>, <<100, 200>>}}

VARIABLES layout, src,      \* the configuration: layout and per-master sources (inputs)
          cfg,              \* NoneR | ErrR | [default |-> master index]
          built,            \* master index -> NoneR | static build result
          ds,               \* NoneR | designspace [axes : tag -> [min, def, max], locs : master -> [name -> user]]
          vf                \* NoneR | ErrR | [regions, deltas, base]
vars == <<layout, src, cfg, built, ds, vf>>

M == DOMAIN layout.masters
Tags == {layout.axes[i].tag : i \in DOMAIN layout.axes}
AxisOf(tag) == CHOOSE i \in DOMAIN layout.axes : layout.axes[i].tag = tag
NameOf(tag) == layout.axes[AxisOf(tag)].name
DefOf(tag) == layout.axes[AxisOf(tag)].def

-----------------------------------------------------------------------------
(* the static pipeline for one master, reduced to what varies *)
InF2Dot14(s) == RLe(RI(-2), s) /\ RLt(s, RI(2))
Kind(s, e) ==      \* paint.transformed, uniform scale s and translation e (y mirrors x: same integrality)
    IF ~Reuse THEN "outline"
    ELSE IF s = ROne THEN (IF RIsInt(e) THEN "translate" ELSE "affine")
    ELSE IF ~InF2Dot14(s) THEN "affine"
    ELSE IF e = RZero THEN "scale"
    ELSE IF RIsInt(RDiv(e, RSub(ROne, s))) THEN "center" ELSE "affine"
FloorTo(n, s) == (n \div s) * s
CeilTo(n, s) == -FloorTo(-n, s)
Min(a, b) == IF a < b THEN a ELSE b
Max(a, b) == IF a < b THEN b ELSE a
Static(x) ==
    LET s == R(x.b[2] - x.b[1], x.a[2] - x.a[1])
        e == RSub(RI(x.b[1]), RMul(s, RI(x.a[1])))
        k == Kind(s, e)
    IN [kind |-> k,
        alo |-> RI(x.a[1]), ahi |-> RI(x.a[2]),
        blo |-> RI(x.b[1]), bhi |-> RI(x.b[2]),                       \* used by kind "outline" only
        s |-> s, e |-> e,
        c |-> IF k = "center" THEN RDiv(e, RSub(ROne, s)) ELSE RZero,
        clo |-> RI(FloorTo(Min(x.a[1], x.b[1]), Q)), chi |-> RI(CeilTo(Max(x.a[2], x.b[2]), Q)),
        adv |-> RI(x.adv)]
Items == {"alo", "ahi", "blo", "bhi", "s", "e", "c", "clo", "chi", "adv"}

-----------------------------------------------------------------------------
Init == /\ layout \in Layouts
        /\ src \in [DOMAIN layout.masters -> Sources]
        /\ cfg = NoneR /\ built = [m \in DOMAIN layout.masters |-> NoneR] /\ ds = NoneR /\ vf = NoneR

IsDefault(m) == \A t \in Tags : t \in DOMAIN layout.masters[m] /\ layout.masters[m][t] = DefOf(t)
LoadConfig ==      \* FontConfig.default(): the first master sitting at every axis default, else ValueError
    /\ cfg = NoneR
    /\ cfg' = IF \E m \in M : IsDefault(m) THEN [default |-> CHOOSE m \in M : IsDefault(m) /\ \A n \in M : IsDefault(n) => m <= n]
              ELSE ErrR
    /\ UNCHANGED <<layout, src, built, ds, vf>>

BuildMaster(m) ==  \* single-master config: this master's own sources, the shared options
    /\ cfg \notin {NoneR, ErrR} /\ built[m] = NoneR
    /\ built' = [built EXCEPT ![m] = Static(src[m])]
    /\ UNCHANGED <<layout, src, cfg, ds, vf>>

Positions(tag) == {layout.masters[m][tag] : m \in {n \in M : tag \in DOMAIN layout.masters[n]}}
SetMin(S) == CHOOSE x \in S : \A y \in S : x <= y
SetMax(S) == CHOOSE x \in S : \A y \in S : x >= y
Assemble ==        \* needs every master's UFO
    /\ cfg \notin {NoneR, ErrR} /\ ds = NoneR /\ \A m \in M : built[m] # NoneR
    /\ ds' = [axes |-> [t \in Tags |-> [min |-> SetMin(Positions(t)), def |-> DefOf(t), max |-> SetMax(Positions(t))]],
              locs |-> [m \in M |-> [n \in {NameOf(t) : t \in DOMAIN layout.masters[m]} |->
                                       layout.masters[m][CHOOSE t \in Tags : NameOf(t) = n]]]]
    /\ UNCHANGED <<layout, src, cfg, built, vf>>

\* designspace normalisation of a user value on an axis (-1 .. 0 .. 1), exact (the layouts give dyadic values)
Norm(ax, v) == IF v < ax.def THEN RNeg(R(ax.def - v, ax.def - ax.min))
               ELSE IF v > ax.def THEN R(v - ax.def, ax.max - ax.def) ELSE RZero
LocOf(m) == [t \in Tags |-> IF NameOf(t) \in DOMAIN ds.locs[m] THEN Norm(ds.axes[t], ds.locs[m][NameOf(t)]) ELSE RZero]
ZeroLoc == [t \in Tags |-> RZero]
OnAxis(loc) == Cardinality({t \in Tags : loc[t] # RZero}) = 1
AxisIn(loc) == CHOOSE t \in Tags : loc[t] # RZero

\* the tent of an on-axis master: from its inner neighbour (or 0) over its peak to its outer neighbour (or itself)
Region(m) ==
    LET loc == LocOf(m)
        t == AxisIn(loc)
        p == loc[t]
        same == {LocOf(n)[t] : n \in {k \in M : k # m /\ OnAxis(LocOf(k)) /\ AxisIn(LocOf(k)) = t /\ RSign(LocOf(k)[t]) = RSign(p)}}
        inner == {q \in same : RLt(RAbs(q), RAbs(p))}
        outer == {q \in same : RLt(RAbs(p), RAbs(q))}
        nearest(S, far) == CHOOSE q \in S : \A r \in S : IF far THEN RLe(RAbs(r), RAbs(q)) ELSE RLe(RAbs(q), RAbs(r))
        start == IF inner = {} THEN RZero ELSE nearest(inner, TRUE)
        end == IF outer = {} THEN p ELSE nearest(outer, FALSE)
    IN [tag |-> t, start |-> start, peak |-> p, end |-> end]
Scalar(reg, loc) ==   \* OpenType region scalar on one axis (others are unconstrained)
    LET v == loc[reg.tag]
        lo == IF RLt(reg.start, reg.end) THEN reg.start ELSE reg.end
        hi == IF RLt(reg.start, reg.end) THEN reg.end ELSE reg.start
    IN IF v = reg.peak THEN ROne
       ELSE IF RLe(v, lo) \/ RLe(hi, v) THEN RZero
       ELSE IF RLt(RAbs(v), RAbs(reg.peak)) THEN RDiv(RSub(v, reg.start), RSub(reg.peak, reg.start))
       ELSE RDiv(RSub(reg.end, v), RSub(reg.end, reg.peak))

NonDefault == {m \in M : m # cfg.default}
\* masters in model order: nearer peaks first (their deltas are needed by the farther ones)
Before(a, b) == RLt(RAbs(LocOf(a)[AxisIn(LocOf(a))]), RAbs(LocOf(b)[AxisIn(LocOf(b))])) \/
                (RAbs(LocOf(a)[AxisIn(LocOf(a))]) = RAbs(LocOf(b)[AxisIn(LocOf(b))]) /\ a < b)
RECURSIVE SolveDeltas(_, _, _)
SolveDeltas(todo, regs, acc) ==   \* acc : master -> [item -> delta]
    IF todo = {} THEN acc
    ELSE LET m == CHOOSE x \in todo : \A y \in todo : x = y \/ Before(x, y)
             sofar(it) == LET RECURSIVE Sum(_)
                              Sum(S) == IF S = {} THEN RZero
                                        ELSE LET k == CHOOSE k \in S : TRUE
                                             IN RAdd(RMul(Scalar(regs[k], LocOf(m)), acc[k][it]), Sum(S \ {k}))
                          IN RAdd(built[cfg.default][it], Sum(DOMAIN acc))
             d == [it \in Items |-> RSub(built[m][it], sofar(it))]
         IN SolveDeltas(todo \ {m}, regs, [k \in DOMAIN acc \cup {m} |-> IF k = m THEN d ELSE acc[k]])
EmptyF == [k \in {} |-> 0]
Merge ==
    /\ ds # NoneR /\ vf = NoneR
    /\ vf' = IF \E m, n \in M : built[m].kind # built[n].kind THEN ErrR       \* incompatible paint structures
             ELSE IF \E m \in NonDefault : ~OnAxis(LocOf(m)) THEN ErrR        \* outside this model (stated bound)
             ELSE LET regs == [m \in NonDefault |-> Region(m)]
                  IN [regions |-> regs, deltas |-> SolveDeltas(NonDefault, regs, EmptyF), kind |-> built[cfg.default].kind]
    /\ UNCHANGED <<layout, src, cfg, built, ds>>

Next == LoadConfig \/ (\E m \in M : BuildMaster(m)) \/ Assemble \/ Merge
Spec == Init /\ [][Next]_vars
FairSpec == Spec /\ WF_vars(Next)

-----------------------------------------------------------------------------
(* the renderer's reading of the font *)
Done == vf \notin {NoneR, ErrR}
RECURSIVE SumDeltas(_, _, _)
SumDeltas(S, it, loc) == IF S = {} THEN RZero
                         ELSE LET k == CHOOSE k \in S : TRUE
                              IN RAdd(RMul(Scalar(vf.regions[k], loc), vf.deltas[k][it]), SumDeltas(S \ {k}, it, loc))
Eval(it, loc) == RAdd(built[cfg.default][it], SumDeltas(DOMAIN vf.regions, it, loc))
\* where the second layer is painted at a location
BLo(loc) == CASE vf.kind = "outline" -> Eval("blo", loc)
              [] vf.kind = "translate" -> RAdd(Eval("alo", loc), Eval("e", loc))
              [] vf.kind = "scale" -> RMul(Eval("s", loc), Eval("alo", loc))
              [] vf.kind = "affine" -> RAdd(RMul(Eval("s", loc), Eval("alo", loc)), Eval("e", loc))
              [] vf.kind = "center" -> RAdd(Eval("c", loc), RMul(Eval("s", loc), RSub(Eval("alo", loc), Eval("c", loc))))
BHi(loc) == CASE vf.kind = "outline" -> Eval("bhi", loc)
              [] vf.kind = "translate" -> RAdd(Eval("ahi", loc), Eval("e", loc))
              [] vf.kind = "scale" -> RMul(Eval("s", loc), Eval("ahi", loc))
              [] vf.kind = "affine" -> RAdd(RMul(Eval("s", loc), Eval("ahi", loc)), Eval("e", loc))
              [] vf.kind = "center" -> RAdd(Eval("c", loc), RMul(Eval("s", loc), RSub(Eval("ahi", loc), Eval("c", loc))))

\* C18a: at a master's location the font IS that master's static build
MasterExact == Done => \A m \in M :
    LET loc == LocOf(m) IN
    /\ Eval("alo", loc) = built[m].alo /\ Eval("ahi", loc) = built[m].ahi
    /\ BLo(loc) = built[m].blo /\ BHi(loc) = built[m].bhi
    /\ Eval("clo", loc) = built[m].clo /\ Eval("chi", loc) = built[m].chi
    /\ Eval("adv", loc) = built[m].adv
DefaultExact == Done => LocOf(cfg.default) = ZeroLoc
\* the designspace the driver writes spans exactly the masters, with the configured default inside
AxisRange == ds # NoneR => \A t \in Tags :
    /\ ds.axes[t].min <= ds.axes[t].def /\ ds.axes[t].def <= ds.axes[t].max
    /\ \A m \in M : t \in DOMAIN layout.masters[m] => ds.axes[t].min <= layout.masters[m][t] /\ layout.masters[m][t] <= ds.axes[t].max
    /\ \E m \in M : layout.masters[m][t] = ds.axes[t].min
    /\ \E m \in M : layout.masters[m][t] = ds.axes[t].max
\* a configuration without a default master never produces a font
NoDefaultNoFont == (~\E m \in M : IsDefault(m)) => (vf = NoneR /\ ds = NoneR /\ \A m \in M : built[m] = NoneR)
\* masters whose paints differ in structure are refused, never merged silently
IncompatibleRefused == (vf # NoneR /\ \E m, n \in M : built[m].kind # built[n].kind) => vf = ErrR

\* C18b: locations on an axis (the others at default), between the axis ends
AxisLocs(t) == LET lo == IF \E m \in M : RLt(LocOf(m)[t], RZero) THEN -TDen ELSE 0
                   hi == IF \E m \in M : RLt(RZero, LocOf(m)[t]) THEN TDen ELSE 0
               IN {[u \in Tags |-> IF u = t THEN R(k, TDen) ELSE RZero] : k \in lo..hi}
Inside(loc) == /\ RLe(Eval("clo", loc), Eval("alo", loc)) /\ RLe(Eval("ahi", loc), Eval("chi", loc))
               /\ RLe(Eval("clo", loc), BLo(loc)) /\ RLe(BHi(loc), Eval("chi", loc))
ClipContainsOnAxis == Done => \A t \in Tags : \A loc \in AxisLocs(t) : Inside(loc)
\* what is true of the code as it is: geometry leaves the interpolated box only where a VARIABLE scale multiplies a
\* VARIABLE outline (the product is quadratic in the location, the box is piecewise linear)
Bilinear == /\ vf.kind \in {"scale", "affine", "center"}
            /\ \E m, n \in M : built[m].s # built[n].s
            /\ \E m, n \in M : built[m].alo # built[n].alo \/ built[m].ahi # built[n].ahi \/ built[m].c # built[n].c
EscapeOnlyIfBilinear == Done => ((\E t \in Tags : \E loc \in AxisLocs(t) : ~Inside(loc)) => Bilinear)
\* every run ends: a font, or an error before anything is merged
Terminates == <>(vf # NoneR \/ cfg = ErrR)

-----------------------------------------------------------------------------
RJ(r) == <<r[1], r[2]>>
LocJ(loc) == [t \in Tags |-> RJ(loc[t])]
ExportRec ==
    [layout |-> layout.id, reuse |-> Reuse, q |-> Q,
     axes |-> [i \in DOMAIN layout.axes |-> layout.axes[i]],
     masters |-> [m \in M |-> [pos |-> layout.masters[m], a |-> src[m].a, b |-> src[m].b, adv |-> src[m].adv,
                                 kind |-> IF built[m] = NoneR THEN "none" ELSE built[m].kind]],
     outcome |-> IF cfg = ErrR THEN "config-error" ELSE IF vf = ErrR THEN "merge-error" ELSE "font",
     default |-> IF cfg = ErrR THEN 0 ELSE cfg.default,
     samples |-> IF ~Done THEN << >>
                 ELSE LET L == UNION {AxisLocs(t) : t \in Tags}
                          RECURSIVE Seqify(_)
                          Seqify(S) == IF S = {} THEN << >>
                                       ELSE LET x == CHOOSE x \in S : TRUE
                                            IN <<[loc |-> LocJ(x), alo |-> RJ(Eval("alo", x)), ahi |-> RJ(Eval("ahi", x)),
                                                  blo |-> RJ(BLo(x)), bhi |-> RJ(BHi(x)), clo |-> RJ(Eval("clo", x)),
                                                  chi |-> RJ(Eval("chi", x)), adv |-> RJ(Eval("adv", x)), inside |-> Inside(x)]>>
                                                 \o Seqify(S \ {x})
                      IN Seqify(L)]
Final == vf # NoneR \/ cfg = ErrR
Export == Final => PrintT(<<"VERIF", ToJson(ExportRec)>>)
=============================================================================
