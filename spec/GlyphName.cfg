SPECIFICATION Spec
CONSTANTS
  RePrefix = TRUE
  MaxLenIn = 70
INVARIANT ValidIdent
INVARIANT WithinLimit
INVARIANT HashedIffTooLong
INVARIANT PrefixOnlyWhenNeeded
INVARIANT Export
