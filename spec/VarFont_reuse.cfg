SPECIFICATION Spec
CONSTANTS
  Reuse = TRUE
  Layouts <- LayoutSet
  Sources <- SourceSet
  Q = 1
  TDen = 4
INVARIANT MasterExact
INVARIANT DefaultExact
INVARIANT AxisRange
INVARIANT NoDefaultNoFont
INVARIANT IncompatibleRefused
INVARIANT EscapeOnlyIfBilinear
INVARIANT Export
