SPECIFICATION Spec
CONSTANTS
  MaxDepth = 3
  Tokens = {"a", "b"}
INVARIANT SamePlacement
INVARIANT Export
