---------------------------- MODULE CompileTrace ----------------------------
(***************************************************************************)
(* B2 for Compile: recorded executions of the real reuse cache             *)
(* (GlyphReuseCache.try_reuse / add_glyph inside                           *)
(* write_font._migrate_paths_to_ufo_glyphs) checked against the cache      *)
(* protocol.  One JVM validates a whole batch: every trace id is an        *)
(* initial state; a trace is accepted when all its events were consumed.   *)
(*                                                                         *)
(* Events (ndjson -> JSON array of traces, each a sequence of records):    *)
(*   Begin(g)                      migration of colour glyph g starts      *)
(*   TryReuse(k, hit, name, why)   key k (interned normalised outline);    *)
(*                                 hit => name of the donor returned;      *)
(*                                 miss => why in {"absent","disabled",    *)
(*                                 "noaffine","overflow","unknown"}        *)
(*   AddGlyph(name, k, g)          a new outline glyph registered for k    *)
(*   End(g, nin, nout)             layer counts before / after migration   *)
(***************************************************************************)
EXTENDS Integers, Sequences, FiniteSets, TLC, Json, IOUtils

Traces == JsonDeserialize(IOEnv.TRACE_FILE)
VARIABLES tid, l, cache, known, cur, pending
vars == <<tid, l, cache, known, cur, pending>>

Tr == Traces[tid]
Ev == Tr[l]
Is(e) == l <= Len(Tr) /\ Ev.ev = e
Consume == l' = l + 1 /\ UNCHANGED tid

Init == /\ tid \in 1..Len(Traces) /\ l = 1
        /\ cache = << >> /\ known = {} /\ cur = "" /\ pending = "none"

Begin == /\ Is("Begin") /\ cur = "" /\ pending = "none"
         /\ cur' = Ev.g /\ Consume /\ UNCHANGED <<cache, known, pending>>

\* a hit must return exactly the donor registered for the key
TryHit == /\ Is("TryReuse") /\ Ev.hit /\ cur # "" /\ pending \in {"none", "hit"}
          /\ Ev.k \in DOMAIN cache /\ cache[Ev.k] = Ev.name
          /\ pending' = "hit" /\ Consume /\ UNCHANGED <<cache, known, cur>>
\* a miss is legitimate only when nothing is registered, reuse is disabled, or the transform is unusable
TryMiss == /\ Is("TryReuse") /\ ~Ev.hit /\ cur # "" /\ pending \in {"none", "hit"}
           /\ \/ Ev.k \notin DOMAIN cache /\ Ev.why \in {"absent", "disabled"}
              \/ Ev.k \in DOMAIN cache /\ Ev.why \in {"disabled", "noaffine", "overflow"}
           /\ pending' = "miss" /\ Consume /\ UNCHANGED <<cache, known, cur>>
\* a miss is followed by the registration of a fresh glyph owned by the current colour glyph;
\* after a hit a registration may still follow (gradient counter-transform overflow)
AddGlyph == /\ Is("AddGlyph") /\ cur # "" /\ pending \in {"miss", "hit"}
            /\ Ev.name \notin known /\ Ev.g = cur
            /\ cache' = [k \in DOMAIN cache \cup {Ev.k} |-> IF k = Ev.k THEN Ev.name ELSE cache[k]]
            /\ known' = known \cup {Ev.name}
            /\ pending' = "none" /\ Consume /\ UNCHANGED cur
End == /\ Is("End") /\ Ev.g = cur /\ pending \in {"none", "hit"}
       /\ Ev.nin = Ev.nout                      \* no layer dropped or added by migration
       /\ cur' = "" /\ pending' = "none" /\ Consume /\ UNCHANGED <<cache, known>>
Accept == /\ l = Len(Tr) + 1 /\ cur = "" /\ pending = "none"
          /\ PrintT(<<"ACCEPT", tid>>)
          /\ l' = l + 1 /\ UNCHANGED <<tid, cache, known, cur, pending>>
Step == Begin \/ TryHit \/ TryMiss \/ AddGlyph \/ End
\* total verdicts: a trace that cannot continue is reported with the index of the offending event
Reject == /\ l <= Len(Tr) /\ ~ENABLED Step
          /\ PrintT(<<"REJECT", tid, l, Ev.ev>>)
          /\ l' = Len(Tr) + 2 /\ UNCHANGED <<tid, cache, known, cur, pending>>
Truncated == /\ l = Len(Tr) + 1 /\ ~(cur = "" /\ pending = "none")
             /\ PrintT(<<"REJECT", tid, l, "end-of-trace">>)
             /\ l' = l + 1 /\ UNCHANGED <<tid, cache, known, cur, pending>>
Next == Step \/ Accept \/ Reject \/ Truncated
Spec == Init /\ [][Next]_vars
\* cache discipline
CacheSound == \A k \in DOMAIN cache : cache[k] \in known
\* where a stuck trace stopped (printed for diagnosis; never false)
=============================================================================
