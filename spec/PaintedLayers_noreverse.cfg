SPECIFICATION Spec
CONSTANTS
  MaxNodes = 5
  MaxDepth = 3
  ReverseChildren = FALSE
INVARIANT TreeSame
