--------------------------- MODULE GlyphNameProof ---------------------------
(***************************************************************************)
(* GlyphName.tla without the length bound, by TLAPS: for a joined name of  *)
(* ANY length and either first-character class, and whatever first         *)
(* character the digest turns out to have, glyph_name returns an           *)
(* identifier a feature file accepts, of at most 63 characters, with the   *)
(* "g_" prefix exactly when needed - provided the prefix is decided again  *)
(* on the digest (RePrefix).                                               *)
(***************************************************************************)
EXTENDS GlyphName, TLAPS

ASSUME Re == RePrefix = TRUE
ASSUME LenNat == MaxLenIn \in Nat

TypeOK == /\ first \in {"alpha", "digit"} /\ len \in Nat /\ prefix \in BOOLEAN
          /\ pc \in {"prefix", "check", "done"} /\ hashed \in BOOLEAN
Inv == /\ TypeOK
       /\ pc = "check" => (prefix <=> first = "digit")
       /\ ValidIdent /\ WithinLimit /\ PrefixOnlyWhenNeeded

LEMMA InitInv == Init => Inv
  BY LenNat DEF Init, Inv, TypeOK, ValidIdent, WithinLimit, PrefixOnlyWhenNeeded, Done

LEMMA StepInv == Inv /\ [Next]_vars => Inv'
<1> SUFFICES ASSUME Inv, [Next]_vars PROVE Inv'
  OBVIOUS
<1>1. CASE Prefix
  BY <1>1 DEF Prefix, Inv, TypeOK, ValidIdent, WithinLimit, PrefixOnlyWhenNeeded, Done
<1>2. CASE Fits
  BY <1>2 DEF Fits, Inv, TypeOK, ValidIdent, WithinLimit, PrefixOnlyWhenNeeded, Done, PLen, Limit
<1>3. CASE Hash
  BY <1>3, Re DEF Hash, Inv, TypeOK, ValidIdent, WithinLimit, PrefixOnlyWhenNeeded, Done, PLen, Limit, DigestLen
<1>4. CASE UNCHANGED vars
  BY <1>4 DEF vars, Inv, TypeOK, ValidIdent, WithinLimit, PrefixOnlyWhenNeeded, Done
<1> QED BY <1>1, <1>2, <1>3, <1>4 DEF Next

THEOREM Safety == Spec => [](ValidIdent /\ WithinLimit /\ PrefixOnlyWhenNeeded)
<1>1. Inv => ValidIdent /\ WithinLimit /\ PrefixOnlyWhenNeeded
  BY DEF Inv
<1> QED BY InitInv, StepInv, <1>1, PTL DEF Spec
=============================================================================
