SPECIFICATION Spec
CONSTANTS
  KeyHasTransform = TRUE
  ResetPerDocument = FALSE
  MaxDocs = 2
  MaxFills = 3
INVARIANT HrefsClosed
