SPECIFICATION Spec
CONSTANTS
  NRgb = 2
  Alphas = {2, 4}
  MaxIdx = 2
  MaxLayers = 3
INVARIANT PaletteIsGood
INVARIANT NeverEmpty
INVARIANT Resolves
INVARIANT V1Opaque
INVARIANT ErrorIffConflict
INVARIANT Export
