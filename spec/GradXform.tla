----------------------------- MODULE GradXform -----------------------------
(***************************************************************************)
(* C16, gradients.  PaintRadialGradient.apply_transform:                   *)
(*   _decompose_uniform_transform splits T into U (uniform scale, keeping  *)
(*   the sign of T.d, then translation) applied to the two circles and a   *)
(*   residual 2x2 R wrapped around the gradient, T = R o U;                *)
(*   check_overflows rejects centres outside int16 / radii outside uint16. *)
(* Exact rationals; linear parts are chosen so that hypot is rational      *)
(* (axis-aligned scales, quarter turns, the 3-4-5 rotation, 3/4 shear).    *)
(***************************************************************************)
EXTENDS Integers, Sequences, FiniteSets, TLC, Json, Rat

Q(n, d) == R(n, d)
\* affines are <<a, b, c, d, e, f>> of rationals, picosvg Affine2D field order
Lin ==
    LET Sc == {Q(1, 2), Q(1, 1), Q(2, 1), Q(-1, 1), Q(3, 1)}
        diag == {<<x, RZero, RZero, y>> : x \in {Q(1, 2), Q(1, 1), Q(2, 1)}, y \in Sc}
        rot90 == {<<RZero, m[1], RNeg(m[4]), RZero>> : m \in diag}
        r345(m) == <<RMul(m[1], Q(3, 5)), RMul(m[1], Q(4, 5)), RMul(m[4], Q(-4, 5)), RMul(m[4], Q(3, 5))>>
        rot345 == {r345(m) : m \in diag}
        shear == {<<Q(1, 1), RZero, Q(3, 4), Q(1, 1)>>, <<Q(2, 1), RZero, Q(-3, 2), Q(-2, 1)>>}
    IN  diag \cup rot90 \cup rot345 \cup shear
Trans == {<<RZero, RZero>>, <<Q(10, 1), Q(-7, 2)>>, <<Q(40000, 1), RZero>>}
Circles == {[c0 |-> <<Q(1, 2), Q(1, 2)>>, r0 |-> RZero, c1 |-> <<Q(1, 2), Q(1, 2)>>, r1 |-> Q(1, 2)],
            [c0 |-> <<Q(30, 1), Q(40, 1)>>, r0 |-> Q(5, 1), c1 |-> <<Q(50, 1), Q(50, 1)>>, r1 |-> Q(60, 1)],
            [c0 |-> <<RZero, RZero>>, r0 |-> RZero, c1 |-> <<Q(100, 1), RZero>>, r1 |-> Q(30000, 1)]}

VARIABLES T, g, U, Rm, out, phase
vars == <<T, g, U, Rm, out, phase>>

ISqrt(n) == CHOOSE k \in 0..1000 : k * k = n       \* only called on perfect squares
IsSquare(n) == \E k \in 0..200 : k * k = n
Hypot(x, y) == LET s == RAdd(RMul(x, x), RMul(y, y)) IN <<ISqrt(s[1]), ISqrt(s[2])>>
MapPt(m, p) == <<RAdd(RAdd(RMul(m[1], p[1]), RMul(m[3], p[2])), m[5]),
                 RAdd(RAdd(RMul(m[2], p[1]), RMul(m[4], p[2])), m[6])>>
\* Then(m, n): apply m first, then n  (compose_ltr((m, n)))
Then(m, n) == <<RAdd(RMul(n[1], m[1]), RMul(n[3], m[2])), RAdd(RMul(n[2], m[1]), RMul(n[4], m[2])),
                RAdd(RMul(n[1], m[3]), RMul(n[3], m[4])), RAdd(RMul(n[2], m[3]), RMul(n[4], m[4])),
                RAdd(RAdd(RMul(n[1], m[5]), RMul(n[3], m[6])), n[5]),
                RAdd(RAdd(RMul(n[2], m[5]), RMul(n[4], m[6])), n[6])>>
Det(m) == RSub(RMul(m[1], m[4]), RMul(m[2], m[3]))

Init == /\ T \in {<<l[1], l[2], l[3], l[4], t[1], t[2]>> : l \in Lin, t \in Trans}
        /\ g \in Circles
        /\ U = << >> /\ Rm = << >> /\ out = [k |-> "pending"] /\ phase = "decompose"

Decompose ==    \* _decompose_uniform_transform
    /\ phase = "decompose"
    /\ LET sx == Hypot(T[1], T[2])
           sy == Hypot(T[3], T[4])
           s == RMax(sx, sy)
           sgn == IF RSign(T[4]) < 0 THEN RNeg(s) ELSE s            \* copysign(s, transform.d)
           \* remaining = T o uniform_scale^-1  (linear part), translation kept
           r == <<RDiv(T[1], s), RDiv(T[2], s), RDiv(T[3], sgn), RDiv(T[4], sgn)>>
           dr == RSub(RMul(r[1], r[4]), RMul(r[2], r[3]))
           \* decompose_translation: t0 = r^-1 (e, f)
           t0 == <<RDiv(RSub(RMul(r[4], T[5]), RMul(r[3], T[6])), dr),
                   RDiv(RSub(RMul(r[1], T[6]), RMul(r[2], T[5])), dr)>>
       IN  /\ U' = <<s, RZero, RZero, sgn, t0[1], t0[2]>>
           /\ Rm' = <<r[1], r[2], r[3], r[4], RZero, RZero>>
    /\ phase' = "apply" /\ UNCHANGED <<T, g, out>>

I16(x) == RLe(RI(-32768), x) /\ RLe(x, RI(32767))
U16(x) == RLe(RZero, x) /\ RLe(x, RI(65535))
Apply ==        \* map the circles by U, check_overflows, wrap the residual
    /\ phase = "apply"
    /\ LET c0 == MapPt(U, g.c0)  c1 == MapPt(U, g.c1)
           r0 == RMul(g.r0, U[1])  r1 == RMul(g.r1, U[1])
       IN  IF I16(c0[1]) /\ I16(c0[2]) /\ I16(c1[1]) /\ I16(c1[2]) /\ U16(r0) /\ U16(r1)
           THEN out' = [k |-> "ok", c0 |-> c0, c1 |-> c1, r0 |-> r0, r1 |-> r1]
           ELSE out' = [k |-> "OverflowError"]
    /\ phase' = "done" /\ UNCHANGED <<T, g, U, Rm>>

Next == Decompose \/ Apply
Spec == Init /\ [][Next]_vars
-----------------------------------------------------------------------------
Split == phase # "decompose"
Recomposes == Split => Then(U, Rm) = T                        \* T = R o U exactly
UniformIsSimilarity == Split => /\ U[2] = RZero /\ U[3] = RZero /\ RAbs(U[1]) = RAbs(U[4]) /\ RSign(U[1]) > 0
KeepsYFlip == Split => (RSign(U[4]) < 0 <=> RSign(T[4]) < 0)
ResidualHasNoTranslation == Split => Rm[5] = RZero /\ Rm[6] = RZero
\* a point on a source circle lands on the mapped circle: |U p - U c| = s |p - c| (checked on axis points)
CirclesStayCircles == (phase = "done" /\ out.k = "ok") =>
    LET p == <<RAdd(g.c1[1], g.r1), g.c1[2]>>
        q == MapPt(U, p)
    IN  RSub(q[1], out.c1[1]) = out.r1 /\ q[2] = out.c1[2]
NoSilentOverflow == (phase = "done" /\ out.k = "ok") =>
    I16(out.c0[1]) /\ I16(out.c0[2]) /\ I16(out.c1[1]) /\ I16(out.c1[2]) /\ U16(out.r0) /\ U16(out.r1)

RJ(x) == [n |-> x[1], d |-> x[2]]
Export == phase = "done" =>
    PrintT(<<"VERIF", ToJson([T |-> [i \in 1..6 |-> RJ(T[i])], U |-> [i \in 1..6 |-> RJ(U[i])],
                              R |-> [i \in 1..6 |-> RJ(Rm[i])],
                              g |-> [c0 |-> <<RJ(g.c0[1]), RJ(g.c0[2])>>, c1 |-> <<RJ(g.c1[1]), RJ(g.c1[2])>>,
                                     r0 |-> RJ(g.r0), r1 |-> RJ(g.r1)],
                              outcome |-> out.k])>>)
=============================================================================
