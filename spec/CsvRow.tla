------------------------------- MODULE CsvRow -------------------------------
(***************************************************************************)
(* C10 (glyph map).  glyphmap.GlyphMapping.csv_line / load_from as a       *)
(* writer and a reader over character sequences:                           *)
(*                                                                         *)
(*   Write   csv.writer, QUOTE_MINIMAL: a field is quoted (quotes doubled) *)
(*           iff it contains the delimiter or the quote character; if ANY  *)
(*           field of the row starts with a blank the whole row is written *)
(*           QUOTE_ALL (QuoteLeadingBlank, fix 32a51fe)                    *)
(*   Read    csv.reader(skipinitialspace=True): at the start of a field    *)
(*           blanks are skipped; a quote opens a quoted field (a doubled   *)
(*           quote is a literal one); otherwise the field runs to the next *)
(*           delimiter                                                     *)
(*                                                                         *)
(* Alphabet: "s" blank, "c" comma, "q" double quote, "x" / "y" ordinary.   *)
(* A row is <<svg path, bitmap path>>; an empty field stands for "no       *)
(* file".  QuoteLeadingBlank = FALSE is the writer before the fix          *)
(* (negative configuration).                                               *)
(***************************************************************************)
EXTENDS Integers, Sequences, TLC, Json

CONSTANTS MaxLen, QuoteLeadingBlank
Sym == {"s", "c", "q", "x"}
Fields == UNION {[1..n -> Sym] : n \in 0..MaxLen}

VARIABLES row, text, back, phase
vars == <<row, text, back, phase>>

Has(f, ch) == \E i \in DOMAIN f : f[i] = ch
RECURSIVE Doubled(_)
Doubled(f) == IF f = << >> THEN << >>
              ELSE (IF Head(f) = "q" THEN <<"q", "q">> ELSE <<Head(f)>>) \o Doubled(Tail(f))
Quoted(f) == <<"q">> \o Doubled(f) \o <<"q">>
LeadingBlank(f) == f # << >> /\ f[1] = "s"
WriteField(f, all) == IF all \/ Has(f, "c") \/ Has(f, "q") THEN Quoted(f) ELSE f
WriteRow(r) == LET all == QuoteLeadingBlank /\ (LeadingBlank(r[1]) \/ LeadingBlank(r[2]))
               IN  WriteField(r[1], all) \o <<"c">> \o WriteField(r[2], all)

\* the reader: (remaining text, mode, current field, fields so far) -> fields
RECURSIVE Rd(_, _, _, _)
Rd(t, mode, cur, acc) ==
    IF t = << >> THEN Append(acc, cur)
    ELSE LET ch == Head(t)  rest == Tail(t) IN
         CASE mode = "start" ->
                  IF ch = "s" THEN Rd(rest, "start", cur, acc)
                  ELSE IF ch = "q" THEN Rd(rest, "quoted", cur, acc)
                  ELSE IF ch = "c" THEN Rd(rest, "start", << >>, Append(acc, cur))
                  ELSE Rd(rest, "plain", Append(cur, ch), acc)
           [] mode = "plain" ->
                  IF ch = "c" THEN Rd(rest, "start", << >>, Append(acc, cur))
                  ELSE Rd(rest, "plain", Append(cur, ch), acc)
           [] mode = "quoted" ->
                  IF ch = "q" THEN (IF rest # << >> /\ Head(rest) = "q" THEN Rd(Tail(rest), "quoted", Append(cur, "q"), acc)
                                    ELSE Rd(rest, "afterquote", cur, acc))
                  ELSE Rd(rest, "quoted", Append(cur, ch), acc)
           [] mode = "afterquote" ->
                  IF ch = "c" THEN Rd(rest, "start", << >>, Append(acc, cur))
                  ELSE Rd(rest, "plain", Append(cur, ch), acc)
ReadRow(t) == Rd(t, "start", << >>, << >>)

Init == /\ row \in {<<a, b>> : a \in Fields \ {<< >>}, b \in Fields}      \* an svg path is always there, a bitmap path may not be
        /\ text = << >> /\ back = << >> /\ phase = "write"
Write == phase = "write" /\ text' = WriteRow(row) /\ phase' = "read" /\ UNCHANGED <<row, back>>
Read == phase = "read" /\ back' = ReadRow(text) /\ phase' = "done" /\ UNCHANGED <<row, text>>
Next == Write \/ Read
Spec == Init /\ [][Next]_vars

RoundTrip == phase = "done" => back = row
Export == phase = "done" => PrintT(<<"VERIF", ToJson([row |-> row, text |-> text])>>)
=============================================================================
