----------------------------- MODULE OTSVGGrad -----------------------------
(***************************************************************************)
(* C02, gradients.  svg._apply_paint for a radial gradient:                *)
(*                                                                         *)
(* the Paint IR holds the gradient in FONT space as a circle (c, r) seen    *)
(* through a residual wrapper W (PaintTransform; identity when the         *)
(* gradient is circular in font space).  The OT-SVG document wants it in   *)
(* the glyph's viewBox coordinates: M = upem_to_vbox (it contains the      *)
(* inverse of the user transform).  Two ways to get there:                 *)
(*                                                                         *)
(*   MapCoordinates  _map_gradient_coordinates: c' = M(c), r' = |M(r,0)|,  *)
(*                   gradientTransform = M^-1 ; W ; M   (exact only when M *)
(*                   maps circles to circles)                              *)
(*   KeepInUpem      c' = c, r' = r, gradientTransform = W ; M             *)
(*                   (exact for every M)                                   *)
(*                                                                         *)
(* Level = "fixed" is the code as it is now (similarity test, radius by    *)
(* length); "pinned" is the pinned tree (always MapCoordinates, radius =   *)
(* x component of the mapped vector): TLC shows the skewed ellipse and the *)
(* negative radius that were repaired.                                     *)
(*                                                                         *)
(* What is painted is the image of the unit circle under                   *)
(*   u |-> G(c' + r' u),  G = gradientTransform:                           *)
(* an ellipse given by its centre and the matrix L L^T (L = linear part).  *)
(* Exact rationals; rotations are the 3-4-5 one so that lengths stay       *)
(* rational.                                                               *)
(***************************************************************************)
EXTENDS Integers, Sequences, FiniteSets, TLC, Json, Rat, Affine

CONSTANTS Level      \* "fixed" | "pinned"

Q(n, d) == R(n, d)
\* viewBox <- font maps: scale 1/10 with the y flip (no user transform), then user transforms of every kind
Base == <<Q(1, 10), RZero, RZero, Q(-1, 10), RZero, Q(80, 1)>>
UserInv == {AIdent,
            <<Q(3, 5), Q(4, 5), Q(-4, 5), Q(3, 5), Q(7, 1), Q(-3, 1)>>,        \* rotation (3-4-5)
            <<Q(-1, 1), RZero, RZero, Q(1, 1), Q(100, 1), RZero>>,              \* horizontal mirror
            <<Q(1, 1), RZero, Q(1, 10), Q(1, 1), RZero, RZero>>,                \* skew
            <<Q(5, 4), RZero, RZero, Q(4, 5), RZero, Q(2, 1)>>,                 \* non-uniform scale
            <<Q(2, 1), RZero, RZero, Q(2, 1), Q(-5, 1), Q(5, 1)>>}              \* uniform scale + translation
Maps == {Then(u, Base) : u \in UserInv}
Wrappers == {AIdent, <<Q(1, 1), RZero, RZero, Q(1, 2), RZero, RZero>>, <<Q(1, 1), RZero, Q(3, 4), Q(1, 1), RZero, RZero>>}
Circles == {[c |-> <<Q(300, 1), Q(400, 1)>>, r |-> Q(100, 1)], [c |-> <<RZero, Q(-50, 1)>>, r |-> Q(25, 1)]}

VARIABLES M, W, g, out, phase
vars == <<M, W, g, out, phase>>

ISqrt(n) == CHOOSE k \in 0..4000 : k * k = n
IsSq(n) == \E k \in 0..4000 : k * k = n
\* |v| for vectors whose length is rational (all the maps above send (r, 0) to such a vector, or the branch is not taken)
Norm2(v) == RAdd(RMul(v[1], v[1]), RMul(v[2], v[2]))
HasRatNorm(v) == LET s == Norm2(v) IN IsSq(s[1]) /\ IsSq(s[2])
NormV(v) == LET s == Norm2(v) IN <<ISqrt(s[1]), ISqrt(s[2])>>
Lin(m) == <<m[1], m[2], m[3], m[4], RZero, RZero>>
IsSimilarity(m) == \/ (m[1] = m[4] /\ m[2] = RNeg(m[3]))
                   \/ (m[1] = RNeg(m[4]) /\ m[2] = m[3])

Init == /\ M \in Maps /\ W \in Wrappers /\ g \in Circles
        /\ out = [k |-> "pending"] /\ phase = "paint"

MapCoordinates ==
    /\ phase = "paint"
    /\ Level = "pinned" \/ IsSimilarity(M)
    /\ LET rv == AMap(Lin(M), <<g.r, RZero>>)
           r2 == IF Level = "pinned" THEN rv[1] ELSE NormV(rv)
       IN  /\ (Level = "fixed" => HasRatNorm(rv))
           /\ out' = [k |-> "mapped", c |-> AMap(M, g.c), r |-> r2,
                      gt |-> IF W = AIdent THEN AIdent ELSE Then(Then(AInv(M), W), M)]
    /\ phase' = "done" /\ UNCHANGED <<M, W, g>>
KeepInUpem ==
    /\ phase = "paint" /\ Level = "fixed" /\ ~IsSimilarity(M)
    /\ out' = [k |-> "upem", c |-> g.c, r |-> g.r, gt |-> Then(W, M)]
    /\ phase' = "done" /\ UNCHANGED <<M, W, g>>
Next == MapCoordinates \/ KeepInUpem
Spec == Init /\ [][Next]_vars

-----------------------------------------------------------------------------
Done == phase = "done"
\* the ellipse a renderer draws for t = 1: centre and L L^T of  u |-> A(c + r u)
Centre(A, c) == AMap(A, c)
Gram(A, r) == LET a == RMul(A[1], r)  b == RMul(A[2], r)  cc == RMul(A[3], r)  d == RMul(A[4], r)
              IN <<RAdd(RMul(a, a), RMul(cc, cc)), RAdd(RMul(a, b), RMul(cc, d)), RAdd(RMul(b, b), RMul(d, d))>>
Exact == Then(W, M)                 \* font-space wrapper, then font -> viewBox
SameEllipse == Done => /\ Centre(out.gt, out.c) = Centre(Exact, g.c)
                       /\ Gram(out.gt, out.r) = Gram(Exact, g.r)
RadiusPositive == Done => RLt(RZero, out.r)
\* every input is handled (no branch leaves a valid gradient behind)
Total == phase = "paint" => ENABLED Next

RJ(x) == <<x[1], x[2]>>
AJ(m) == [i \in 1..6 |-> RJ(m[i])]
Export == Done => PrintT(<<"VERIF", ToJson([M |-> AJ(M), W |-> AJ(W), c |-> <<RJ(g.c[1]), RJ(g.c[2])>>, r |-> RJ(g.r), branch |-> out.k,
                                            oc |-> <<RJ(out.c[1]), RJ(out.c[2])>>, orad |-> RJ(out.r), gt |-> AJ(out.gt)])>>)
=============================================================================
