SPECIFICATION Spec
CONSTANTS
  MaxLen = 6
  RequireNormal = TRUE
INVARIANT ProtocolSoFar
INVARIANT PenProtocol
INVARIANT Denotes
INVARIANT ClosedIffZ
INVARIANT NothingDropped
INVARIANT RoundTrip
INVARIANT RoundTripClosed
INVARIANT Bounded
INVARIANT Export
PROPERTY Terminates
