----------------------------- MODULE PaletteUse -----------------------------
(***************************************************************************)
(* C15, second half: how the colours used by glyphs become the single CPAL *)
(* palette and the (palette index, alpha) carried by each paint            *)
(* (write_font._colr_ufo, PaintSolid.to_ufo_paint, _colr0_layers).         *)
(*                                                                         *)
(* A glyph colour is [v, a, idx, cur]: v = RGB value id, a = alpha in      *)
(* quarters (4 = opaque), idx = explicit palette index or NoIdx, cur =     *)
(* currentColor.  A palette entry is [v |-> rank, idx] with rank = 8*v+a   *)
(* (RGBA tuple order: RGB first, alpha last).                              *)
(***************************************************************************)
EXTENDS Integers, Sequences, FiniteSets, TLC, Json, FiniteSetsExt, SequencesExt

CONSTANTS NRgb, Alphas, MaxIdx, MaxLayers
MaxRank == 8 * NRgb + 8
INSTANCE PaletteOps

Foreground == 65535
GlyphColor ==
    [v : 0..(NRgb - 1), a : Alphas, idx : {NoIdx} \cup (0..MaxIdx), cur : {FALSE}]
      \cup [v : {0}, a : Alphas, idx : {NoIdx} \cup (0..MaxIdx), cur : {TRUE}]    \* var(--colorN, currentColor) is still the foreground

VARIABLES version, colors, phase, paletteIn, palette, layers, outcome
vars == <<version, colors, phase, paletteIn, palette, layers, outcome>>

\* what goes into CPAL for one glyph colour: v1 stores opaque() colours
Entry(c, ver) == [v |-> 8 * c.v + (IF ver = 1 THEN 4 ELSE c.a), idx |-> c.idx]

Init ==
    /\ version \in {0, 1}
    /\ colors \in UNION {[1..n -> GlyphColor] : n \in 1..MaxLayers}
    /\ phase = "collect"
    /\ paletteIn = {} /\ palette = << >> /\ layers = << >> /\ outcome = "running"

Collect ==   \* _colr_ufo: c or c.opaque() for every non-currentColor colour of every glyph
    /\ phase = "collect"
    /\ paletteIn' = {Entry(colors[i], version) : i \in {j \in DOMAIN colors : ~colors[j].cur}}
    /\ phase' = "assign"
    /\ UNCHANGED <<version, colors, palette, layers, outcome>>

AssignConflict ==   \* uniq_sort_cpal_colors raises
    /\ phase = "assign" /\ Conflict(Effective(paletteIn))
    /\ outcome' = "ValueError" /\ phase' = "done"
    /\ UNCHANGED <<version, colors, paletteIn, palette, layers>>

Assign ==
    /\ phase = "assign" /\ ~Conflict(Effective(paletteIn))
    /\ palette' = PaletteFn(paletteIn)
    /\ phase' = "encode"
    /\ UNCHANGED <<version, colors, paletteIn, layers, outcome>>

Encode ==   \* to_ufo_paint / _colr0_layers: index_from(palette); alpha on the paint only in v1
    /\ phase = "encode"
    /\ layers' = [i \in DOMAIN colors |->
                    IF colors[i].cur
                    THEN [pi |-> Foreground, alpha |-> IF version = 1 THEN colors[i].a ELSE 4]
                    ELSE [pi |-> IndexIn(palette, Entry(colors[i], version)) - 1,
                          alpha |-> IF version = 1 THEN colors[i].a ELSE 4]]
    /\ outcome' = "ok" /\ phase' = "done"
    /\ UNCHANGED <<version, colors, paletteIn, palette>>

Next == Collect \/ AssignConflict \/ Assign \/ Encode
Spec == Init /\ [][Next]_vars

-----------------------------------------------------------------------------
Done == phase = "done"
Ok == Done /\ outcome = "ok"

PaletteIsGood == Ok => GoodAscending(paletteIn, palette)
NeverEmpty    == Ok => Len(palette) >= 1
\* every paint resolves to its own RGB with its own alpha, v1 entries opaque, v0 alpha in the entry
Resolves == Ok => \A i \in DOMAIN colors :
    LET c == colors[i] l == layers[i] IN
    IF c.cur THEN l.pi = Foreground
    ELSE /\ l.pi \in 0..(Len(palette) - 1)
         /\ palette[l.pi + 1].v \div 8 = c.v
         /\ (version = 1 => palette[l.pi + 1].v % 8 = 4 /\ l.alpha = c.a)
         /\ (version = 0 => palette[l.pi + 1].v % 8 = c.a)
         /\ (c.idx # NoIdx => l.pi = c.idx)
V1Opaque == (Ok /\ version = 1) => \A k \in DOMAIN palette : palette[k] = Black \/ palette[k].v % 8 = 4
ErrorIffConflict == Done => ((outcome = "ValueError") <=> Conflict(Effective(paletteIn)))

GC(c) == [v |-> c.v, a |-> c.a, idx |-> c.idx, cur |-> c.cur]
Export == Done =>
    PrintT(<<"VERIF", ToJson([version |-> version, colors |-> [i \in DOMAIN colors |-> GC(colors[i])],
                              outcome |-> outcome, paletteLen |-> Len(palette),
                              layers |-> layers])>>)
=============================================================================
