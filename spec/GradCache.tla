----------------------------- MODULE GradCache -----------------------------
(***************************************************************************)
(* C02 / C07 (shared).  The gradient-id cache of the OT-SVG writer         *)
(* (svg.ReuseCache.gradient_ids, svg._apply_gradient_paint,                *)
(* svg._picosvg_docs).  Documents are written one after another; inside a  *)
(* document every gradient fill is looked up under a key and either takes  *)
(* the id of an earlier, equal gradient of the SAME document or defines a  *)
(* new <linearGradient>/<radialGradient> in that document's <defs>:        *)
(*                                                                         *)
(*   for each document:            reuse_cache.gradient_ids = {}           *)
(*     for each gradient fill:     key = GradientReuseKey(paint, transform)*)
(*                                 id = gradient_ids.get(key)              *)
(*                                 if id is None: define; remember         *)
(*                                 fill = url(#id)                         *)
(*                                                                         *)
(* A fill is [g, t]: g = the gradient as normalised into font space        *)
(* (circles / line, stops, extend: what `paint` holds), t = the residual   *)
(* transform that could not be folded into it (what `transform` holds and  *)
(* gradientTransform carries).  Two cooperating decisions are named as     *)
(* constants, each with a negative configuration:                          *)
(*   KeyHasTransform   the key includes t                                  *)
(*   ResetPerDocument  the cache is emptied when a document starts         *)
(* Ids are numbered per font (g1, g2 ...), as the code does.               *)
(***************************************************************************)
EXTENDS Integers, Sequences, FiniteSets, TLC, Json

CONSTANTS KeyHasTransform, ResetPerDocument, MaxDocs, MaxFills
Geoms == {"ga", "gb"}
Resid == {"tx", "ty"}
Fills == [g : Geoms, t : Resid]
\* documents: 1..MaxDocs documents of 1..MaxFills gradient fills each
DocSets == UNION {[1..n -> UNION {[1..m -> Fills] : m \in 1..MaxFills}] : n \in 1..MaxDocs}

VARIABLES docs, d, i, cache, defs, href, nextId
vars == <<docs, d, i, cache, defs, href, nextId>>
\* cache : key -> id (a function on the set of known keys); defs[doc] : id -> fill content; href[doc][k] : id given to fill k

Key(f) == IF KeyHasTransform THEN <<f.g, f.t>> ELSE <<f.g, "any">>
Empty == [x \in {} |-> 0]

Init == /\ docs \in DocSets
        /\ d = 1 /\ i = 1 /\ cache = Empty /\ nextId = 1
        /\ defs = [k \in 1..Len(docs) |-> Empty]
        /\ href = [k \in 1..Len(docs) |-> <<>>]

Running == d <= Len(docs)
\* one gradient fill of the current document
ApplyFill == /\ Running /\ i <= Len(docs[d])
             /\ LET f == docs[d][i]
                    k == Key(f)
                IN IF k \in DOMAIN cache
                   THEN /\ href' = [href EXCEPT ![d] = Append(@, cache[k])]      \* hit: reuse the id
                        /\ UNCHANGED <<cache, defs, nextId>>
                   ELSE /\ defs' = [defs EXCEPT ![d] = [x \in DOMAIN @ \cup {nextId} |-> IF x = nextId THEN f ELSE @[x]]]
                        /\ cache' = [x \in DOMAIN cache \cup {k} |-> IF x = k THEN nextId ELSE cache[x]]
                        /\ href' = [href EXCEPT ![d] = Append(@, nextId)]
                        /\ nextId' = nextId + 1
             /\ i' = i + 1 /\ UNCHANGED <<docs, d>>
\* the document is finished; the next one starts
NextDoc == /\ Running /\ i = Len(docs[d]) + 1
           /\ d' = d + 1 /\ i' = 1
           /\ cache' = IF ResetPerDocument THEN Empty ELSE cache
           /\ UNCHANGED <<docs, defs, href, nextId>>
Next == ApplyFill \/ NextDoc
Spec == Init /\ [][Next]_vars /\ WF_vars(Next)

Done == ~Running
\* C07: every url(#id) resolves inside its own document
HrefsClosed == \A k \in 1..Len(docs) : \A j \in 1..Len(href[k]) : href[k][j] \in DOMAIN defs[k]
\* C02: the gradient a fill points at is the fill's own gradient, residual transform included
SameGradient == \A k \in 1..Len(docs) : \A j \in 1..Len(href[k]) :
                   href[k][j] \in DOMAIN defs[k] => defs[k][href[k][j]] = docs[k][j]
\* C19's spirit: inside one document an identical gradient is defined once
DefinedOnce == \A k \in 1..Len(docs) : \A x, y \in DOMAIN defs[k] : defs[k][x] = defs[k][y] => x = y
\* ids are unique in the whole font (no two documents define the same id)
IdsUnique == \A k, l \in 1..Len(docs) : k # l => DOMAIN defs[k] \cap DOMAIN defs[l] = {}
Terminates == <>Done

Export == Done => PrintT(<<"VERIF", ToJson([docs |-> docs,
                                            ndefs |-> [k \in 1..Len(docs) |-> Cardinality(DOMAIN defs[k])],
                                            href |-> href])>>)
=============================================================================
