---------------------------- MODULE XformEncode ----------------------------
(***************************************************************************)
(* C16.  paint.transformed: the branching encoder that turns an affine     *)
(* (sx, b, c, sy, dx, dy) into the most compact COLRv1 transform paint,    *)
(* followed by the fontTools compile step (which rejects out-of-range      *)
(* fields).  One action per branch of the code; scalars are dual numbers   *)
(* (Rat.tla) so the exact-== tests and the almost_equal tests of the code  *)
(* are distinguishable on a boundary-value lattice.                        *)
(***************************************************************************)
EXTENDS Integers, Sequences, FiniteSets, TLC, Json, Rat

CONSTANT Level     \* "small" | "full": which lattice

Dv(n, d, e) == D(R(n, d), RI(e))
Zero == DI(0)
One  == DI(1)

ScaleVals ==
    IF Level = "small"
    THEN {Dv(-2, 1, 0), Dv(-1, 1, 0), Dv(1, 2, 0), Dv(1, 1, 0), Dv(1, 1, 1), Dv(32767, 16384, 0), Dv(2, 1, 0)}
    ELSE {Dv(-2, 1, -1), Dv(-2, 1, 0), Dv(-1, 1, 0), Dv(-1, 2, 0), Dv(1, 2, 0), Dv(1, 2, 1), Dv(1, 1, -1), Dv(1, 1, 0),
          Dv(1, 1, 1), Dv(32767, 16384, 0), Dv(32767, 16384, 1), Dv(2, 1, 0), Dv(3, 1, 0)}
ShearVals ==
    IF Level = "small" THEN {Zero, Dv(1, 2, 0)} ELSE {Zero, Dv(0, 1, 1), Dv(1, 2, 0), Dv(-3, 4, 0)}
TransVals ==
    IF Level = "small"
    THEN {Zero, Dv(0, 1, 1), Dv(1, 2, 0), Dv(3, 1, 0), Dv(3, 1, -1), Dv(32767, 1, 0), Dv(32768, 1, 0), Dv(-32769, 1, 0)}
    ELSE {Zero, Dv(0, 1, 1), Dv(0, 1, -1), Dv(1, 2, 0), Dv(3, 1, 0), Dv(3, 1, -1), Dv(3, 1, 1), Dv(-3, 1, 1), Dv(-3, 1, -1),
          Dv(32767, 1, 0), Dv(32767, 1, 1), Dv(32768, 1, 0), Dv(-32768, 1, 0), Dv(-32768, 1, -1), Dv(-32769, 1, 0),
          Dv(100000, 1, 0)}

VARIABLES t,        \* the input affine <<sx, b, c, sy, dx, dy>> (Affine2D field order a..f)
          res,      \* what transformed() returns: [cls, f]
          phase,    \* "encode" -> "compile" -> "done"
          compiled  \* "none" | "ok" | "error"
vars == <<t, res, phase, compiled>>

sx == t[1]  b == t[2]  c == t[3]  sy == t[4]  dx == t[5]  dy == t[6]

MinI16 == DI(-32768)   MaxI16 == DI(32767)
MinF2 == DI(-2)        MaxF2 == Dv(32767, 16384, 0)

Int16Safe(x) == /\ DAlmostEq(x, DI(DTrunc(x)))       \* almost_equal(v, int(v))
                /\ DLe(MinI16, x) /\ DLe(x, MaxI16)
F2Dot14Safe(x) == DLe(MinF2, x) /\ DLe(x, MaxF2)

IsIdentity == /\ DEq(sx, One) /\ DEq(b, Zero) /\ DEq(c, Zero) /\ DEq(sy, One) /\ DEq(dx, Zero) /\ DEq(dy, Zero)
NoTranslation == DEq(dx, Zero) /\ DEq(dy, Zero)
PureTranslation == /\ ~NoTranslation
                   /\ DEq(sx, One) /\ DEq(b, Zero) /\ DEq(c, Zero) /\ DEq(sy, One)
ScaleShaped == /\ ~(DEq(sx, One) /\ DEq(sy, One))
               /\ DEq(b, Zero) /\ DEq(c, Zero)
               /\ F2Dot14Safe(sx) /\ F2Dot14Safe(sy)
CenterDefined == /\ (DEq(sx, One) <=> DEq(dx, Zero))
                 /\ (DEq(sy, One) <=> DEq(dy, Zero))

\* cx = dx / (1 - sx); "Inf" when 1 - sx is infinitesimal and dx is not
Center(s, d) ==
    IF DEq(s, One) THEN [k |-> "num", x |-> Zero]
    ELSE LET den == DSub(One, s) IN
         IF den.v # RZero THEN [k |-> "num", x |-> DDiv(d, den)]
         ELSE IF d.v # RZero THEN [k |-> "inf"]
         ELSE [k |-> "noise"]          \* eps / eps: decided by float rounding noise, not modelled
CSafe(cn) == cn.k = "num" /\ Int16Safe(cn.x)
Noisy == ScaleShaped /\ ~NoTranslation /\ CenterDefined /\
         (Center(sx, dx).k = "noise" \/ Center(sy, dy).k = "noise")

Emit(cls, f) == /\ res' = [cls |-> cls, f |-> f] /\ phase' = "compile" /\ UNCHANGED <<t, compiled>>

ReturnTarget ==                      \* transform == identity: no wrapper at all
    /\ phase = "encode" /\ IsIdentity
    /\ Emit("None", << >>)
EmitTranslate ==
    /\ phase = "encode" /\ ~IsIdentity
    /\ PureTranslation /\ Int16Safe(dx) /\ Int16Safe(dy)
    /\ Emit("PaintTranslate", <<dx, dy>>)
TranslateTaken == PureTranslation /\ Int16Safe(dx) /\ Int16Safe(dy)
EmitScaleUniform ==
    /\ phase = "encode" /\ ~IsIdentity /\ ~TranslateTaken
    /\ ScaleShaped /\ NoTranslation /\ DAlmostEq(sx, sy)
    /\ Emit("PaintScaleUniform", <<sx>>)
EmitScale ==
    /\ phase = "encode" /\ ~IsIdentity /\ ~TranslateTaken
    /\ ScaleShaped /\ NoTranslation /\ ~DAlmostEq(sx, sy)
    /\ Emit("PaintScale", <<sx, sy>>)
CenterOK == ScaleShaped /\ ~NoTranslation /\ CenterDefined /\ ~Noisy
            /\ CSafe(Center(sx, dx)) /\ CSafe(Center(sy, dy))
EmitScaleUniformAroundCenter ==
    /\ phase = "encode" /\ ~IsIdentity /\ ~TranslateTaken
    /\ CenterOK /\ DAlmostEq(sx, sy)
    /\ Emit("PaintScaleUniformAroundCenter", <<sx, Center(sx, dx).x, Center(sy, dy).x>>)
EmitScaleAroundCenter ==
    /\ phase = "encode" /\ ~IsIdentity /\ ~TranslateTaken
    /\ CenterOK /\ ~DAlmostEq(sx, sy)
    /\ Emit("PaintScaleAroundCenter", <<sx, sy, Center(sx, dx).x, Center(sy, dy).x>>)
EmitNoisy ==                         \* outcome depends on float noise; any denoting class is acceptable
    /\ phase = "encode" /\ ~IsIdentity /\ ~TranslateTaken /\ Noisy
    /\ Emit("Any", << >>)
EmitTransform ==                     \* the general fallback
    /\ phase = "encode" /\ ~IsIdentity /\ ~TranslateTaken /\ ~Noisy
    /\ ~(ScaleShaped /\ NoTranslation)
    /\ ~CenterOK
    /\ Emit("PaintTransform", <<sx, b, c, sy, dx, dy>>)

(* what each emitted class means (gettransform of the Paint classes) *)
Denotation(r) ==
    CASE r.cls = "None" -> <<One, Zero, Zero, One, Zero, Zero>>
      [] r.cls = "PaintTranslate" -> <<One, Zero, Zero, One, r.f[1], r.f[2]>>
      [] r.cls = "PaintScaleUniform" -> <<r.f[1], Zero, Zero, r.f[1], Zero, Zero>>
      [] r.cls = "PaintScale" -> <<r.f[1], Zero, Zero, r.f[2], Zero, Zero>>
      [] r.cls = "PaintScaleUniformAroundCenter" ->
            <<r.f[1], Zero, Zero, r.f[1],
              DSub(r.f[2], DMul(r.f[1], r.f[2])), DSub(r.f[3], DMul(r.f[1], r.f[3]))>>
      [] r.cls = "PaintScaleAroundCenter" ->
            <<r.f[1], Zero, Zero, r.f[2],
              DSub(r.f[3], DMul(r.f[1], r.f[3])), DSub(r.f[4], DMul(r.f[2], r.f[4]))>>
      [] r.cls = "PaintTransform" -> r.f
      [] OTHER -> t

(* the binary field types (fontTools raises when a value does not fit) *)
FitsI16(x) == DLe(Dv(-65537, 2, 0), x) /\ DLt(x, Dv(65535, 2, 0))                     \* otRound(x) in int16
FitsF2(x) == DLe(Dv(-65537, 32768, 0), x) /\ DLt(x, Dv(65535, 32768, 0))      \* round(x * 2^14) in int16
FitsFixed(x) == DLe(DI(-32768), x) /\ DLt(x, DI(32768))                        \* 16.16 (to within 2^-17)
Fits(r) ==
    CASE r.cls = "PaintTranslate" -> FitsI16(r.f[1]) /\ FitsI16(r.f[2])
      [] r.cls = "PaintScaleUniform" -> FitsF2(r.f[1])
      [] r.cls = "PaintScale" -> FitsF2(r.f[1]) /\ FitsF2(r.f[2])
      [] r.cls = "PaintScaleUniformAroundCenter" -> FitsF2(r.f[1]) /\ FitsI16(r.f[2]) /\ FitsI16(r.f[3])
      [] r.cls = "PaintScaleAroundCenter" -> FitsF2(r.f[1]) /\ FitsF2(r.f[2]) /\ FitsI16(r.f[3]) /\ FitsI16(r.f[4])
      [] r.cls = "PaintTransform" -> \A i \in 1..6 : FitsFixed(r.f[i])
      [] OTHER -> TRUE

\* float-noise cases ("Any") may compile either way
CompileOk    == phase = "compile" /\ (Fits(res) \/ res.cls = "Any") /\ compiled' = "ok"    /\ phase' = "done" /\ UNCHANGED <<t, res>>
CompileError == phase = "compile" /\ (~Fits(res) \/ res.cls = "Any") /\ compiled' = "error" /\ phase' = "done" /\ UNCHANGED <<t, res>>

Init == /\ t \in ScaleVals \X ShearVals \X ShearVals \X ScaleVals \X TransVals \X TransVals
        /\ res = [cls |-> "pending", f |-> << >>] /\ phase = "encode" /\ compiled = "none"
Next == \/ ReturnTarget \/ EmitTranslate \/ EmitScaleUniform \/ EmitScale
        \/ EmitScaleUniformAroundCenter \/ EmitScaleAroundCenter \/ EmitNoisy \/ EmitTransform
        \/ CompileOk \/ CompileError
Spec == Init /\ [][Next]_vars

-----------------------------------------------------------------------------
Emitted == phase # "encode"
\* C16: what is emitted denotes the input (value parts exactly; infinitesimals are below OT precision)
Denotes == Emitted => \A i \in 1..6 : DAlmostEq(Denotation(res)[i], t[i])
\* C16: the guards guarantee every specialised class fits its fields; only the general matrix can overflow,
\* and then the compile step raises
GuardsSufficient == (Emitted /\ res.cls \notin {"PaintTransform", "Any", "None"}) => Fits(res)
NoSilentWrap == (phase = "done" /\ compiled = "ok") => Fits(res)
\* exactly one branch applies to every input (the encoder is total and deterministic)
Total == phase = "encode" => Cardinality({a \in 1..8 :
            CASE a = 1 -> ENABLED ReturnTarget [] a = 2 -> ENABLED EmitTranslate [] a = 3 -> ENABLED EmitScaleUniform
              [] a = 4 -> ENABLED EmitScale [] a = 5 -> ENABLED EmitScaleUniformAroundCenter
              [] a = 6 -> ENABLED EmitScaleAroundCenter [] a = 7 -> ENABLED EmitNoisy [] a = 8 -> ENABLED EmitTransform}) = 1

DJ(x) == [n |-> x.v[1], d |-> x.v[2], e |-> x.e[1]]     \* lattice inputs have integer e
Export == phase = "done" =>
    PrintT(<<"VERIF", ToJson([t |-> [i \in 1..6 |-> DJ(t[i])], cls |-> res.cls, compiled |-> compiled])>>)
=============================================================================
