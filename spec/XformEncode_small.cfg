SPECIFICATION Spec
CONSTANTS
  Level = "small"
INVARIANT Denotes
INVARIANT GuardsSufficient
INVARIANT NoSilentWrap
INVARIANT Total
INVARIANT Export
