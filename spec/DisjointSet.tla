---------------------------- MODULE DisjointSet ----------------------------
(***************************************************************************)
(* disjoint_set.py, statement by statement: the union-find that            *)
(* svg._glyph_groups uses to put glyphs that share a shape into one OT-SVG *)
(* document (C02: no <use> may point outside its document).                *)
(*                                                                         *)
(*   make_set(e)   no-op for a known element                               *)
(*   find(e)       make_set, then walk to the root.  The "path             *)
(*                 compression" in the code writes parent[prev] = e with   *)
(*                 e = parent[prev] already: it changes nothing, and the   *)
(*                 model says so (Find leaves parent alone)                *)
(*   union(x, y)   find both; compares rank[x] with rank[y] (the           *)
(*                 ARGUMENTS' ranks, not the roots': deliberate            *)
(*                 transcription), hangs y_root under x_root, bumps the    *)
(*                 rank on a tie of the roots' ranks                       *)
(*   sets()        the partition, read off the roots                       *)
(*                                                                         *)
(* The ghost variable `joined` holds the pairs that were united; what the  *)
(* callers rely on is that sets() is exactly the equivalence closure of    *)
(* `joined` over the known elements, after any sequence of calls.          *)
(***************************************************************************)
EXTENDS Integers, Sequences, FiniteSets, TLC, Json

CONSTANTS Elems, MaxOps,
          LinkRoots   \* TRUE = the code as it is; FALSE = hang y itself under x (negative configuration: sets split)

VARIABLES parent,   \* element -> element, 0 = unknown
          rank, joined, hist
vars == <<parent, rank, joined, hist>>

Known == {e \in Elems : parent[e] # 0}
Init == /\ parent = [e \in Elems |-> 0] /\ rank = [e \in Elems |-> 0]
        /\ joined = {} /\ hist = << >>

\* state after make_set(e)
MadeP(p, e) == IF p[e] = 0 THEN [p EXCEPT ![e] = e] ELSE p
RECURSIVE RootIn(_, _, _)
RootIn(p, e, fuel) == IF p[e] = e \/ fuel = 0 THEN e ELSE RootIn(p, p[e], fuel - 1)
Root(p, e) == RootIn(p, e, Cardinality(Elems))

MakeSet(e) == /\ parent' = MadeP(parent, e) /\ UNCHANGED <<rank, joined>>
              /\ hist' = Append(hist, [op |-> "make", x |-> e, y |-> e])
Find(e) == /\ parent' = MadeP(parent, e) /\ UNCHANGED <<rank, joined>>
           /\ hist' = Append(hist, [op |-> "find", x |-> e, y |-> Root(MadeP(parent, e), e)])
Union(x, y) ==
    LET p1 == MadeP(MadeP(parent, x), y)
        xr == Root(p1, x)
        yr == Root(p1, y)
        swap == rank[x] < rank[y]
        top == IF ~LinkRoots THEN x ELSE IF swap THEN yr ELSE xr
        bot == IF ~LinkRoots THEN y ELSE IF swap THEN xr ELSE yr
    IN  /\ IF xr = yr
           THEN parent' = p1 /\ rank' = rank
           ELSE /\ parent' = [p1 EXCEPT ![bot] = top]
                /\ rank' = IF rank[top] = rank[bot] THEN [rank EXCEPT ![top] = @ + 1] ELSE rank
        /\ joined' = joined \cup {<<x, y>>}
        /\ hist' = Append(hist, [op |-> "union", x |-> x, y |-> y])
Next == /\ Len(hist) < MaxOps
        /\ \E x \in Elems : MakeSet(x) \/ Find(x) \/ \E y \in Elems : Union(x, y)
Spec == Init /\ [][Next]_vars

-----------------------------------------------------------------------------
\* following parents from a known element ends at a root (find terminates)
Forest == \A e \in Known : LET r == Root(parent, e) IN parent[r] = r
ParentsKnown == \A e \in Known : parent[e] \in Known
\* the partition read off the roots
SameSet(a, b) == Root(parent, a) = Root(parent, b)
\* the equivalence closure of the united pairs (reflexive on Known), by saturation
RECURSIVE Close(_, _)
Close(R, n) == IF n = 0 THEN R
               ELSE Close(R \cup {<<a, c>> \in Elems \X Elems : \E b \in Elems : <<a, b>> \in R /\ <<b, c>> \in R}, n - 1)
Closure == Close({<<e, e>> : e \in Known} \cup joined \cup {<<p[2], p[1]>> : p \in joined}, Cardinality(Elems))
PartitionIsClosure == \A a, b \in Known : SameSet(a, b) <=> <<a, b>> \in Closure
JoinedKnown == \A p \in joined : p[1] \in Known /\ p[2] \in Known
\* sets never split
Monotone == [][\A a, b \in Known : SameSet(a, b) => Root(parent', a) = Root(parent', b)]_vars

View == <<parent, rank, joined>>
Export == PrintT(<<"VERIF", ToJson([hist |-> hist, parent |-> parent, rank |-> rank])>>)
=============================================================================
