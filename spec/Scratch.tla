------------------------------ MODULE Scratch ------------------------------
(***************************************************************************)
(* C08, the "-j1 .. -j16, any topological execution order" clause, for the *)
(* files ninja itself writes on behalf of a step: response files.          *)
(*                                                                         *)
(* A rule with  rspfile = X, rspfile_content = $in  makes ninja write X    *)
(* when the step STARTS, the step's process reads it some time later       *)
(* (`@X` on its command line), and ninja deletes X when the step has       *)
(* finished.  With up to Jobs steps in flight, two steps that may overlap  *)
(* (neither needs the other's output) must not name the same X: the second *)
(* start overwrites the list the first has not read yet, or the first      *)
(* finish deletes what the second is about to read.                        *)
(*                                                                         *)
(* Constants come from the build.ninja the real driver writes (B3): the    *)
(* edges, their dependencies among edges, and the response file each       *)
(* command line names ("" = none).                                         *)
(***************************************************************************)
EXTENDS Integers, FiniteSets, TLC

CONSTANTS Edges, Deps, Rsp, Jobs

VARIABLES done, inflight, scratch
vars == <<done, inflight, scratch>>

RspNames == {Rsp[o] : o \in Edges} \ {""}
Running == DOMAIN inflight
Ready == {o \in (Edges \ done) \ Running : Deps[o] \subseteq done}

NoneRunning == [o \in {} |-> "unread"]
Init == done = {} /\ inflight = NoneRunning /\ scratch = [r \in RspNames |-> "none"]

\* ninja writes the response file, then spawns the process
Start(o) == /\ o \in Ready /\ Cardinality(Running) < Jobs
            /\ inflight' = [p \in Running \cup {o} |-> IF p = o THEN "unread" ELSE inflight[p]]
            /\ scratch' = IF Rsp[o] = "" THEN scratch ELSE [scratch EXCEPT ![Rsp[o]] = o]
            /\ UNCHANGED done
\* the process expands @X: it sees whatever is in X now
Read(o) == /\ o \in Running /\ inflight[o] = "unread"
           /\ inflight' = [inflight EXCEPT ![o] = IF Rsp[o] = "" THEN o ELSE scratch[Rsp[o]]]
           /\ UNCHANGED <<done, scratch>>
\* the process exits; ninja removes the response file
Finish(o) == /\ o \in Running /\ inflight[o] # "unread"
             /\ done' = done \cup {o}
             /\ inflight' = [p \in Running \ {o} |-> inflight[p]]
             /\ scratch' = IF Rsp[o] = "" THEN scratch ELSE [scratch EXCEPT ![Rsp[o]] = "none"]
Next == \E o \in Edges : Start(o) \/ Read(o) \/ Finish(o)
Spec == Init /\ [][Next]_vars /\ WF_vars(Next)

\* a step only ever sees the input list ninja wrote for it
ReadsOwn == \A o \in Running : inflight[o] \in {"unread", o}
\* every schedule completes
Completes == <>(done = Edges)
=============================================================================
