------------------------------ MODULE Compile ------------------------------
(***************************************************************************)
(* C01 / C06 / C19 (structure).  write_font._migrate_paths_to_ufo_glyphs   *)
(* with glyph_reuse.GlyphReuseCache: glyph by glyph, layer by layer, each  *)
(* source path either becomes a new outline glyph (Miss) or a transformed  *)
(* reference to an earlier one (Hit), with the fallbacks of the code:      *)
(*   - the recovered transform does not fit Fixed  -> Miss, donor replaced *)
(*   - gradient counter-transform does not fit     -> Miss, donor replaced *)
(*                                                                         *)
(* A source layer is [c, p, f]: shape class, placement, fill.  Geometry is *)
(* exact: placements and gradient frames are rational affines (Affine),    *)
(* shape classes are known through their symmetry groups.  ASSUMPTIONS     *)
(* about picosvg, stated as such: normalize() identifies exactly the       *)
(* affine images of one class; affine_between(d, s) returns SOME affine    *)
(* mapping donor onto copy, i.e. F p s q^-1 F^-1 for a symmetry s of the   *)
(* class (TLC explores every choice).                                      *)
(***************************************************************************)
EXTENDS Integers, Sequences, FiniteSets, TLC, Json, Affine, SequencesExt

CONSTANTS Level,        \* "quick" | "small" | "full": size of the class / placement / fill sets
          MaxGlyphs, MaxLayers,
          Reuse         \* set of booleans to explore: {TRUE, FALSE}

Q(n, d) == R(n, d)
\* a class is an AFFINE-equivalence class of outlines (normalize is affine-invariant): all parallelograms are "sq"
Classes == IF Level = "quick" THEN {"F", "sq"} ELSE {"F", "T", "sq"}
\* symmetry groups of the canonical (origin-centred) class geometry
R180 == AQ(-1, 0, 0, -1, 0, 0)
R90  == AQ(0, 1, -1, 0, 0, 0)
R270 == AQ(0, -1, 1, 0, 0, 0)
MX   == AQ(-1, 0, 0, 1, 0, 0)
MY   == AQ(1, 0, 0, -1, 0, 0)
MD1  == AQ(0, 1, 1, 0, 0, 0)
MD2  == AQ(0, -1, -1, 0, 0, 0)
Sym(c) == CASE c = "F" -> {AIdent}
            [] c = "T" -> {AIdent, MX}
            [] c = "sq" -> {AIdent, R90, R180, R270, MX, MY, MD1, MD2}

\* placements in viewBox space (class geometry -> viewBox)
Places ==
    LET base == {AQ(1, 0, 0, 1, 20, 30),                            \* translation
                 AQ(0, 1, -1, 0, 60, 20),                           \* quarter turn + translation
                 <<Q(-2, 1), RZero, RZero, Q(2, 1), Q(50, 1), Q(70, 1)>>,   \* mirror, scale 2
                 <<Q(3, 1), RZero, RZero, Q(1, 1), Q(40, 1), Q(40, 1)>>}    \* non-uniform scale
        more == {<<Q(3, 5), Q(4, 5), Q(-4, 5), Q(3, 5), Q(30, 1), Q(60, 1)>>,         \* 3-4-5 rotation
                 <<Q(1, 2), RZero, Q(1, 4), Q(1, 2), Q(10, 1), Q(80, 1)>>,           \* shear, half size
                 <<Q(10, 1), RZero, RZero, Q(10, 1), Q(50, 1), Q(50, 1)>>,       \* huge copy of a tiny donor
                 <<Q(1, 10), RZero, RZero, Q(1, 10), Q(80, 1), Q(80, 1)>>}       \* tiny donor
        quick == {AQ(1, 0, 0, 1, 20, 30), AQ(0, 1, -1, 0, 60, 20),
                  <<Q(10, 1), RZero, RZero, Q(10, 1), Q(50, 1), Q(50, 1)>>,      \* big copy
                  <<Q(1, 10), RZero, RZero, Q(1, 10), Q(80, 1), Q(80, 1)>>}      \* small donor: x100 overflows Fixed
        \* "small" keeps the two placements whose ratio leaves the 16.16 range, so that the fallback branches are explored
        over  == {<<Q(10, 1), RZero, RZero, Q(10, 1), Q(50, 1), Q(50, 1)>>, <<Q(1, 10), RZero, RZero, Q(1, 10), Q(80, 1), Q(80, 1)>>}
    IN  IF Level = "quick" THEN quick ELSE IF Level = "small" THEN base \cup over ELSE base \cup more
\* viewBox -> font space (one metrics setup: scale 12, y flip at ascender 950, centred: dx = 37)
F == <<Q(12, 1), RZero, RZero, Q(-12, 1), Q(37, 1), Q(950, 1)>>
Fills == IF Level \in {"quick", "small"} THEN {"solid", "gradBBox"} ELSE {"solid", "gradBBox", "gradUser"}
UserFrame == AQ(40, 0, 0, 40, 10, 10)        \* a userSpaceOnUse gradient's own geometry, in viewBox space
BBoxFrame == AQ(2, 0, 0, 2, -1, -1)          \* unit square -> canonical bbox of the class

Layer == [c : Classes, p : Places, f : Fills]
PlaceFont(l) == Then(l.p, F)                                   \* class geometry -> font space
FrameFont(l) == CASE l.f = "gradBBox" -> Then(BBoxFrame, PlaceFont(l))
                  [] l.f = "gradUser" -> Then(UserFrame, F)
                  [] OTHER -> AIdent

VARIABLES src,      \* sequence of glyphs, each a sequence of Layers (the picosvg-normal sources, input order)
          reuse,    \* reuse_tolerance >= 0 ?
          gi, li,   \* cursor: glyph, layer
          cache,    \* class -> [name, place (font space)] of the registered donor
          out,      \* glyph -> sequence of emitted layers
          made,     \* outline glyphs created so far (names)
          misses    \* class -> number of fallback misses (unrepresentable reuse)
vars == <<src, reuse, gi, li, cache, out, made, misses>>

\* all ways to cut a flat list of <= MaxLayers layers into <= MaxGlyphs non-empty glyphs
Flats == UNION {[1..k -> Layer] : k \in 1..MaxLayers}
CutsOf(k) == {C \in SUBSET (1..(k - 1)) : Cardinality(C) <= MaxGlyphs - 1}
SplitAt(flat, C) ==
    LET k == Len(flat)
        bounds == C \cup {k}                       \* last index of each glyph
        Start(e) == 1 + (IF \E x \in bounds : x < e THEN CHOOSE x \in bounds : x < e /\ \A y \in bounds : y < e => y <= x ELSE 0)
        ends == SortSeq(SetToSeq(bounds), LAMBDA x, y : x < y)
    IN  [g \in 1..Len(ends) |-> SubSeq(flat, Start(ends[g]), ends[g])]
\* the quick level keeps only lists in which some class recurs (the others exercise no reuse decision)
Interesting(flat) == Level # "quick" \/ \E i, j \in DOMAIN flat : i < j /\ flat[i].c = flat[j].c
Init == /\ \E flat \in {x \in Flats : Interesting(x)} : \E C \in CutsOf(Len(flat)) : src = SplitAt(flat, C)
        /\ reuse \in Reuse
        /\ gi = 1 /\ li = 1
        /\ cache = [c \in {} |-> 0] /\ out = [g \in 1..Len(src) |-> << >>] /\ made = {}
        /\ misses = [c \in Classes |-> 0]

Cur == src[gi][li]
Name(g) == <<g, Cardinality({n \in made : n[1] = g})>>          \* "<base>.<n>": first free n
Advance == IF li < Len(src[gi]) THEN li' = li + 1 /\ gi' = gi
           ELSE li' = 1 /\ gi' = gi + 1
Working == gi <= Len(src)

\* every transform affine_between may return for donor placed by dp and copy placed by cp
Between(c, dp, cp) == {Then(Then(AInv(dp), s), cp) : s \in Sym(c)}
GradOK(l, T) == l.f = "solid" \/ FixedSafe(Then(FrameFont(l), AInv(T)))

Emit(rec) == out' = [out EXCEPT ![gi] = Append(@, rec)]
NewGlyph(l, fallback) ==
    /\ made' = made \cup {Name(gi)}
    /\ cache' = [c \in DOMAIN cache \cup {l.c} |-> IF c = l.c THEN [name |-> Name(gi), place |-> PlaceFont(l)] ELSE cache[c]]
    /\ Emit([kind |-> "miss", glyph |-> Name(gi), T |-> AIdent, place |-> PlaceFont(l), frame |-> FrameFont(l), c |-> l.c])
    /\ misses' = IF fallback THEN [misses EXCEPT ![l.c] = @ + 1] ELSE misses

Miss ==            \* try_reuse returns None: reuse disabled, or nothing normalises alike
    /\ Working /\ (~reuse \/ Cur.c \notin DOMAIN cache)
    /\ NewGlyph(Cur, FALSE) /\ Advance /\ UNCHANGED <<src, reuse>>
Hit ==             \* a donor exists and everything is representable
    /\ Working /\ reuse /\ Cur.c \in DOMAIN cache
    /\ \E T \in Between(Cur.c, cache[Cur.c].place, PlaceFont(Cur)) :
         /\ FixedSafe(T) /\ GradOK(Cur, T)
         /\ Emit([kind |-> "hit", glyph |-> cache[Cur.c].name, T |-> T, place |-> cache[Cur.c].place,
                  frame |-> Then(Then(FrameFont(Cur), AInv(T)), T), c |-> Cur.c])
    /\ Advance /\ UNCHANGED <<src, reuse, cache, made, misses>>
HitOverflow ==     \* the transform (or the gradient's counter-transform) does not fit Fixed: emitted un-reused
    /\ Working /\ reuse /\ Cur.c \in DOMAIN cache
    /\ \E T \in Between(Cur.c, cache[Cur.c].place, PlaceFont(Cur)) : ~(FixedSafe(T) /\ GradOK(Cur, T))
    /\ NewGlyph(Cur, TRUE) /\ Advance /\ UNCHANGED <<src, reuse>>
Next == Miss \/ Hit \/ HitOverflow
Spec == Init /\ [][Next]_vars

-----------------------------------------------------------------------------
Done == ~Working
\* C01/C06: every emitted layer shows the class exactly where the source put it ...
SamePicture == Done => \A g \in DOMAIN out : \A i \in DOMAIN out[g] :
    LET e == out[g][i]  l == src[g][i] IN
    \E s \in Sym(l.c) : Then(Then(s, e.place), e.T) = PlaceFont(l)
\* ... painted by the fill exactly where the source put it
FillSame == Done => \A g \in DOMAIN out : \A i \in DOMAIN out[g] :
    src[g][i].f # "solid" => out[g][i].frame = FrameFont(src[g][i])
\* no layer dropped, added or reordered
OrderKept == /\ \A g \in DOMAIN out : Len(out[g]) <= Len(src[g]) /\ \A i \in DOMAIN out[g] : out[g][i].c = src[g][i].c
             /\ Done => \A g \in DOMAIN out : Len(out[g]) = Len(src[g])
Representable == Done => \A g \in DOMAIN out : \A i \in DOMAIN out[g] : FixedSafe(out[g][i].T)
\* C19: with reuse on, one outline per class, plus one per unrepresentable copy; with reuse off, one per layer
Positions == {<<g, i>> \in (DOMAIN out) \X (1..MaxLayers) : i \in DOMAIN out[g]}
Donors(c) == {out[q[1]][q[2]].glyph : q \in {r \in Positions : out[r[1]][r[2]].c = c}}
StoredOnce == Done => \A c \in Classes :
    IF reuse THEN Cardinality(Donors(c)) <= 1 + misses[c]
    ELSE \A g \in DOMAIN out : \A i \in DOMAIN out[g] : out[g][i].kind = "miss"
NamesFresh == Cardinality(made) = Cardinality({q \in Positions : out[q[1]][q[2]].kind = "miss"})

AJ(m) == [i \in 1..6 |-> [n |-> m[i][1], d |-> m[i][2]]]
Export == Done =>
    PrintT(<<"VERIF", ToJson([reuse |-> reuse, fallbacks |-> [c \in Classes |-> misses[c]],
        src |-> [g \in DOMAIN src |-> [i \in DOMAIN src[g] |->
                    [c |-> src[g][i].c, p |-> AJ(src[g][i].p), f |-> src[g][i].f]]],
        out |-> [g \in DOMAIN out |-> [i \in DOMAIN out[g] |->
                    [kind |-> out[g][i].kind, glyph |-> out[g][i].glyph]]]])>>)
=============================================================================
