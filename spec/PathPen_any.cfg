SPECIFICATION Spec
CONSTANTS
  MaxLen = 4
  RequireNormal = FALSE
INVARIANT NothingDropped
INVARIANT RoundTrip
INVARIANT Bounded
INVARIANT Export
