SPECIFICATION Spec
CONSTANTS
  MoveSingletons = FALSE
  MaxGlyphs = 3
  MaxLayersPerGlyph = 2
  MaxLayers = 4
  NClasses = 2
  Attrs = {"none"}
INVARIANT DocRanges
INVARIANT GidIsPosition
