SPECIFICATION Spec
CONSTANTS
  MaxNodes = 8
  MaxDepth = 3
  ReverseChildren = TRUE
INVARIANT NoAssert
INVARIANT TreeSame
INVARIANT Bounded
INVARIANT Export
