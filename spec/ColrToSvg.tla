----------------------------- MODULE ColrToSvg -----------------------------
(***************************************************************************)
(* C13.  colr_to_svg._colr_v1_paint_to_svg: a recursive walk of a COLRv1   *)
(* paint graph that carries an accumulated transform T and emits SVG       *)
(* elements; when T is written on an element (a <path> for PaintGlyph, a   *)
(* <g> for PaintColrGlyph) it is RESET, because the element's transform    *)
(* already applies to everything below it (incl. its gradient).            *)
(*                                                                         *)
(* Transforms are sequences of tokens (free monoid): the product is        *)
(* concatenation, outermost first, so two walks agree iff they apply the   *)
(* same transforms in the same order.  The walk is an explicit stack       *)
(* machine: one action per branch of the code.                             *)
(***************************************************************************)
EXTENDS Integers, Sequences, FiniteSets, TLC, Json, SequencesExt

CONSTANTS MaxDepth, Tokens       \* e.g. Tokens = {"a", "b"}

Fills == {[k |-> "solid"], [k |-> "grad"]}
RECURSIVE Trees(_)
Trees(d) ==
    IF d = 0 THEN Fills
    ELSE LET sub == Trees(d - 1) IN
         Fills
         \cup {[k |-> "glyph", ch |-> c] : c \in sub}
         \cup {[k |-> "xf", t |-> t, ch |-> c] : t \in Tokens, c \in sub}
         \cup {[k |-> "group", ch |-> c] : c \in sub}
         \cup {[k |-> "colrglyph", ch |-> c] : c \in {x \in sub : x.k \in {"glyph", "layers"}}}
         \cup {[k |-> "layers", ch |-> <<a, b>>] : a \in {x \in sub : x.k \in {"glyph", "xf"}}, b \in {x \in sub : x.k = "glyph"}}
\* well-formed graphs: every fill is under a PaintGlyph; the root is not a bare fill
RECURSIVE Closed(_, _)
Closed(p, under) ==
    CASE p.k \in {"solid", "grad"} -> under
      [] p.k = "glyph" -> Closed(p.ch, TRUE)
      [] p.k = "layers" -> \A i \in DOMAIN p.ch : Closed(p.ch[i], under)
      [] OTHER -> Closed(p.ch, under)

VARIABLES root, stack, out, nid
vars == <<root, stack, out, nid>>
\* stack frames: [p |-> paint, par |-> element id, T |-> accumulated transform]
\* out: element id -> [k, par, xf (transform attribute), fill |-> "none"|"solid"|"grad", gxf (gradientTransform)]

\* an opacity group wraps structure (layers / glyphs), never a bare fill: PaintGlyph -> group -> fill is outside
\* what the converter claims to handle (it would put a <g> inside a <path>)
RECURSIVE GroupsOverStructure(_)
GroupsOverStructure(p) ==
    CASE p.k \in {"solid", "grad"} -> TRUE
      [] p.k = "layers" -> \A i \in DOMAIN p.ch : GroupsOverStructure(p.ch[i])
      [] p.k = "group" -> Closed(p.ch, FALSE) /\ GroupsOverStructure(p.ch)
      [] OTHER -> GroupsOverStructure(p.ch)
Init == /\ root \in {p \in Trees(MaxDepth) : Closed(p, FALSE) /\ p.k \notin {"solid", "grad"} /\ GroupsOverStructure(p)}
        /\ stack = <<[p |-> root, par |-> 0, T |-> << >>]>>
        /\ out = << >> /\ nid = 1

Top == Head(stack)
Pop == Tail(stack)
NewEl(rec) == out' = Append(out, rec) /\ nid' = nid + 1

AtSolid == /\ stack # << >> /\ Top.p.k = "solid" /\ Top.par > 0
           /\ out' = [out EXCEPT ![Top.par].fill = "solid"]
           /\ stack' = Pop /\ UNCHANGED <<root, nid>>
AtGradient ==   \* gradient coordinates are mapped by T (then font -> viewBox): T becomes the gradient's own transform
           /\ stack # << >> /\ Top.p.k = "grad" /\ Top.par > 0
           /\ out' = [out EXCEPT ![Top.par].fill = "grad", ![Top.par].gxf = Top.T]
           /\ stack' = Pop /\ UNCHANGED <<root, nid>>
AtGlyph ==      \* emit <path transform=T>, reset T for everything below
           /\ stack # << >> /\ Top.p.k = "glyph"
           /\ NewEl([k |-> "path", par |-> Top.par, xf |-> Top.T, fill |-> "none", gxf |-> << >>])
           /\ stack' = <<[p |-> Top.p.ch, par |-> nid, T |-> << >>]>> \o Pop
           /\ UNCHANGED root
AtTransform ==  \* transform @= paint.gettransform()   (outer x inner)
           /\ stack # << >> /\ Top.p.k = "xf"
           /\ stack' = <<[p |-> Top.p.ch, par |-> Top.par, T |-> Top.T \o <<Top.p.t>>]>> \o Pop
           /\ UNCHANGED <<root, out, nid>>
AtLayers ==     \* children in order, each with the same T
           /\ stack # << >> /\ Top.p.k = "layers"
           /\ stack' = [i \in DOMAIN Top.p.ch |-> [p |-> Top.p.ch[i], par |-> Top.par, T |-> Top.T]] \o Pop
           /\ UNCHANGED <<root, out, nid>>
AtGroupOpacity == \* PaintComposite(SRC_IN, black@alpha): <g opacity>, T passes through untouched
           /\ stack # << >> /\ Top.p.k = "group"
           /\ NewEl([k |-> "g", par |-> Top.par, xf |-> << >>, fill |-> "none", gxf |-> << >>])
           /\ stack' = <<[p |-> Top.p.ch, par |-> nid, T |-> Top.T]>> \o Pop
           /\ UNCHANGED root
AtColrGlyph ==  \* with a pending transform: <g transform=T>, reset
           /\ stack # << >> /\ Top.p.k = "colrglyph"
           /\ IF Top.T = << >>
              THEN /\ stack' = <<[p |-> Top.p.ch, par |-> Top.par, T |-> << >>]>> \o Pop /\ UNCHANGED <<out, nid>>
              ELSE /\ NewEl([k |-> "g", par |-> Top.par, xf |-> Top.T, fill |-> "none", gxf |-> << >>])
                   /\ stack' = <<[p |-> Top.p.ch, par |-> nid, T |-> << >>]>> \o Pop
           /\ UNCHANGED root
Next == AtSolid \/ AtGradient \/ AtGlyph \/ AtTransform \/ AtLayers \/ AtGroupOpacity \/ AtColrGlyph
Spec == Init /\ [][Next]_vars

-----------------------------------------------------------------------------
Done == stack = << >>
\* SVG semantics: an element's effective transform is its ancestors' transforms, then its own
RECURSIVE Eff(_)
Eff(e) == IF e = 0 THEN << >> ELSE Eff(out[e].par) \o out[e].xf
\* COLR semantics: the PaintGlyph leaves in paint order with the product of the transforms above each, and the
\* product of ALL transforms above its fill
RECURSIVE FillOfR(_, _)
FillOfR(p, T) == \* first fill reached going down (through transforms / groups), with its accumulated transform
    CASE p.k = "solid" -> [k |-> "solid", T |-> << >>]
      [] p.k = "grad" -> [k |-> "grad", T |-> T]
      [] p.k = "xf" -> FillOfR(p.ch, T \o <<p.t>>)
      [] p.k = "layers" -> FillOfR(p.ch[1], T)
      [] p.k = "glyph" -> [k |-> "nested", T |-> << >>]
      [] OTHER -> FillOfR(p.ch, T)
FillOf(p, T) == FillOfR(p, T)
RECURSIVE Leaves(_, _)
Leaves(p, T) ==
    CASE p.k \in {"solid", "grad"} -> << >>
      [] p.k = "glyph" -> <<[T |-> T, fill |-> FillOf(p.ch, T)]>> \o Leaves(p.ch, T)
      [] p.k = "xf" -> Leaves(p.ch, T \o <<p.t>>)
      [] p.k = "layers" -> Leaves(p.ch[1], T) \o Leaves(p.ch[2], T)
      [] OTHER -> Leaves(p.ch, T)
Paths == SelectSeq([i \in 1..Len(out) |-> i], LAMBDA i : out[i].k = "path")
\* C13: the i-th <path> is placed by exactly the transforms above the i-th PaintGlyph, in order; a gradient on it is
\* placed by exactly the transforms above the gradient
SamePlacement == Done =>
    LET L == Leaves(root, << >>) IN
    /\ Len(Paths) = Len(L)
    /\ \A i \in DOMAIN L :
         /\ Eff(Paths[i]) = L[i].T
         /\ (L[i].fill.k = "grad" => out[Paths[i]].fill = "grad" /\ Eff(Paths[i]) \o out[Paths[i]].gxf = L[i].fill.T)
         /\ (L[i].fill.k = "solid" => out[Paths[i]].fill = "solid")

RECURSIVE TJ(_)
TJ(p) == CASE p.k \in {"solid", "grad"} -> [k |-> p.k]
           [] p.k = "xf" -> [k |-> "xf", t |-> p.t, ch |-> TJ(p.ch)]
           [] p.k = "layers" -> [k |-> "layers", ch |-> <<TJ(p.ch[1]), TJ(p.ch[2])>>]
           [] OTHER -> [k |-> p.k, ch |-> TJ(p.ch)]
Export == Done => PrintT(<<"VERIF", ToJson([root |-> TJ(root), paths |-> [i \in DOMAIN Paths |-> [xf |-> Eff(Paths[i])]]])>>)
=============================================================================
