SPECIFICATION Spec
CONSTANTS
  RePrefix = FALSE
  MaxLenIn = 70
INVARIANT ValidIdent
