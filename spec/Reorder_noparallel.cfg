SPECIFICATION Spec
CONSTANTS
  Glyphs = {"n", "a", "b", "c"}
  Payloads = {"p", "q"}
  HasParallelRule = FALSE
  MaxRounds = 1
  Memo = FALSE
PROPERTY MeaningAction
