SPECIFICATION Spec
CONSTANTS
  NVals = 3
  MaxIdx = 5
  MaxColors = 6
INVARIANT ErrorIffConflict
INVARIANT NoInternalError
INVARIANT PaletteGood
INVARIANT NeverEmpty
INVARIANT LoopInv
INVARIANT Export
