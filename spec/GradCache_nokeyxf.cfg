SPECIFICATION Spec
CONSTANTS
  KeyHasTransform = FALSE
  ResetPerDocument = TRUE
  MaxDocs = 2
  MaxFills = 3
INVARIANT SameGradient
