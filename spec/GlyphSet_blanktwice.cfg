SPECIFICATION Spec
CONSTANTS
  MaxSources = 2
  MaxLen = 3
  BlanksOnce = FALSE
INVARIANT GidIsFinal
