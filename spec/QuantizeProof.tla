--------------------------- MODULE QuantizeProof ---------------------------
(***************************************************************************)
(* Unbounded form of ClipBox.tla's Quantize step, by TLAPS: pushing an     *)
(* integer edge outwards to a multiple of ANY step q > 0 never cuts        *)
(* (FloorTo(n) <= n <= CeilTo(n)), lands on a multiple of q, and wastes    *)
(* less than q.  TLC checks the whole pipeline (union, otRound, quantise)  *)
(* on boundary values for q in {1, 7, 20}; this is every n and every q.    *)
(***************************************************************************)
EXTENDS Quantize, TLAPS

LEMMA DivMod == \A n \in Int, s \in Nat \ {0} : n = s * (n \div s) + (n % s) /\ 0 <= n % s /\ n % s < s
  OBVIOUS

THEOREM FloorOutward == \A n \in Int, s \in Nat \ {0} :
            /\ FloorTo(n, s) <= n
            /\ n - s < FloorTo(n, s)
            /\ \E k \in Int : FloorTo(n, s) = k * s
<1> TAKE n \in Int, s \in Nat \ {0}
<1>1. n = s * (n \div s) + (n % s) /\ 0 <= n % s /\ n % s < s
  BY DivMod
<1>2. n \div s \in Int
  OBVIOUS
<1>3. FloorTo(n, s) = n - (n % s)
  BY <1>1, <1>2 DEF FloorTo
<1> QED BY <1>1, <1>2, <1>3 DEF FloorTo

THEOREM CeilOutward == \A n \in Int, s \in Nat \ {0} :
            /\ n <= CeilTo(n, s)
            /\ CeilTo(n, s) < n + s
            /\ \E k \in Int : CeilTo(n, s) = k * s
<1> TAKE n \in Int, s \in Nat \ {0}
<1>1. /\ FloorTo(-n, s) <= -n
      /\ -n - s < FloorTo(-n, s)
      /\ \E k \in Int : FloorTo(-n, s) = k * s
  BY FloorOutward
<1>2. FloorTo(-n, s) \in Int
  BY DEF FloorTo
<1>3. PICK k \in Int : FloorTo(-n, s) = k * s
  BY <1>1
<1>4. CeilTo(n, s) = (-k) * s
  BY <1>3 DEF CeilTo
<1> QED BY <1>1, <1>2, <1>4 DEF CeilTo
=============================================================================
