SPECIFICATION Spec
CONSTANTS
  MaxGlyphs = 3
  MaxLayersPerGlyph = 2
  MaxLayers = 4
  NClasses = 2
  Attrs = {"none", "A", "B"}
INVARIANT NoError
INVARIANT SamePicture
INVARIANT NoCrossGlyphRef
INVARIANT HrefsClosed
INVARIANT DocRanges
INVARIANT PlacedOnce
INVARIANT Export
