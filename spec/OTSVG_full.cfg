SPECIFICATION Spec
CONSTANTS
  MoveSingletons = TRUE
  MaxGlyphs = 3
  MaxLayersPerGlyph = 2
  MaxLayers = 4
  NClasses = 2
  Attrs = {"none", "A", "B"}
INVARIANT NoError
INVARIANT SamePicture
INVARIANT NoCrossGlyphRef
INVARIANT HrefsClosed
INVARIANT DocRanges
INVARIANT GidIsPosition
INVARIANT PlacedOnce
INVARIANT Export
