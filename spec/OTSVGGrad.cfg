SPECIFICATION Spec
CONSTANTS
  Level = "fixed"
INVARIANT SameEllipse
INVARIANT RadiusPositive
INVARIANT Total
INVARIANT Export
