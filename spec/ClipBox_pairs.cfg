SPECIFICATION Spec
CONSTANTS
  Coords <- CoordSetSmall
  Steps = {1, 7, 20}
  MaxLayers = 2
INVARIANT Contains
INVARIANT Multiples
INVARIANT Tight
INVARIANT NoBoxIffNoLayers
INVARIANT Export
