-------------------------- MODULE DisjointSetTrace --------------------------
(***************************************************************************)
(* B2 for DisjointSet: the calls that svg._glyph_groups really makes       *)
(* during OT-SVG builds (recorded by a harness-side subclass, outermost    *)
(* calls only), re-executed by the model's actions; the partition the      *)
(* code finally returns (sorted()) must be the one the model holds.        *)
(* Glyph names are interned to 1..N by the recorder.  One JVM validates a  *)
(* batch: every trace id is an initial state.                              *)
(***************************************************************************)
EXTENDS DisjointSet, IOUtils

Traces == JsonDeserialize(IOEnv.TRACE_FILE)
VARIABLES tid, l
tvars == <<vars, tid, l>>

Tr == Traces[tid]
Ev == Tr[l]
Is(e) == l <= Len(Tr) /\ Ev.op = e
Consume == l' = l + 1 /\ UNCHANGED tid

TInit == Init /\ tid \in 1..Len(Traces) /\ l = 1
TMake == Is("make") /\ MakeSet(Ev.x) /\ Consume
TUnion == Is("union") /\ Union(Ev.x, Ev.y) /\ Consume
SeqSet(s) == {s[i] : i \in DOMAIN s}
ModelSets == {{b \in Known : SameSet(a, b)} : a \in Known}
TSets == /\ Is("sets") /\ ModelSets = {SeqSet(s) : s \in SeqSet(Ev.sets)}
         /\ UNCHANGED vars /\ Consume
Accept == /\ l = Len(Tr) + 1 /\ PrintT(<<"ACCEPT", tid>>)
          /\ l' = l + 1 /\ UNCHANGED <<vars, tid>>
Step == TMake \/ TUnion \/ TSets
Reject == /\ l <= Len(Tr) /\ ~ENABLED Step
          /\ PrintT(<<"REJECT", tid, l, Ev.op>>)
          /\ l' = Len(Tr) + 2 /\ UNCHANGED <<vars, tid>>
TNext == Step \/ Accept \/ Reject
TSpec == TInit /\ [][TNext]_tvars
=============================================================================
