------------------------------ MODULE Sources ------------------------------
(***************************************************************************)
(* C08 (part).  config.load: the source list of a master is the set of     *)
(* paths the user spelled (arguments / globs, relative to the current      *)
(* directory or to the config file), made absolute and sorted.  The font   *)
(* (glyph ids, cmap, record order) follows that order, so it must not      *)
(* depend on the directory the command was started from or on the order    *)
(* of the arguments.                                                       *)
(*                                                                         *)
(* Paths are sequences of name ranks (a directory tree of depth <= 2 under *)
(* one project root); "spelling" a file from a working directory is        *)
(* climbing with ".." (rank 0: ".." sorts before any name) and descending. *)
(* Lexicographic order on sequences of ranks = Python's order on the path  *)
(* strings for names of equal shape.                                       *)
(***************************************************************************)
EXTENDS Integers, Sequences, FiniteSets, TLC, Json, SequencesExt

CONSTANTS Dirs,          \* directory names (ranks 1..): e.g. {1, 2}
          Files,         \* file names (ranks above the directories): e.g. {5, 6, 7}
          SortAbsolute   \* TRUE = the code as it is: sorted(abspath(p) for p in srcs); FALSE = abspath(p) for p in sorted(srcs)

UP == 0
\* absolute paths below the root: <<dir, file>> or <<file>>
AllPaths == {<<f>> : f \in Files} \cup {<<d, f>> : d \in Dirs, f \in Files}
\* working directories: the root or one of its directories
Cwds == {<< >>} \cup {<<d>> : d \in Dirs}

RECURSIVE LexLess(_, _)
LexLess(a, b) == IF a = << >> THEN b # << >>
                 ELSE IF b = << >> THEN FALSE
                 ELSE IF Head(a) # Head(b) THEN Head(a) < Head(b)
                 ELSE LexLess(Tail(a), Tail(b))
\* how a file is spelled from a working directory
Spell(p, cwd) == IF cwd = << >> THEN p
                 ELSE IF Len(p) = 2 /\ p[1] = cwd[1] THEN <<p[2]>>
                 ELSE <<UP>> \o p
SortBy(S, key(_)) == SortSeq(SetToSeq(S), LAMBDA x, y : LexLess(key(x), key(y)))

VARIABLES srcs, cwd, perm, resolved, phase
vars == <<srcs, cwd, perm, resolved, phase>>

\* (config.load refuses two sources with one file name in a master: file names are distinct)
Init == /\ srcs \in {S \in SUBSET AllPaths : Cardinality(S) \in 2..3 /\ \A p, q \in S : p # q => p[Len(p)] # q[Len(q)]}
        /\ cwd \in Cwds
        /\ perm \in {0, 1}                       \* the argument order (irrelevant: a set is built first)
        /\ resolved = << >> /\ phase = "args"
Resolve == /\ phase = "args"
           /\ resolved' = IF SortAbsolute THEN SortBy(srcs, LAMBDA p : p)
                          ELSE SortBy(srcs, LAMBDA p : Spell(p, cwd))
           /\ phase' = "done" /\ UNCHANGED <<srcs, cwd, perm>>
Next == Resolve
Spec == Init /\ [][Next]_vars

\* the resolved order is a function of the files alone
Canonical == phase = "done" => resolved = SortBy(srcs, LAMBDA p : p)
Export == phase = "done" => PrintT(<<"VERIF", ToJson([srcs |-> SetToSeq(srcs), cwd |-> cwd, perm |-> perm, resolved |-> resolved])>>)
=============================================================================
