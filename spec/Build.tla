------------------------------- MODULE Build -------------------------------
(***************************************************************************)
(* C08 / C09 / C17 / C20: the build directory as a state machine.          *)
(*                                                                         *)
(*   user operations on sources and options                                *)
(*   -> driver invocation (resolved TOMLs rewritten, build.ninja rewritten *)
(*      from the CURRENT world: the graph is a B3 constant extracted from  *)
(*      the real driver, see BuildData)                                    *)
(*   -> ninja (mtime/log/command-hash dirtiness as in ninja 1.13, one      *)
(*      action per executed edge, any ready edge may run)                  *)
(*   with faults: a step exits non-zero, a step is killed after writing a  *)
(*   truncated output, the driver is killed before / while writing         *)
(*   build.ninja.                                                          *)
(*                                                                         *)
(* File contents are TERMS: a step's output is <<"out", sem, contents of   *)
(* the files the step REALLY reads (measured by strace), in order>>, so    *)
(* "same bytes" is "same term" and a stale or mis-ordered read shows up.   *)
(***************************************************************************)
EXTENDS Integers, Sequences, FiniteSets, TLC

CONSTANTS
    Sources,        \* source file paths (relative to the build dir)
    Opts,           \* option values that change the graph (e.g. "clip", "noclip")
    WorldOf,        \* [<<present set, opt>> -> world id]   (B3)
    Edges,          \* [world id -> [output -> [ins, trig, reads, h, sem, deps, tdeps]]]   (B3)
    Toml,           \* [world id -> set of [path, id]] files the driver writes on every run   (B3)
    Fonts,          \* [world id -> set of font outputs]
    MaxOps, MaxFaults, MaxVer,
    FreeSchedule,   \* TRUE: any ready edge may run (all -j schedules); FALSE: one canonical order
    UserOps,        \* subset of {"Edit","Remove","Add","ToggleOpt","RestoreOlder","AddOld"}
    FaultKinds      \* subset of {"Fail","Trunc","KillBeforeNinja","KillMidNinja"}

VARIABLES
    present, opt, ver,   \* the world: which sources exist, the option, content version per source
    fs,                  \* [path -> [m, c]] existing files: mtime rank and content term
    log,                 \* .ninja_log: [output -> [h, m]]
    graph,               \* content of build.ninja on disk: [output -> edge]; << >> when absent/truncated
    ph,                  \* "idle" | "toml" | "ninjafile" | "ninja"
    failed,              \* some step failed in the running ninja
    exit,                \* exit status of the last finished invocation (-1: none / world changed since)
    mark,                \* mtime rank at which the running / last invocation started
    ops, faults, ran     \* bounds; ran = edges executed by the running ninja (for FailStop)

vars == <<present, opt, ver, fs, log, graph, ph, failed, exit, mark, ops, faults, ran>>

Garbage == <<"garbage">>
Has(p) == p \in DOMAIN fs
World == WorldOf[<<present, opt>>]

(* ------------------------------------------------------------------ mtimes as dense ranks *)
Times(f, l, k) == {f[p].m : p \in DOMAIN f} \cup {l[p].m : p \in DOMAIN l} \cup {k}
Rank(T, x) == Cardinality({y \in T : y < x})
NormFs(f, T) == [p \in DOMAIN f |-> [m |-> Rank(T, f[p].m), c |-> f[p].c]]
NormLog(l, T) == [p \in DOMAIN l |-> [h |-> l[p].h, m |-> Rank(T, l[p].m)]]
Now == 1 + Cardinality(Times(fs, log, mark))      \* strictly newer than everything on disk
\* commit new fs/log/mark with all mtimes renumbered densely (keeps the state space finite)
Commit(f, l, k) ==
    LET T == Times(f, l, k) IN
    /\ fs' = NormFs(f, T) /\ log' = NormLog(l, T) /\ mark' = Rank(T, k)

Put(f, p, v) == [q \in DOMAIN f \cup {p} |-> IF q = p THEN v ELSE f[q]]
Del(f, p) == [q \in DOMAIN f \ {p} |-> f[q]]

(* ------------------------------------------------------------------ ninja *)
\* `graph` holds the CONTENT of build.ninja: [output -> [ins, reads, h, sem, deps]] (deps = the inputs that are
\* themselves outputs of an edge).  Edges are identified by their output path.
G == DOMAIN graph
SeqSet(s) == {s[i] : i \in DOMAIN s}
\* `trig` / `tdeps`: the explicit and implicit inputs.  ORDER-ONLY inputs (in `ins` and `deps` only) are built before the
\* edge but never make it dirty: neither by their own dirtiness nor by their mtime.
MaxIn(o) == LET ms == {fs[p].m : p \in SeqSet(graph[o].trig) \cap DOMAIN fs} IN
            IF ms = {} THEN -1 ELSE CHOOSE x \in ms : \A y \in ms : y <= x

RECURSIVE DirtyR(_)
DirtyR(o) ==
    \/ \E d \in graph[o].tdeps : DirtyR(d)                        \* an (explicit or implicit) input is dirty
    \/ ~Has(o)                                                    \* output doesn't exist
    \/ (Has(o) /\ fs[o].m < MaxIn(o))                             \* output older than most recent input
    \/ o \notin DOMAIN log                                        \* command line not found in log
    \/ (o \in DOMAIN log /\ log[o].h # graph[o].h)                \* command line changed
    \/ (o \in DOMAIN log /\ log[o].m < MaxIn(o))                  \* recorded mtime older than most recent input
Dirty(o) == (DirtyR(o) = TRUE)

\* an input that neither exists nor has a rule: ninja refuses to start
MissingInput == \E o \in G : \E p \in SeqSet(graph[o].ins) : ~Has(p) /\ p \notin G
DirtySet == {o \in G : Dirty(o)}
ReadyIn(D) == {o \in D : graph[o].deps \cap D = {}}
Pick == LET R == ReadyIn(DirtySet) IN
        IF FreeSchedule THEN R
        ELSE IF R = {} THEN {} ELSE {CHOOSE o \in R : \A x \in R : graph[o].h <= graph[x].h}

ReadsOk(o) == \A p \in SeqSet(graph[o].reads) : Has(p) /\ fs[p].c # Garbage
OutTerm(o) == <<"out", graph[o].sem, [i \in DOMAIN graph[o].reads |-> fs[graph[o].reads[i]].c]>>

RunEdge(o) ==      \* the step runs to completion (or fails by itself on an unreadable input)
    /\ ph = "ninja" /\ ~failed
    /\ IF ReadsOk(o)
       THEN /\ Commit(Put(fs, o, [m |-> Now, c |-> OutTerm(o)]),
                      Put(log, o, [h |-> graph[o].h, m |-> Now]), mark)
            /\ ran' = ran \cup {o}
            /\ UNCHANGED failed
       ELSE /\ failed' = TRUE /\ UNCHANGED <<fs, log, mark, ran>>
    /\ UNCHANGED <<present, opt, ver, graph, ph, exit, ops, faults>>

FailEdge(o) ==     \* injected: the step exits non-zero without writing
    /\ "Fail" \in FaultKinds /\ faults < MaxFaults
    /\ ph = "ninja" /\ ~failed
    /\ failed' = TRUE /\ faults' = faults + 1
    /\ UNCHANGED <<present, opt, ver, fs, log, graph, ph, exit, mark, ops, ran>>

TruncEdge(o) ==    \* injected: the step is killed after writing a truncated output; the log is untouched
    /\ "Trunc" \in FaultKinds /\ faults < MaxFaults
    /\ ph = "ninja" /\ ~failed
    /\ Commit(Put(fs, o, [m |-> Now, c |-> Garbage]), log, mark)
    /\ failed' = TRUE /\ faults' = faults + 1
    /\ UNCHANGED <<present, opt, ver, graph, ph, exit, ops, ran>>

NinjaRefuses ==    \* "missing and no known rule to make it"
    /\ ph = "ninja" /\ ~failed /\ MissingInput
    /\ failed' = TRUE
    /\ UNCHANGED <<present, opt, ver, fs, log, graph, ph, exit, mark, ops, faults, ran>>

NinjaDone ==       \* subprocess.run(check=True): exit status propagates
    /\ ph = "ninja" /\ (failed \/ (~MissingInput /\ DirtySet = {}))
    /\ exit' = IF failed THEN 1 ELSE 0
    /\ ph' = "idle"
    /\ UNCHANGED <<present, opt, ver, fs, log, graph, failed, mark, ops, faults, ran>>

NinjaStep == ph = "ninja" /\ ~failed /\ ~MissingInput /\
             \E o \in Pick : RunEdge(o) \/ FailEdge(o) \/ TruncEdge(o)

(* ------------------------------------------------------------------ driver *)
Invoke ==
    /\ ph = "idle" /\ ops < MaxOps /\ present # {}
    /\ ph' = "toml" /\ exit' = -1 /\ failed' = FALSE /\ ran' = {} /\ ops' = ops + 1
    /\ Commit(fs, log, Now)
    /\ UNCHANGED <<present, opt, ver, graph, faults>>

WriteToml ==       \* _write_config_for_build: every run, fresh mtime
    /\ ph = "toml"
    /\ LET T == Toml[World]
           f2 == [p \in DOMAIN fs \cup {t.path : t \in T} |->
                    IF \E t \in T : t.path = p
                    THEN [m |-> Now, c |-> <<"toml", (CHOOSE t \in T : t.path = p).id>>]
                    ELSE fs[p]]
       IN Commit(f2, log, mark)
    /\ ph' = "ninjafile"
    /\ UNCHANGED <<present, opt, ver, graph, failed, exit, ops, faults, ran>>

WriteNinja ==      \* build.ninja regenerated from the current world
    /\ ph = "ninjafile"
    /\ graph' = Edges[World] /\ ph' = "ninja"
    /\ UNCHANGED <<present, opt, ver, fs, log, failed, exit, mark, ops, faults, ran>>

KillBeforeNinja ==
    /\ "KillBeforeNinja" \in FaultKinds /\ faults < MaxFaults /\ ph = "ninjafile"
    /\ ph' = "idle" /\ exit' = 1 /\ faults' = faults + 1
    /\ UNCHANGED <<present, opt, ver, fs, log, graph, failed, mark, ops, ran>>

KillMidNinja ==    \* a truncated build.ninja is left behind
    /\ "KillMidNinja" \in FaultKinds /\ faults < MaxFaults /\ ph = "ninjafile"
    /\ graph' = << >> /\ ph' = "idle" /\ exit' = 1 /\ faults' = faults + 1
    /\ UNCHANGED <<present, opt, ver, fs, log, failed, mark, ops, ran>>

(* ------------------------------------------------------------------ user operations *)
SrcTerm(s, v) == <<"src", s, v>>
UserStep == ph = "idle" /\ ops < MaxOps /\ ops' = ops + 1 /\ exit' = -1
            /\ UNCHANGED <<log, graph, ph, failed, faults, ran>>

Edit(s) ==          \* new content, new mtime
    /\ "Edit" \in UserOps /\ UserStep /\ s \in present /\ ver[s] < MaxVer
    /\ ver' = [ver EXCEPT ![s] = @ + 1]
    /\ Commit(Put(fs, s, [m |-> Now, c |-> SrcTerm(s, ver[s] + 1)]), log, mark)
    /\ UNCHANGED <<present, opt>>
RestoreOlder(s) ==  \* new content, mtime NOT newer (mv / cp -p / git checkout of an older file): known ninja limit
    /\ "RestoreOlder" \in UserOps /\ UserStep /\ s \in present /\ ver[s] < MaxVer
    /\ ver' = [ver EXCEPT ![s] = @ + 1]
    /\ Commit(Put(fs, s, [m |-> fs[s].m, c |-> SrcTerm(s, ver[s] + 1)]), log, mark)
    /\ UNCHANGED <<present, opt>>
Remove(s) ==
    /\ "Remove" \in UserOps /\ UserStep /\ s \in present
    /\ present' = present \ {s}
    /\ Commit(Del(fs, s), log, mark)
    /\ UNCHANGED <<opt, ver>>
Add(s) ==           \* (re)created with a fresh mtime, same content version as before
    /\ "Add" \in UserOps /\ UserStep /\ s \notin present
    /\ present' = present \cup {s}
    /\ Commit(Put(fs, s, [m |-> Now, c |-> SrcTerm(s, ver[s])]), log, mark)
    /\ UNCHANGED <<opt, ver>>
AddOld(s) ==        \* a different, OLD file renamed onto this path (mv keeps the mtime)
    /\ "AddOld" \in UserOps /\ UserStep /\ s \notin present /\ ver[s] < MaxVer
    /\ present' = present \cup {s}
    /\ ver' = [ver EXCEPT ![s] = @ + 1]
    /\ Commit(Put(fs, s, [m |-> -1, c |-> SrcTerm(s, ver[s] + 1)]), log, mark)
    /\ UNCHANGED opt
ToggleOpt(o) ==
    /\ "ToggleOpt" \in UserOps /\ UserStep /\ o \in Opts /\ o # opt
    /\ opt' = o
    /\ UNCHANGED <<present, ver, fs, mark>>

Init ==
    /\ present \in (SUBSET Sources) \ {{}}
    /\ opt \in Opts
    /\ <<present, opt>> \in DOMAIN WorldOf     \* (a family may define only some source sets: masters of a variable font)
    /\ ver = [s \in Sources |-> 0]
    /\ fs = [s \in present |-> [m |-> 0, c |-> SrcTerm(s, 0)]]
    /\ log = << >> /\ graph = << >> /\ ph = "idle" /\ failed = FALSE /\ exit = -1
    /\ mark = 0 /\ ops = 0 /\ faults = 0 /\ ran = {}

Next ==
    \/ Invoke \/ WriteToml \/ WriteNinja \/ KillBeforeNinja \/ KillMidNinja
    \/ NinjaStep
    \/ NinjaRefuses \/ NinjaDone
    \/ \E s \in Sources : Edit(s) \/ RestoreOlder(s) \/ Remove(s) \/ Add(s) \/ AddOld(s)
    \/ \E o \in Opts : ToggleOpt(o)

Spec == Init /\ [][Next]_vars
FairSpec == Spec /\ WF_vars(WriteToml) /\ WF_vars(WriteNinja) /\ WF_vars(NinjaDone)
                 /\ WF_vars(NinjaStep)

(* ------------------------------------------------------------------ what a clean build produces *)
RECURSIVE Canon(_, _)
Canon(w, p) ==
    IF p \in Sources THEN SrcTerm(p, ver[p])
    ELSE IF \E t \in Toml[w] : t.path = p THEN <<"toml", (CHOOSE t \in Toml[w] : t.path = p).id>>
    ELSE LET e == Edges[w][p]
         IN  <<"out", e.sem, [i \in DOMAIN e.reads |-> Canon(w, e.reads[i])]>>

Succeeded == ph = "idle" /\ exit = 0

\* C09: whenever an invocation succeeds - after ANY history - every font is the clean build of the current inputs
FreshOK == Succeeded => \A f \in Fonts[World] : Has(f) /\ fs[f].c = Canon(World, f)
\* and so is every intermediate the graph produces
AllFresh == Succeeded => \A o \in DOMAIN Edges[World] : Has(o) /\ fs[o].c = Canon(World, o)
\* C09/C17: a failing step means a non-zero exit
FailStop == (ph = "idle" /\ failed /\ exit # -1) => exit = 1
\* C17: an invocation in which a step failed does not leave a freshly written font
NoFreshFontOnFailure == (ph = "idle" /\ exit = 1 /\ failed) => \A f \in Fonts[World] : f \notin ran
\* C08 (graph level): every file a step reads is a source, written by the driver, or produced by a step that
\* the declared inputs order before it - otherwise some schedule reads a stale or missing file
RECURSIVE Closure(_, _)
Closure(w, p) == {p} \cup (IF p \in DOMAIN Edges[w] THEN UNION {Closure(w, q) : q \in SeqSet(Edges[w][p].ins)} ELSE {})
DeclaredCoversRead == \A w \in DOMAIN Edges : \A o \in DOMAIN Edges[w] : \A r \in SeqSet(Edges[w][o].reads) :
    r \in UNION {Closure(w, i) : i \in SeqSet(Edges[w][o].ins)}
\* liveness form of C09 (checked without state constraint, fault-free tail)
Converges == [](ph = "ninja" => <>(ph = "idle"))
=============================================================================
