SPECIFICATION Spec
CONSTANTS
  Level = "full"
INVARIANT Denotes
INVARIANT GuardsSufficient
INVARIANT NoSilentWrap
INVARIANT Total
INVARIANT Export
