SPECIFICATION Spec
CONSTANTS
  CompareIndex = TRUE
INVARIANT FollowsPalette
INVARIANT AlphaKept
INVARIANT Minimal
INVARIANT Export
