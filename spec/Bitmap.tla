------------------------------- MODULE Bitmap -------------------------------
(***************************************************************************)
(* C14 / C07.  bitmap_tables.py transcribed with exact rationals:          *)
(*   _ppem, _width_in_pixels, BitmapMetrics.create (Python round =         *)
(*   half-to-even, _nudge_into_range into int8), the CBDT size guard, and  *)
(*   the strike-splitting loop of make_cbdt_table (one strike per run of   *)
(*   consecutive glyph ids).                                               *)
(* Placement semantics (CBDT small metrics, sbix origin offsets) are those *)
(* of the OpenType spec: bitmap box = [BearingX, BearingX + w] x           *)
(* [BearingY - h, BearingY] in pixels relative to the pen on the baseline. *)
(***************************************************************************)
EXTENDS Integers, Sequences, FiniteSets, TLC, Json, Rat

CONSTANTS Upems, Vmetrics, WidthModes, Heights, Aspects, GidSets,
          CentreOn     \* "width": centre the bitmap by its own width (the code after fix); "resolution": by
                       \* config.bitmap_resolution, as the pinned tree did (TLC then violates HBox for wide bitmaps)

\* (ascender, descender) per mille of upem; aspect ratios w:h; sets of bitmap glyph ids with and without gaps
VmetricsDef == {<<1000, 0>>, <<800, 200>>, <<930, 244>>, <<750, 250>>}
AspectsDef == {<<1, 2>>, <<1, 1>>, <<3, 2>>, <<2, 1>>}
GidSetsDef == {{2}, {2, 3, 4}, {2, 4}, {3, 4, 7, 8, 9, 12}}
VARIABLES cfg, img, phase, ppem, widthPx, m, outcome, gids, strikes
vars == <<cfg, img, phase, ppem, widthPx, m, outcome, gids, strikes>>

Half == <<1, 2>>
RoundHE(x) ==         \* Python round(): nearest, ties to even
    LET f == RFloor(x)
        r == RSub(x, RI(f))
    IN  IF RLt(r, Half) THEN f ELSE IF RLt(Half, r) THEN f + 1 ELSE IF f % 2 = 0 THEN f ELSE f + 1
Nudge(lo, hi, v) == IF v >= lo /\ v <= hi THEN v
                    ELSE IF v > hi /\ v - 1 <= hi THEN hi
                    ELSE IF v < lo /\ v + 1 >= lo THEN lo ELSE v
Max2(a, b) == IF a >= b THEN a ELSE b

Em == cfg.asc - cfg.desc
Init == /\ \E u \in Upems : \E vm \in Vmetrics : \E wm \in WidthModes :
             LET asc == (vm[1] * u) \div 1000  desc == -((vm[2] * u) \div 1000) IN
             cfg = [upem |-> u, asc |-> asc, desc |-> desc,
                    width |-> CASE wm = "zero" -> 0 [] wm = "half" -> (asc - desc) \div 2
                                [] wm = "em" -> asc - desc [] wm = "double" -> 2 * (asc - desc)
                                [] wm = "quad" -> 4 * (asc - desc)]   \* offsets beyond int8: sbix holds them, CBDT cannot
        /\ \E h \in Heights : \E a \in Aspects : img = [w |-> (h * a[1]) \div a[2], h |-> h]
        /\ gids \in GidSets
        /\ phase = "guard" /\ ppem = 0 /\ widthPx = 0 /\ m = [x |-> 0, y |-> 0, lh |-> 0, la |-> 0]
        /\ outcome = "running" /\ strikes = << >>

Guard ==      \* raise_if_too_big_for_cbdt (CBDT small metrics hold uint8 sizes)
    /\ phase = "guard"
    /\ IF img.w > 255 \/ img.h > 255 \/ img.w = 0
       THEN outcome' = "ValueError" /\ phase' = "done"
       ELSE phase' = "ppem" /\ UNCHANGED outcome
    /\ UNCHANGED <<cfg, img, ppem, widthPx, m, gids, strikes>>
Ppem ==       \* _ppem, _width_in_pixels
    /\ phase = "ppem"
    /\ ppem' = RoundHE(R(cfg.upem * img.h, Em))
    /\ LET wf == RMax(RI(cfg.width), R(img.w * Em, img.h)) IN
       widthPx' = RoundHE(RDiv(RMul(wf, RI(img.h)), RI(Em)))
    /\ phase' = "metrics" /\ UNCHANGED <<cfg, img, m, outcome, gids, strikes>>
Metrics ==    \* BitmapMetrics.create; bitmap_resolution = the bitmap's height
    /\ phase = "metrics"
    /\ LET lh == RoundHE(R(Em * ppem, cfg.upem))
           la == R(cfg.asc * ppem, cfg.upem)
           x == Nudge(-128, 127, Max2(RoundHE(R(widthPx - (IF CentreOn = "width" THEN img.w ELSE img.h), 2)), 0))
           y == Nudge(-128, 127, RoundHE(RSub(la, RMul(Half, RI(lh - img.h)))))
       IN /\ m' = [x |-> x, y |-> y, lh |-> lh, la |-> RoundHE(la)]
          /\ IF y < -128 \/ y > 127 THEN outcome' = "AssertionError" /\ phase' = "done"
             ELSE phase' = "strikes" /\ UNCHANGED outcome
    /\ UNCHANGED <<cfg, img, ppem, widthPx, gids, strikes>>
Strikes ==    \* make_cbdt_table: sorted gids, split at gaps
    /\ phase = "strikes"
    /\ LET RECURSIVE Runs(_)
           Runs(S) == IF S = {} THEN << >>
                      ELSE LET lo == CHOOSE x \in S : \A y \in S : x <= y
                               hi == CHOOSE x \in S : x >= lo /\ (\A z \in lo..x : z \in S) /\ (x + 1) \notin S
                           IN <<[first |-> lo, last |-> hi]>> \o Runs(S \ (lo..hi))
       IN strikes' = Runs(gids)
    \* CBDT small metrics / line metrics are 8-bit fields: fontTools refuses to pack what does not fit
    /\ LET lineAsc == RoundHE(R(cfg.asc * ppem, cfg.upem)) IN
       outcome' = IF widthPx <= 255 /\ lineAsc <= 127 /\ -(m.lh - lineAsc) >= -128 THEN "ok" ELSE "PackError"
    /\ phase' = "done"
    /\ UNCHANGED <<cfg, img, ppem, widthPx, m, gids>>
Next == Guard \/ Ppem \/ Metrics \/ Strikes
Spec == Init /\ [][Next]_vars

-----------------------------------------------------------------------------
Ok == phase = "done" /\ outcome = "ok"
S == R(ppem, cfg.upem)                                  \* pixels per font unit at the strike's ppem
Within(a, b, tol) == RLe(RAbs(RSub(a, b)), tol)
\* (the strike's ppem is itself rounded: lengths measured in bitmap pixels differ from lengths at that ppem by up to
\*  1/(2 ppem) relative, which is part of "within rounding")
PpemSlack(len) == R(len, 2 * ppem)
AdvUnits == LET byAspect == RoundHE(R(Em * img.w, img.h)) IN Max2(cfg.width, byAspect)   \* the C04 advance rule
\* C14: ppem = round(upem * bitmap height / em height)
PpemRule == Ok => ppem = RoundHE(R(cfg.upem * img.h, Em))
\* C14: vertically the bitmap box coincides with [descender, ascender] scaled to the ppem (1 px; 2 where nudged)
Nudged == m.y \in {-128, 127}
VBox == Ok => LET tol == IF Nudged THEN RI(2) ELSE RI(1) IN
    /\ Within(RI(m.y), RMul(RI(cfg.asc), S), tol)
    /\ Within(RI(m.y - img.h), RMul(RI(cfg.desc), S), RAdd(tol, RI(1)))
\* C14: horizontally (square bitmaps, or proportional mode width = 0) the bitmap sits where the viewBox sits in the
\* advance: centred, i.e. left edge = (advance - em * w / h) / 2 scaled to pixels
Proportional == cfg.width = 0 \/ img.w = img.h
HBox == (Ok /\ Proportional /\ m.x < 127) =>
    LET left == RMul(RDiv(RSub(RI(AdvUnits), R(Em * img.w, img.h)), RI(2)), S) IN Within(RI(m.x), left, RAdd(RI(1), PpemSlack(widthPx)))
\* C14: the pixel advance matches the scaled font advance
AdvancePx == Ok => Within(RI(widthPx), RMul(RI(AdvUnits), S), RAdd(RI(1), PpemSlack(widthPx)))
\* sbix places the bitmap's bottom-left corner: originOffsetY = line_ascent - line_height must be the scaled descender
SbixOrigin == Ok => Within(RI(m.la - m.lh), RMul(RI(cfg.desc), S), RI(1))
\* C14: what the format cannot hold is rejected
Rejects == (phase = "done" /\ (img.w > 255 \/ img.h > 255)) => outcome = "ValueError"
\* C07: every bitmap glyph in exactly one strike; strikes are maximal runs of consecutive ids, in increasing order
StrikesPartition == Ok =>
    /\ \A g \in gids : Cardinality({i \in DOMAIN strikes : strikes[i].first <= g /\ g <= strikes[i].last}) = 1
    /\ \A i \in DOMAIN strikes : \A g \in strikes[i].first..strikes[i].last : g \in gids
    /\ \A i \in DOMAIN strikes : i > 1 => strikes[i - 1].last + 1 < strikes[i].first
Export == phase = "done" =>
    PrintT(<<"VERIF", ToJson([cfg |-> cfg, img |-> img, outcome |-> outcome, ppem |-> ppem, widthPx |-> widthPx,
                              m |-> m, gids |-> gids, strikes |-> strikes])>>)
=============================================================================
