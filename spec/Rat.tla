-------------------------------- MODULE Rat --------------------------------
(***************************************************************************)
(* Exact rationals <<n, d>> (d > 0, lowest terms) for TLC's 32-bit         *)
(* integers, and dual numbers [v, e] = v + e*eps with eps^2 = 0, used to   *)
(* tell "exactly equal" from "almost equal" (picosvg.almost_equal, 1e-9)   *)
(* without denominators beyond 32 bits.  TLC raises on overflow, it never  *)
(* wraps, so a model using these is never silently wrong.                  *)
(***************************************************************************)
EXTENDS Integers

Abs(x) == IF x < 0 THEN -x ELSE x
RECURSIVE GCD(_, _)
GCD(a, b) == IF b = 0 THEN a ELSE GCD(b, a % b)

R(n, d) == LET g == GCD(Abs(n), Abs(d))
               s == IF d < 0 THEN -1 ELSE 1
           IN  IF n = 0 THEN <<0, 1>> ELSE <<(s * n) \div g, (s * d) \div g>>
RI(n) == <<n, 1>>
RZero == <<0, 1>>
ROne  == <<1, 1>>
RNeg(a) == <<-a[1], a[2]>>
RAdd(a, b) == LET g == GCD(a[2], b[2])
              IN  R(a[1] * (b[2] \div g) + b[1] * (a[2] \div g), (a[2] \div g) * b[2])
RSub(a, b) == RAdd(a, RNeg(b))
RMul(a, b) == LET g1 == GCD(Abs(a[1]), b[2])
                  g2 == GCD(Abs(b[1]), a[2])
              IN  IF a[1] = 0 \/ b[1] = 0 THEN RZero
                  ELSE R((a[1] \div g1) * (b[1] \div g2), (a[2] \div g2) * (b[2] \div g1))
RInv(a) == IF a[1] < 0 THEN <<-a[2], -a[1]>> ELSE <<a[2], a[1]>>      \* a # 0
RDiv(a, b) == RMul(a, RInv(b))
RLt(a, b) == RSub(a, b)[1] < 0
RLe(a, b) == RSub(a, b)[1] <= 0
RSign(a) == IF a[1] > 0 THEN 1 ELSE IF a[1] < 0 THEN -1 ELSE 0
RAbs(a) == <<Abs(a[1]), a[2]>>
RIsInt(a) == a[2] = 1
RFloor(a) == a[1] \div a[2]                 \* TLC's \div floors
RTrunc(a) == IF a[1] >= 0 THEN a[1] \div a[2] ELSE -((-a[1]) \div a[2])   \* Python int()
RMax(a, b) == IF RLt(a, b) THEN b ELSE a

(* dual numbers *)
D(v, e) == [v |-> v, e |-> e]
DI(n) == D(RI(n), RZero)
DEq(x, y) == x.v = y.v /\ x.e = y.e                                \* Python ==
DAlmostEq(x, y) == x.v = y.v                                        \* |x - y| <= 1e-9
DLt(x, y) == RLt(x.v, y.v) \/ (x.v = y.v /\ RLt(x.e, y.e))
DLe(x, y) == DLt(x, y) \/ DEq(x, y)
DNeg(x) == D(RNeg(x.v), RNeg(x.e))
DAdd(x, y) == D(RAdd(x.v, y.v), RAdd(x.e, y.e))
DSub(x, y) == DAdd(x, DNeg(y))
DMul(x, y) == D(RMul(x.v, y.v), RAdd(RMul(x.v, y.e), RMul(x.e, y.v)))
DDiv(x, y) == D(RDiv(x.v, y.v),                                    \* y.v # 0
                RDiv(RSub(RMul(x.e, y.v), RMul(x.v, y.e)), RMul(y.v, y.v)))
\* Python int(x): truncation toward zero, looking at the infinitesimal when v is an integer
DTrunc(x) == IF RIsInt(x.v)
             THEN (IF x.v[1] > 0 /\ RSign(x.e) < 0 THEN x.v[1] - 1
                   ELSE IF x.v[1] < 0 /\ RSign(x.e) > 0 THEN x.v[1] + 1 ELSE x.v[1])
             ELSE RTrunc(x.v)
=============================================================================
