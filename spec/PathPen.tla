------------------------------ MODULE PathPen ------------------------------
(***************************************************************************)
(* C03 / C01 / C13 (shared).  svg_path.draw_svg_path, statement by         *)
(* statement: every glyf outline write_font draws, and (through            *)
(* SVGPathPen, its inverse) every outline colr_to_svg writes back as an    *)
(* SVG path.  The code keeps ONE flag, `closed`, and must turn SVG's       *)
(* implicit sub-path ends into the explicit endPath / closePath a          *)
(* FontTools pen requires:                                                 *)
(*                                                                         *)
(*   closed = True                                                         *)
(*   for cmd in path:                                                      *)
(*       if cmd == "M":                                                    *)
(*           if not closed: pen.closePath() / pen.endPath()                *)
(*           closed = False                                                *)
(*       pen.<method of cmd>(points)                                       *)
(*       if cmd == "Z": closed = True                                      *)
(*   if not closed: pen.closePath() / pen.endPath()                        *)
(*                                                                         *)
(* A path is a sequence of command letters (coordinates are carried by the *)
(* binding, which gives every command distinct points).  `Normal` is what  *)
(* picosvg's normal form guarantees (skia writes it): every sub-path       *)
(* starts with M and a Z is followed by M or by the end.  RequireNormal =  *)
(* FALSE is the negative configuration: without that guarantee a drawing   *)
(* command after Z reaches the pen outside any contour (SVG would restart  *)
(* at the sub-path's start point; the code does not).                      *)
(***************************************************************************)
EXTENDS Integers, Sequences, TLC, Json

CONSTANTS MaxLen, RequireNormal
Cmds == {"M", "L", "C", "Q", "Z"}
Paths == UNION {[1..n -> Cmds] : n \in 0..MaxLen}
Normal(p) == /\ Len(p) > 0 => p[1] = "M"
             /\ \A k \in 1..Len(p) - 1 : p[k] = "Z" => p[k + 1] = "M"

VARIABLES path, closeSub, i, closed, calls, phase
vars == <<path, closeSub, i, closed, calls, phase>>

PenMethod(c) == CASE c = "M" -> "moveTo" [] c = "L" -> "lineTo" [] c = "C" -> "curveTo"
                  [] c = "Q" -> "qCurveTo" [] c = "Z" -> "closePath"
Term == IF closeSub THEN "closePath" ELSE "endPath"

Init == /\ path \in {p \in Paths : RequireNormal => Normal(p)}
        /\ closeSub \in BOOLEAN
        /\ i = 1 /\ closed = TRUE /\ calls = <<>> /\ phase = "draw"

\* one iteration of the loop
Step == /\ phase = "draw" /\ i <= Len(path)
        /\ LET c == path[i] IN
             /\ calls' = calls \o (IF c = "M" /\ ~closed THEN <<Term>> ELSE <<>>) \o <<PenMethod(c)>>
             /\ closed' = IF c = "Z" THEN TRUE ELSE IF c = "M" THEN FALSE ELSE closed
        /\ i' = i + 1 /\ UNCHANGED <<path, closeSub, phase>>
\* the statement after the loop
Finish == /\ phase = "draw" /\ i = Len(path) + 1
          /\ calls' = calls \o (IF ~closed THEN <<Term>> ELSE <<>>)
          /\ phase' = "done" /\ UNCHANGED <<path, closeSub, i, closed>>
Next == Step \/ Finish
Spec == Init /\ [][Next]_vars /\ WF_vars(Next)

(* ---- the pen protocol: (moveTo segment* (closePath | endPath))*  ---- *)
RECURSIVE Automaton(_, _, _)
Automaton(s, k, inside) ==
    IF k > Len(s) THEN IF inside THEN "open" ELSE "ok"
    ELSE IF s[k] = "moveTo" THEN IF inside THEN "bad" ELSE Automaton(s, k + 1, TRUE)
    ELSE IF s[k] \in {"closePath", "endPath"} THEN IF inside THEN Automaton(s, k + 1, FALSE) ELSE "bad"
    ELSE IF inside THEN Automaton(s, k + 1, TRUE) ELSE "bad"
\* while drawing, the prefix handed to the pen is never malformed (it may be inside a contour)
ProtocolSoFar == Automaton(calls, 1, FALSE) # "bad"
PenProtocol == phase = "done" => Automaton(calls, 1, FALSE) = "ok"

(* ---- what the calls must be, stated on the sub-paths of the document ---- *)
\* the index of the last command of the sub-path that starts at k
RECURSIVE SubEnd(_, _)
SubEnd(p, k) == IF k = Len(p) \/ p[k + 1] = "M" THEN k ELSE SubEnd(p, k + 1)
RECURSIVE Expected(_, _, _)
Expected(p, k, cs) ==
    IF k > Len(p) THEN <<>>
    ELSE LET e == SubEnd(p, k)
             body == [j \in 1..(e - k + 1) |-> PenMethod(p[k + j - 1])]
             tail == IF p[e] = "Z" THEN <<>> ELSE <<IF cs THEN "closePath" ELSE "endPath">>
         IN body \o tail \o Expected(p, e + 1, cs)
\* every sub-path is one contour: closed iff it ends with Z (or the caller closes all), nothing dropped or repeated
Denotes == phase = "done" /\ Normal(path) => calls = Expected(path, 1, closeSub)
ClosedIffZ == phase = "done" /\ Normal(path) /\ ~closeSub =>
                 /\ Len(SelectSeq(calls, LAMBDA c : c = "closePath")) = Len(SelectSeq(path, LAMBDA c : c = "Z"))
                 /\ Len(SelectSeq(calls, LAMBDA c : c = "closePath" \/ c = "endPath")) = Len(SelectSeq(path, LAMBDA c : c = "M"))
\* whatever the path (normal or not), every command reaches the pen once, in order; only endPath calls are added
NothingDropped == phase = "done" /\ ~closeSub =>
    SelectSeq(calls, LAMBDA c : c # "endPath") = [j \in 1..Len(path) |-> PenMethod(path[j])]

(* ---- SVGPathPen is the inverse: moveTo -> M ... closePath -> Z, endPath -> nothing ---- *)
SvgOf(m) == CASE m = "moveTo" -> <<"M">> [] m = "lineTo" -> <<"L">> [] m = "curveTo" -> <<"C">>
              [] m = "qCurveTo" -> <<"Q">> [] m = "closePath" -> <<"Z">> [] m = "endPath" -> <<>>
RECURSIVE Back(_, _)
Back(s, k) == IF k > Len(s) THEN <<>> ELSE SvgOf(s[k]) \o Back(s, k + 1)
\* drawing a path onto an SVGPathPen writes the same path back (colr_to_svg reads outlines this way)
RoundTrip == phase = "done" /\ ~closeSub => Back(calls, 1) = path
\* with close_subpaths every sub-path comes back closed, and nothing else changes
RECURSIVE ClosedForm(_, _)
ClosedForm(p, k) == IF k > Len(p) THEN <<>>
                    ELSE LET e == SubEnd(p, k) IN
                         SubSeq(p, k, e) \o (IF p[e] = "Z" THEN <<>> ELSE <<"Z">>) \o ClosedForm(p, e + 1)
RoundTripClosed == phase = "done" /\ closeSub /\ Normal(path) => Back(calls, 1) = ClosedForm(path, 1)

Terminates == <>(phase = "done")
Bounded == Len(calls) <= 2 * MaxLen + 1

Export == phase = "done" => PrintT(<<"VERIF", ToJson([path |-> path, close |-> closeSub, calls |-> calls,
                                                     normal |-> Normal(path)])>>)
=============================================================================
