------------------------------ MODULE Reorder ------------------------------
(***************************************************************************)
(* C11.  reorder_glyphs: after TTFont.setGlyphOrder(new order) every       *)
(* Coverage table must list its glyphs in increasing NEW glyph id, and     *)
(* every array that is parallel to a coverage (Value, PairSet,             *)
(* EntryExitRecord, MarkRecord, RuleSet, Substitute, AttachPoint, ...)     *)
(* must be permuted together with it; lists keyed by a glyph (PairValue    *)
(* records by SecondGlyph) are re-sorted by that key.                      *)
(* An abstract subtable is [cov, par, keyed]:                              *)
(*   cov   : sequence of distinct glyphs (the Coverage)                    *)
(*   par   : sequence of payloads parallel to cov, or << >> when the       *)
(*           format has none                                               *)
(*   keyed : sequence of [key, val] (a list sorted by a glyph key)         *)
(***************************************************************************)
EXTENDS Integers, Sequences, FiniteSets, TLC, Json, SequencesExt

CONSTANTS Glyphs, Payloads,
          HasParallelRule,    \* TRUE: the rule names the parallel array (the code)
          MaxRounds,          \* reorder_glyphs may be applied to one font any number of times
          Memo                \* TRUE: the design that remembers each coverage's sort permutation from the FIRST call
                              \* and replays it in later calls (negative configuration)

Perms == {p \in [1..Cardinality(Glyphs) -> Glyphs] : \A i, j \in DOMAIN p : i # j => p[i] # p[j]}
VARIABLES order,     \* the font's current glyph order
          sub, rounds, memo
vars == <<order, sub, rounds, memo>>

Gid(o, g) == CHOOSE i \in DOMAIN o : o[i] = g
SortedBy(o, s) == SortSeq(s, LAMBDA a, b : Gid(o, a) < Gid(o, b))
Init == /\ order \in Perms
        /\ \E S \in SUBSET Glyphs : S # {} /\
             \E withPar \in BOOLEAN : \E pay \in [Glyphs -> Payloads] :
               LET cov == SortedBy(order, SetToSeq(S)) IN
               sub = [cov |-> cov,
                      par |-> IF withPar THEN [i \in DOMAIN cov |-> pay[cov[i]]] ELSE << >>,
                      keyed |-> [i \in DOMAIN cov |-> [key |-> cov[i], val |-> pay[cov[i]]]]]
        /\ rounds = 0 /\ memo = << >>

\* one call of reorder_glyphs(font, new): setGlyphOrder, then every coverage re-sorted with its parallel arrays
ReorderGlyphs(new) ==
    /\ rounds < MaxRounds /\ new[1] = order[1]                        \* .notdef stays first
    /\ LET fresh == SortSeq([i \in DOMAIN sub.cov |-> i], LAMBDA a, b : Gid(new, sub.cov[a]) < Gid(new, sub.cov[b]))
           idx == IF Memo /\ memo # << >> THEN memo ELSE fresh IN
       /\ sub' = [cov |-> IF Memo /\ memo # << >> THEN sub.cov              \* "already sorted once": left alone
                          ELSE [i \in DOMAIN idx |-> sub.cov[idx[i]]],
                  par |-> IF sub.par = << >> THEN << >>
                          ELSE IF HasParallelRule THEN [i \in DOMAIN idx |-> sub.par[idx[i]]]
                          ELSE sub.par,                      \* a rule that forgets its parallel array
                  keyed |-> SortSeq(sub.keyed, LAMBDA a, b : Gid(new, a.key) < Gid(new, b.key))]
       /\ memo' = IF Memo /\ memo = << >> THEN fresh ELSE memo
    /\ order' = new /\ rounds' = rounds + 1
Next == \E new \in Perms : ReorderGlyphs(new)
Spec == Init /\ [][Next]_vars

-----------------------------------------------------------------------------
\* the name-keyed function the subtable denotes
Meaning(s) == [g \in Range(s.cov) |-> IF s.par = << >> THEN "covered" ELSE s.par[Gid(s.cov, g)]]
KeyedMeaning(s) == {<<s.keyed[i].key, s.keyed[i].val>> : i \in DOMAIN s.keyed}
\* every call, the first and any later one, leaves the name-keyed meaning alone ...
MeaningAction == [][Meaning(sub') = Meaning(sub) /\ KeyedMeaning(sub') = KeyedMeaning(sub)]_vars
\* ... and the coverage (and keyed list) in increasing glyph id of the CURRENT order
Sorted ==
    /\ \A i, j \in DOMAIN sub.cov : i < j => Gid(order, sub.cov[i]) < Gid(order, sub.cov[j])
    /\ \A i, j \in DOMAIN sub.keyed : i < j => Gid(order, sub.keyed[i].key) < Gid(order, sub.keyed[j].key)
=============================================================================
