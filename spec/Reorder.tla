------------------------------ MODULE Reorder ------------------------------
(***************************************************************************)
(* C11.  reorder_glyphs: after TTFont.setGlyphOrder(new order) every       *)
(* Coverage table must list its glyphs in increasing NEW glyph id, and     *)
(* every array that is parallel to a coverage (Value, PairSet,             *)
(* EntryExitRecord, MarkRecord, RuleSet, Substitute, AttachPoint, ...)     *)
(* must be permuted together with it; lists keyed by a glyph (PairValue    *)
(* records by SecondGlyph) are re-sorted by that key.                      *)
(* An abstract subtable is [cov, par, keyed]:                              *)
(*   cov   : sequence of distinct glyphs (the Coverage)                    *)
(*   par   : sequence of payloads parallel to cov, or << >> when the       *)
(*           format has none                                               *)
(*   keyed : sequence of [key, val] (a list sorted by a glyph key)         *)
(***************************************************************************)
EXTENDS Integers, Sequences, FiniteSets, TLC, Json, SequencesExt

CONSTANTS Glyphs, Payloads, HasParallelRule    \* HasParallelRule = TRUE: the rule names the parallel array (the code)

Perms == {p \in [1..Cardinality(Glyphs) -> Glyphs] : \A i, j \in DOMAIN p : i # j => p[i] # p[j]}
VARIABLES oldOrder, newOrder, sub, phase
vars == <<oldOrder, newOrder, sub, phase>>

Gid(order, g) == CHOOSE i \in DOMAIN order : order[i] = g
SortedBy(order, s) == SortSeq(s, LAMBDA a, b : Gid(order, a) < Gid(order, b))
Init == /\ oldOrder \in Perms /\ newOrder \in Perms
        /\ oldOrder[1] = newOrder[1]                        \* .notdef stays first
        /\ \E S \in SUBSET Glyphs : S # {} /\
             \E withPar \in BOOLEAN : \E pay \in [Glyphs -> Payloads] :
               LET cov == SortedBy(oldOrder, SetToSeq(S)) IN
               sub = [cov |-> cov,
                      par |-> IF withPar THEN [i \in DOMAIN cov |-> pay[cov[i]]] ELSE << >>,
                      keyed |-> [i \in DOMAIN cov |-> [key |-> cov[i], val |-> pay[cov[i]]]]]
        /\ phase = "old"

ReorderGlyphs ==
    /\ phase = "old"
    /\ LET idx == SortSeq([i \in DOMAIN sub.cov |-> i], LAMBDA a, b : Gid(newOrder, sub.cov[a]) < Gid(newOrder, sub.cov[b])) IN
       sub' = [cov |-> [i \in DOMAIN idx |-> sub.cov[idx[i]]],
               par |-> IF sub.par = << >> THEN << >>
                       ELSE IF HasParallelRule THEN [i \in DOMAIN idx |-> sub.par[idx[i]]]
                       ELSE sub.par,                      \* a rule that forgets its parallel array
               keyed |-> SortSeq(sub.keyed, LAMBDA a, b : Gid(newOrder, a.key) < Gid(newOrder, b.key))]
    /\ phase' = "new" /\ UNCHANGED <<oldOrder, newOrder>>
Next == ReorderGlyphs
Spec == Init /\ [][Next]_vars

-----------------------------------------------------------------------------
\* the name-keyed function the subtable denotes
Meaning(s) == [g \in Range(s.cov) |-> IF s.par = << >> THEN "covered" ELSE s.par[Gid(s.cov, g)]]
KeyedMeaning(s) == {<<s.keyed[i].key, s.keyed[i].val>> : i \in DOMAIN s.keyed}
MeaningAction == [][phase = "old" => (Meaning(sub') = Meaning(sub) /\ KeyedMeaning(sub') = KeyedMeaning(sub))]_vars
Sorted == phase = "new" =>
    /\ \A i, j \in DOMAIN sub.cov : i < j => Gid(newOrder, sub.cov[i]) < Gid(newOrder, sub.cov[j])
    /\ \A i, j \in DOMAIN sub.keyed : i < j => Gid(newOrder, sub.keyed[i].key) < Gid(newOrder, sub.keyed[j].key)
=============================================================================
