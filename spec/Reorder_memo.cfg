SPECIFICATION Spec
CONSTANTS
  Glyphs = {"n", "a", "b", "c"}
  Payloads = {"p", "q"}
  HasParallelRule = TRUE
  MaxRounds = 2
  Memo = TRUE
INVARIANT Sorted
