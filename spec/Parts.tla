------------------------------- MODULE Parts -------------------------------
(***************************************************************************)
(* parts.py: ReusableParts, the cache of reusable shapes that every build  *)
(* writes next to the font (one <glyph>.parts.json per picosvg, merged     *)
(* into parts-merged.json by write_combined_part_files).  C08 excludes the *)
(* merged file from the byte comparison because it lists shapes in hash    *)
(* order; what it MEANS (which shapes form a set, who is the donor) must   *)
(* still be a function of the sources.                                     *)
(*                                                                         *)
(* State per parts object:                                                 *)
(*   sets   normal form -> set of shapes that normalise to it              *)
(*   cache  normal form -> donor | None (no member can draw the others);   *)
(*          a missing key = not computed.  Filled by compute_donors and    *)
(*          lazily by is_reused / try_reuse; dropped for a normal form     *)
(*          whenever a shape is added under it (_add_norm_path).           *)
(*                                                                         *)
(* Shapes are abstract: a class (its normal form), an area rank (donors    *)
(* are tried biggest first) and a distortion tag.  affine_between(d, s)    *)
(* succeeds iff the residual, which scales with s, stays inside the        *)
(* tolerance: a small s is reached from any member of its class, a big s   *)
(* only from a member with the same distortion.  The harness checks this   *)
(* table against picosvg for the concrete shapes it binds (B3).            *)
(*                                                                         *)
(* Actions = the public calls: AddSvg, AddParts (merge), ComputeDonors,    *)
(* Query (try_reuse), RoundTrip (to_json ; from_json).  Invalidate = FALSE *)
(* is the design without the cache drop (negative configuration).          *)
(***************************************************************************)
EXTENDS Integers, Sequences, FiniteSets, TLC, Json

CONSTANTS Invalidate,    \* TRUE = the code as it is
          MaxSteps

\* id |-> [cls, rank (area order, unique), big, dist]
Shape == [a1 |-> [cls |-> "sq", rank |-> 1, big |-> FALSE, dist |-> 0],
          a2 |-> [cls |-> "sq", rank |-> 5, big |-> TRUE,  dist |-> 1],
          a3 |-> [cls |-> "sq", rank |-> 6, big |-> TRUE,  dist |-> 2],
          a4 |-> [cls |-> "sq", rank |-> 2, big |-> FALSE, dist |-> 1],
          b1 |-> [cls |-> "tri", rank |-> 3, big |-> FALSE, dist |-> 0],
          b2 |-> [cls |-> "tri", rank |-> 4, big |-> TRUE,  dist |-> 0]]
Ids == DOMAIN Shape
Classes == {Shape[s].cls : s \in Ids}
Objects == {"p1", "p2", "merged"}
None == "none"

CanReach(d, s) == /\ Shape[d].cls = Shape[s].cls
                  /\ (Shape[s].big => Shape[d].dist = Shape[s].dist)
Providers(S) == {d \in S : \A s \in S : CanReach(d, s)}
Best(S) == IF Providers(S) = {} THEN None
           ELSE CHOOSE d \in Providers(S) : \A e \in Providers(S) : Shape[e].rank <= Shape[d].rank

VARIABLES sets,    \* object -> [class -> set of ids]  (empty set = key absent)
          cache,   \* object -> [class -> id | None | "absent"]
          last,    \* result of the last Query
          hist
vars == <<sets, cache, last, hist>>

Empty == [c \in Classes |-> {}]
Absent == [c \in Classes |-> "absent"]
Init == /\ sets = [o \in Objects |-> Empty]
        /\ cache = [o \in Objects |-> Absent]
        /\ last = "-" /\ hist = << >>

Log(e) == hist' = Append(hist, e)
\* _add: one shape goes under its normal form; the cached donor of that form is dropped
AddAll(o, S) ==
    /\ sets' = [sets EXCEPT ![o] = [c \in Classes |-> @[c] \cup {s \in S : Shape[s].cls = c}]]
    /\ cache' = IF Invalidate
                THEN [cache EXCEPT ![o] = [c \in Classes |-> IF \E s \in S : Shape[s].cls = c THEN "absent" ELSE @[c]]]
                ELSE cache
Docs == {S \in SUBSET Ids : Cardinality(S) \in 1..2}
AddSvg(o, S) == /\ o # "merged" /\ AddAll(o, S) /\ last' = "-" /\ Log([op |-> "svg", o |-> o, shapes |-> S])
AddParts(src) == /\ src # "merged"
                 /\ AddAll("merged", UNION {sets[src][c] : c \in Classes})
                 /\ last' = "-" /\ Log([op |-> "merge", o |-> src])
ComputeDonors(o) ==
    /\ cache' = [cache EXCEPT ![o] = [c \in Classes |-> IF sets[o][c] = {} THEN "absent" ELSE Best(sets[o][c])]]
    /\ UNCHANGED sets /\ last' = "-" /\ Log([op |-> "donors", o |-> o])
\* try_reuse(s): refuses shapes that were not pre-added; computes the donor of the normal form on demand
Query(o, s) ==
    LET c == Shape[s].cls IN
    /\ IF s \notin sets[o][c]
       THEN /\ last' = "refused" /\ UNCHANGED cache
       ELSE LET d == IF cache[o][c] = "absent" THEN Best(sets[o][c]) ELSE cache[o][c] IN
            /\ cache' = [cache EXCEPT ![o][c] = d]
            /\ last' = IF d = None THEN None
                       ELSE IF CanReach(d, s) THEN d ELSE "assert"     \* the code asserts a solution exists
    /\ UNCHANGED sets /\ Log([op |-> "query", o |-> o, shape |-> s])
\* to_json ; from_json: sets and cache (None included) survive
RoundTrip(o) == /\ UNCHANGED <<sets, cache>> /\ last' = "-" /\ Log([op |-> "json", o |-> o])

Next == /\ Len(hist) < MaxSteps
        /\ \/ \E o \in Objects, S \in Docs : AddSvg(o, S)
           \/ \E o \in Objects : AddParts(o) \/ ComputeDonors(o) \/ RoundTrip(o)
           \/ \E o \in Objects, s \in Ids : Query(o, s)
Spec == Init /\ [][Next]_vars

-----------------------------------------------------------------------------
\* a cached donor is the one the current set deserves: never a stale answer
CacheFresh == \A o \in Objects, c \in Classes :
    cache[o][c] # "absent" => sets[o][c] # {} /\ cache[o][c] = Best(sets[o][c])
NoAssert == last # "assert"
\* every shape sits under its own normal form, once
Partition == \A o \in Objects, c \in Classes : \A s \in sets[o][c] : Shape[s].cls = c
\* merging is a union: whatever the order in which part files were merged
MergeIsUnion == \A c \in Classes : sets["merged"][c] \subseteq sets["p1"][c] \cup sets["p2"][c]
\* sets only grow, and only by what was added
Grow == [][\A o \in Objects, c \in Classes : sets[o][c] \subseteq sets'[o][c]]_vars

View == <<sets, cache, last>>
Export == PrintT(<<"VERIF", ToJson([hist |-> hist,
                                    sets |-> sets, cache |-> cache, last |-> last])>>)
=============================================================================
