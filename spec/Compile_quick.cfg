SPECIFICATION Spec
CONSTANTS
  Level = "quick"
  MaxGlyphs = 2
  MaxLayers = 3
  Reuse = {TRUE}
INVARIANT SamePicture
INVARIANT FillSame
INVARIANT OrderKept
INVARIANT Representable
INVARIANT StoredOnce
INVARIANT NamesFresh
INVARIANT Export
