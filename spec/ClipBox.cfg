SPECIFICATION Spec
CONSTANTS
  Coords <- CoordSet
  Steps = {1, 7, 20}
  MaxLayers = 1
INVARIANT Contains
INVARIANT Multiples
INVARIANT Tight
INVARIANT NoBoxIffNoLayers
INVARIANT Export
