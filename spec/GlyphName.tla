----------------------------- MODULE GlyphName -----------------------------
(***************************************************************************)
(* C04 / C10 (names), the branch GlyphSet.tla leaves as a token:           *)
(* glyph.glyph_name for names that do not fit a feature file's 63          *)
(* characters.                                                             *)
(*                                                                         *)
(*   Join     name = parts joined by "_"                                   *)
(*   Prefix   "g_" unless the first character is a letter                  *)
(*   Hash     if prefix + name is longer than 63: name = base32(sha1),     *)
(*            32 characters drawn from A-Z 2-7 - ANY first character may   *)
(*            come out, so the prefix is decided AGAIN on the digest       *)
(*   Return   prefix + name                                                *)
(*                                                                         *)
(* A name is abstracted to (first character class, length); the digest's   *)
(* first character is nondeterministic.  RePrefix = FALSE is the design    *)
(* that keeps the prefix chosen for the original name (negative            *)
(* configuration: a digest that starts with a digit yields a name no       *)
(* feature file accepts).                                                  *)
(***************************************************************************)
EXTENDS Integers, TLC, Json

CONSTANTS RePrefix, MaxLenIn
Limit == 63
DigestLen == 32

VARIABLES first,    \* "alpha" | "digit": class of name[0]
          len, prefix, pc, hashed, in
vars == <<first, len, prefix, pc, hashed, in>>

PLen(p) == IF p THEN 2 ELSE 0
Init == /\ first \in {"alpha", "digit"} /\ len \in 1..MaxLenIn
        /\ prefix = FALSE /\ pc = "prefix" /\ hashed = FALSE
        /\ in = [first |-> first, len |-> len]
Prefix == /\ pc = "prefix" /\ prefix' = (first = "digit") /\ pc' = "check"
          /\ UNCHANGED <<first, len, hashed, in>>
Fits == /\ pc = "check" /\ PLen(prefix) + len <= Limit /\ pc' = "done"
        /\ UNCHANGED <<first, len, prefix, hashed, in>>
Hash == /\ pc = "check" /\ PLen(prefix) + len > Limit
        /\ \E f \in {"alpha", "digit"} :
              /\ first' = f /\ len' = DigestLen /\ hashed' = TRUE
              /\ prefix' = IF RePrefix THEN (f = "digit") ELSE prefix
        /\ pc' = "done" /\ UNCHANGED in
Next == Prefix \/ Fits \/ Hash
Spec == Init /\ [][Next]_vars

Done == pc = "done"
\* what a feature file (and the glyph-name rules) accept: starts with a letter or with the "g_" the code adds
ValidIdent == Done => (prefix \/ first = "alpha")
WithinLimit == Done => PLen(prefix) + len <= Limit
\* the prefix counts towards the limit: nothing longer than 63 ever comes out unhashed
HashedIffTooLong == Done => (hashed <=> PLen(in.first = "digit") + in.len > Limit)
\* no gratuitous prefix
PrefixOnlyWhenNeeded == Done => (prefix <=> first = "digit")
Export == Done => PrintT(<<"VERIF", ToJson([in |-> in, first |-> first, len |-> len, prefix |-> prefix, hashed |-> hashed])>>)
=============================================================================
