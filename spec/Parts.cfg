SPECIFICATION Spec
CONSTANTS
  Invalidate = TRUE
  MaxSteps = 4
VIEW View
INVARIANT CacheFresh
INVARIANT NoAssert
INVARIANT Partition
INVARIANT MergeIsUnion
PROPERTY Grow
INVARIANT Export
