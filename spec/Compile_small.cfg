SPECIFICATION Spec
CONSTANTS
  Level = "small"
  MaxGlyphs = 2
  MaxLayers = 3
  Reuse = {TRUE, FALSE}
INVARIANT SamePicture
INVARIANT FillSame
INVARIANT OrderKept
INVARIANT Representable
INVARIANT StoredOnce
INVARIANT NamesFresh
