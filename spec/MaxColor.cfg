SPECIFICATION Spec
CONSTANTS
  MaxGlyphs = 3
INVARIANT SameGlyphs
INVARIANT SvgIdsValid
INVARIANT OthersStable
INVARIANT StrikesPartition
INVARIANT Succeeds
INVARIANT Export
