SPECIFICATION Spec
INVARIANT Recomposes
INVARIANT UniformIsSimilarity
INVARIANT KeepsYFlip
INVARIANT ResidualHasNoTranslation
INVARIANT CirclesStayCircles
INVARIANT NoSilentOverflow
INVARIANT Export
