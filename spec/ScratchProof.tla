---------------------------- MODULE ScratchProof ----------------------------
(***************************************************************************)
(* Unbounded safety of Scratch.tla, by TLAPS: for EVERY build graph (any   *)
(* number of edges, any dependency relation, any number of jobs), if no    *)
(* two edges name the same response file then no step ever reads another   *)
(* step's input list.  TLC checks the converse direction on the graphs     *)
(* the driver really writes (and that a shared file does break it).        *)
(***************************************************************************)
EXTENDS Scratch, TLAPS

ASSUME Private == \A a, b \in Edges : (a # b /\ Rsp[a] # "") => Rsp[a] # Rsp[b]

Owns == \A o \in Running : Rsp[o] # "" => scratch[Rsp[o]] = o
TypeOK == /\ Running \subseteq Edges
          /\ DOMAIN scratch = RspNames
IndInv == TypeOK /\ ReadsOwn /\ Owns

LEMMA InitInv == Init => IndInv
  BY DEF Init, IndInv, TypeOK, ReadsOwn, Owns, Running, NoneRunning

LEMMA StepInv == IndInv /\ [Next]_vars => IndInv'
<1> SUFFICES ASSUME IndInv, [Next]_vars PROVE IndInv'
  OBVIOUS
<1>1. CASE UNCHANGED vars
  BY <1>1 DEF IndInv, TypeOK, ReadsOwn, Owns, Running, vars, RspNames
<1>2. ASSUME NEW o \in Edges, Start(o) PROVE IndInv'
  <2>1. o \notin Running
    BY <1>2 DEF Start, Ready
  <2>2. Running' = Running \cup {o}
    BY <1>2 DEF Start, Running
  <2>3. \A p \in Running' : inflight'[p] = IF p = o THEN "unread" ELSE inflight[p]
    BY <1>2 DEF Start, Running
  <2>4. CASE Rsp[o] = ""
    <3>1. scratch' = scratch
      BY <1>2, <2>4 DEF Start
    <3> QED BY <2>1, <2>2, <2>3, <2>4, <3>1 DEF IndInv, TypeOK, ReadsOwn, Owns, RspNames
  <2>5. CASE Rsp[o] # ""
    <3>1. scratch' = [scratch EXCEPT ![Rsp[o]] = o]
      BY <1>2, <2>5 DEF Start
    <3>2. Rsp[o] \in RspNames
      BY <2>5 DEF RspNames
    <3>3. \A p \in Running : Rsp[p] # "" => Rsp[p] # Rsp[o]
      BY <2>1, Private DEF IndInv, TypeOK
    <3> QED BY <2>1, <2>2, <2>3, <2>5, <3>1, <3>2, <3>3 DEF IndInv, TypeOK, ReadsOwn, Owns, RspNames
  <2> QED BY <2>4, <2>5
<1>3. ASSUME NEW o \in Edges, Read(o) PROVE IndInv'
  <2>1. Running' = Running /\ scratch' = scratch /\ o \in Running
    BY <1>3 DEF Read, Running
  <2>2. inflight'[o] = o
    BY <1>3, <2>1 DEF Read, IndInv, Owns, Running
  <2>3. \A p \in Running : p # o => inflight'[p] = inflight[p]
    BY <1>3 DEF Read, Running
  <2> QED BY <2>1, <2>2, <2>3 DEF IndInv, TypeOK, ReadsOwn, Owns, RspNames
<1>4. ASSUME NEW o \in Edges, Finish(o) PROVE IndInv'
  <2>1. Running' = Running \ {o} /\ o \in Running
    BY <1>4 DEF Finish, Running
  <2>2. \A p \in Running' : inflight'[p] = inflight[p]
    BY <1>4 DEF Finish, Running
  <2>3. \A p \in Running' : Rsp[p] # "" => scratch'[Rsp[p]] = scratch[Rsp[p]]
    <3>1. \A p \in Running' : Rsp[p] # "" => Rsp[p] # Rsp[o]
      BY <2>1, Private DEF IndInv, TypeOK
    <3>2. CASE Rsp[o] = ""
      BY <1>4, <3>2 DEF Finish
    <3>3. CASE Rsp[o] # ""
      <4>1. scratch' = [scratch EXCEPT ![Rsp[o]] = "none"]
        BY <1>4, <3>3 DEF Finish
      <4>2. \A p \in Running' : Rsp[p] # "" => Rsp[p] \in DOMAIN scratch
        BY <2>1 DEF IndInv, TypeOK, RspNames
      <4> QED BY <4>1, <4>2, <3>1
    <3> QED BY <3>2, <3>3
  <2>4. DOMAIN scratch' = RspNames
    BY <1>4 DEF Finish, IndInv, TypeOK
  <2> QED BY <2>1, <2>2, <2>3, <2>4 DEF IndInv, TypeOK, ReadsOwn, Owns, RspNames
<1> QED BY <1>1, <1>2, <1>3, <1>4 DEF Next

THEOREM Safety == Spec => []ReadsOwn
<1>1. IndInv => ReadsOwn
  BY DEF IndInv
<1> QED BY InitInv, StepInv, <1>1, PTL DEF Spec
=============================================================================
