------------------------------- MODULE Affine -------------------------------
(* 2x3 affine maps over exact rationals, picosvg Affine2D field order <<a, b, c, d, e, f>>:
   x' = a x + c y + e ; y' = b x + d y + f *)
EXTENDS Integers, Sequences, Rat

AQ(a, b, c, d, e, f) == <<RI(a), RI(b), RI(c), RI(d), RI(e), RI(f)>>
AIdent == AQ(1, 0, 0, 1, 0, 0)
\* Then(m, n): apply m first, then n   (Affine2D.compose_ltr((m, n)))
Then(m, n) == <<RAdd(RMul(n[1], m[1]), RMul(n[3], m[2])), RAdd(RMul(n[2], m[1]), RMul(n[4], m[2])),
                RAdd(RMul(n[1], m[3]), RMul(n[3], m[4])), RAdd(RMul(n[2], m[3]), RMul(n[4], m[4])),
                RAdd(RAdd(RMul(n[1], m[5]), RMul(n[3], m[6])), n[5]),
                RAdd(RAdd(RMul(n[2], m[5]), RMul(n[4], m[6])), n[6])>>
ADet(m) == RSub(RMul(m[1], m[4]), RMul(m[2], m[3]))
AInv(m) == LET det == ADet(m)
               a == RDiv(m[4], det)  b == RNeg(RDiv(m[2], det))
               c == RNeg(RDiv(m[3], det))  d == RDiv(m[1], det)
           IN  <<a, b, c, d,
                 RNeg(RAdd(RMul(a, m[5]), RMul(c, m[6]))), RNeg(RAdd(RMul(b, m[5]), RMul(d, m[6])))>>
AMap(m, p) == <<RAdd(RAdd(RMul(m[1], p[1]), RMul(m[3], p[2])), m[5]),
                RAdd(RAdd(RMul(m[2], p[1]), RMul(m[4], p[2])), m[6])>>
\* OpenType Fixed 16.16 range test used by fixed.fixed_safe
FixedSafe(m) == \A i \in 1..6 : RLe(RI(-32768), m[i]) /\ RLt(m[i], RI(32768))
=============================================================================
