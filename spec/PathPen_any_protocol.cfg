SPECIFICATION Spec
CONSTANTS
  MaxLen = 4
  RequireNormal = FALSE
INVARIANT PenProtocol
