------------------------------ MODULE GlyphSet ------------------------------
(***************************************************************************)
(* C04 / C10 (names).  From source file names to a shapeable glyph set:    *)
(*   FromFilename : codepoints.from_filename (the sequence in the name)    *)
(*   Name         : glyph.glyph_name on character codes: an ASCII letter   *)
(*                  names itself, anything else its lowercase hex; joined  *)
(*                  by "_"; "g_" is prepended unless the first character   *)
(*                  is alphabetic (names > 63 chars are hashed: token)     *)
(*   EnsureBlanks : write_font._ensure_codepoints_will_have_glyphs         *)
(*   AddGlyphs    : _generate_color_font glyph order (an existing name is  *)
(*                  REUSED - which is how a blank and a colour glyph can   *)
(*                  become one glyph)                                      *)
(*   Fea          : features.generate_fea: one ccmp ligature per sequence  *)
(*   Shape        : cmap, then ligatures (longest match first)             *)
(* Codepoints are [hex, alpha] records: their lowercase hex string and     *)
(* whether they are an ASCII letter (then `ch` is the letter).             *)
(***************************************************************************)
EXTENDS Integers, Sequences, FiniteSets, TLC, Json, SequencesExt, FiniteSetsExt

CONSTANTS MaxSources, MaxLen,
          BlanksOnce     \* TRUE = the code: one blank per codepoint; FALSE = one entry per OCCURRENCE in the glyph order
                         \* (negative configuration: recorded glyph ids then point past the compiled glyphs)

CP == { [hex |-> "41", ch |-> "A"], [hex |-> "67", ch |-> "g"], [hex |-> "a9", ch |-> ""],
        [hex |-> "200d", ch |-> ""], [hex |-> "fe0f", ch |-> ""], [hex |-> "1f600", ch |-> ""], [hex |-> "1f3fb", ch |-> ""] }
Part(c) == IF c.ch # "" THEN c.ch ELSE c.hex
\* first character alphabetic?  (letters, or hex strings that start with a-f)
AlphaStart(c) == c.ch # "" \/ c.hex \in {"a9", "fe0f"}
RECURSIVE Join(_)
Join(s) == IF Len(s) = 1 THEN Part(s[1]) ELSE Part(s[1]) \o "_" \o Join(Tail(s))
Name(s) == IF AlphaStart(s[1]) THEN Join(s) ELSE "g_" \o Join(s)

Seqs == UNION {[1..n -> CP] : n \in 1..MaxLen}
VARIABLES srcs,      \* set of pairwise distinct codepoint sequences (one source each)
          phase, order, cmap, blank, owner, ligs, dup,
          gid        \* glyph name -> the glyph id RECORDED for its colour glyph when it is added (formats that attach artwork by
                     \* glyph id - untouchedsvg, cbdt, sbix - keep this number)
vars == <<srcs, phase, order, cmap, blank, owner, ligs, dup, gid>>

Init == /\ \E a, b \in Seqs : srcs = {a, b}          \* one or two sources (MaxSources = 2)
        /\ phase = "blanks" /\ order = <<".notdef", ".space">> /\ cmap = [c \in {} |-> ""]
        /\ blank = {".space"} /\ owner = [n \in {} |-> << >>] /\ ligs = {} /\ dup = FALSE /\ gid = [n \in {} |-> 0]

AllCps == UNION {{s[i] : i \in DOMAIN s} : s \in srcs}
Direct == {s[1] : s \in {x \in srcs : Len(x) = 1}}
NeedBlank == AllCps \ Direct

EnsureBlanks ==
    /\ phase = "blanks"
    /\ LET names == {Name(<<c>>) : c \in NeedBlank}
           \* how often a sequence-only codepoint occurs over all sequences
           occ(c) == Cardinality({<<s, i>> \in srcs \X (1..MaxLen) : i <= Len(s) /\ s[i] = c})
           twice == {Name(<<c>>) : c \in {d \in NeedBlank : occ(d) > 1}} IN
       /\ order' = order \o SetToSeq(names)            \* order among blanks is irrelevant to the properties
                         \o (IF BlanksOnce THEN << >> ELSE SetToSeq(twice))    \* the repeated entries of the negative design
       /\ blank' = blank \cup names
       /\ cmap' = [c \in NeedBlank |-> Name(<<c>>)]
    /\ phase' = "glyphs" /\ UNCHANGED <<srcs, owner, ligs, dup, gid>>

AddGlyphs ==       \* the unambiguity gate (fix eacaeaa), then one colour glyph per source; existing names are reused
    /\ phase = "glyphs"
    /\ IF \E a, b \in srcs : a # b /\ Name(a) = Name(b)
       THEN /\ dup' = TRUE /\ phase' = "error" /\ UNCHANGED <<order, cmap, owner, blank, ligs, gid>>
       ELSE /\ order' = order \o SetToSeq({Name(s) : s \in srcs} \ Range(order))
            \* the glyph id of a colour glyph is read off the glyph order as it stands (0-based)
            /\ gid' = [n \in {Name(s) : s \in srcs} |-> (CHOOSE i \in DOMAIN order' : order'[i] = n) - 1]
            /\ owner' = [n \in {Name(s) : s \in srcs} |-> CHOOSE s \in srcs : Name(s) = n]
            /\ cmap' = [c \in DOMAIN cmap \cup Direct |-> IF c \in Direct THEN Name(<<c>>) ELSE cmap[c]]
            /\ blank' = blank \ {Name(s) : s \in srcs}   \* a blank whose name a source claims now carries artwork
            /\ ligs' = {s \in srcs : Len(s) > 1}
            /\ phase' = "done" /\ UNCHANGED dup
    /\ UNCHANGED srcs
Next == EnsureBlanks \/ AddGlyphs
Spec == Init /\ [][Next]_vars

-----------------------------------------------------------------------------
Done == phase = "done"
\* shaping: cmap each codepoint, then replace the longest ligature match at each position
Glyphs(s) == [i \in DOMAIN s |-> cmap[s[i]]]
RECURSIVE Lig(_)
Lig(gs) == IF gs = << >> THEN << >>
           ELSE LET cands == {l \in ligs : Len(l) <= Len(gs) /\ \A i \in DOMAIN l : Name(<<l[i]>>) = gs[i]} IN
                IF cands = {} THEN <<Head(gs)>> \o Lig(Tail(gs))
                ELSE LET best == CHOOSE l \in cands : \A m \in cands : Len(m) <= Len(l) IN
                     <<Name(best)>> \o Lig(SubSeq(gs, Len(best) + 1, Len(gs)))
Shape(s) == Lig(Glyphs(s))
\* C04: every source is reached from its own sequence ...
Reachable == Done => \A s \in srcs : Shape(s) = <<Name(s)>>
\* ... and a codepoint that occurs only inside sequences shapes to a BLANK glyph, never to some source's artwork
OnlyFromOwn == Done => \A c \in NeedBlank : cmap[c] \in blank
Distinct == Done => \A a, b \in srcs : a # b => Name(a) # Name(b)
\* the font compiler keeps the first occurrence of a name only: what the recorded glyph ids must survive
RECURSIVE Dedupe(_, _)
Dedupe(s, seen) == IF s = << >> THEN << >>
                   ELSE IF Head(s) \in seen THEN Dedupe(Tail(s), seen)
                   ELSE <<Head(s)>> \o Dedupe(Tail(s), seen \cup {Head(s)})
Compiled == Dedupe(order, {})
GidIsFinal == Done => \A n \in DOMAIN gid : gid[n] + 1 <= Len(Compiled) /\ Compiled[gid[n] + 1] = n
Skeleton == Done => order[1] = ".notdef" /\ ".space" \in blank
\* C10: names derived from distinct sequences are distinct (fails: "g" + "_" + x  vs  "g_" + x)
NameInjective == \A a, b \in Seqs : a # b => Name(a) # Name(b)

CJ(c) == c.hex
Export == phase \in {"done", "error"} =>
    PrintT(<<"VERIF", ToJson([srcs |-> SetToSeq({[i \in DOMAIN s |-> CJ(s[i])] : s \in srcs}), phase |-> phase,
                              names |-> SetToSeq({[seq |-> [i \in DOMAIN s |-> CJ(s[i])], name |-> Name(s)] : s \in srcs}),
                              blanks |-> SetToSeq({c.hex : c \in NeedBlank}),
                              leak |-> (phase = "done" /\ \E c \in NeedBlank : cmap[c] \notin blank)])>>)
=============================================================================
