SPECIFICATION Spec
CONSTANTS
  MaxLen = 3
  QuoteLeadingBlank = TRUE
INVARIANT RoundTrip
INVARIANT Export
