------------------------------ MODULE MaxColor ------------------------------
(***************************************************************************)
(* C12.  Glyph-order bookkeeping of maximum_color's donation steps         *)
(* (glue_together.py).  The input font (target) has glyph order T with     *)
(* colour glyphs C; the complementary table is built in a separate         *)
(* nanoemoji run (donor) whose glyph order is                              *)
(*      .notdef, .space, colour glyphs (input order, regrouped)...,        *)
(*      then for COLR the layer glyphs.                                    *)
(*  GlueSVG  : the donor's SVG documents address glyph IDS, so the target  *)
(*             is reordered until every donor SVG glyph has the donor's id *)
(*             (non-SVG target glyphs fill the holes in their old order)   *)
(*  GlueCOLR : layer glyphs not yet in the target are appended             *)
(*  GlueCBDT : bitmaps are re-sharded into runs of consecutive target ids  *)
(* Glyph names are kept stable throughout (keep_glyph_names first).        *)
(***************************************************************************)
EXTENDS Integers, Sequences, FiniteSets, TLC, Json, SequencesExt

CONSTANTS MaxGlyphs     \* target glyphs besides .notdef

Names == {"n1", "n2", "n3", "n4", "n5"}
VARIABLES target, colour, donorOrder, donorSvg, phase, order, strikes, outcome
vars == <<target, colour, donorOrder, donorSvg, phase, order, strikes, outcome>>

\* the donor font nanoemoji builds for the colour glyphs: ids 0,1 are .notdef/.space, colour glyphs follow
DonorIds(cs) == [i \in DOMAIN cs |-> i + 1]           \* i-th colour glyph has donor id i + 1 (0-based ids: 2, 3, ...)

Init == /\ \E n \in 1..MaxGlyphs : \E others \in [1..n -> Names] :
             /\ \A i, j \in 1..n : i # j => others[i] # others[j]
             \* a COLR font always has at least one non-colour glyph besides .notdef: the outline its layers draw
             /\ target = <<".notdef">> \o others \o <<"layer">>
        /\ colour \in (SUBSET (Range(target) \ {".notdef", "layer"})) \ {{}}
        \* the donor is a picosvg build of the colour glyphs: it regroups them by shared shapes and sorts by name, so
        \* ANY order of the colour glyphs may come back (ids 2, 3, ...)
        /\ donorOrder \in {p \in [1..Cardinality(colour) -> colour] : \A i, j \in DOMAIN p : i # j => p[i] # p[j]}
        /\ donorSvg = << >> /\ phase = "svg" /\ order = target /\ strikes = << >> /\ outcome = "running"

ColourSeq == donorOrder

GlueSVG ==   \* glue_together._copy_svg
    /\ phase = "svg"
    /\ LET cs == ColourSeq
           nonsvg == SelectSeq(target, LAMBDA g : g \notin colour)
           need == Len(cs) + 2                         \* ids 2 .. len+1 must be colour glyphs
           RECURSIVE Build(_, _, _)
           Build(acc, rest, k) ==      \* k = index into cs
               IF k > Len(cs) THEN [ok |-> TRUE, seq |-> acc \o rest]
               ELSE IF Len(acc) < k + 1                 \* donor id of cs[k] is k + 1 (0-based)
                    THEN IF rest = << >> THEN [ok |-> FALSE, seq |-> acc]      \* pop from empty list
                         ELSE Build(Append(acc, Head(rest)), Tail(rest), k)
                    ELSE Build(Append(acc, cs[k]), rest, k + 1)
           res == Build(<< >>, nonsvg, 1)
       IN IF res.ok THEN /\ order' = res.seq /\ donorSvg' = [i \in DOMAIN cs |-> [id |-> i + 1, name |-> cs[i]]]
                         /\ phase' = "cbdt" /\ UNCHANGED outcome
          ELSE /\ outcome' = "IndexError" /\ phase' = "done" /\ UNCHANGED <<order, donorSvg>>
    /\ UNCHANGED <<target, colour, donorOrder, strikes>>

GlueCBDT ==  \* glue_together._copy_cbdt: runs of consecutive ids in the (new) target order
    /\ phase = "cbdt"
    /\ LET ids == {i - 1 : i \in {j \in DOMAIN order : order[j] \in colour}}      \* 0-based ids of colour glyphs
           RECURSIVE Runs(_)
           Runs(S) == IF S = {} THEN << >>
                      ELSE LET lo == CHOOSE x \in S : \A y \in S : x <= y
                               hi == CHOOSE x \in S : x >= lo /\ (\A z \in lo..x : z \in S) /\ (x + 1) \notin S
                           IN <<[first |-> lo, last |-> hi]>> \o Runs(S \ (lo..hi))
       IN strikes' = Runs(ids)
    /\ outcome' = "ok" /\ phase' = "done"
    /\ UNCHANGED <<target, colour, donorOrder, donorSvg, order>>
Next == GlueSVG \/ GlueCBDT
Spec == Init /\ [][Next]_vars

-----------------------------------------------------------------------------
Ok == phase = "done" /\ outcome = "ok"
\* nothing added, nothing lost, .notdef first
SameGlyphs == Ok => Range(order) = Range(target) /\ Len(order) = Len(target) /\ order[1] = ".notdef"
\* every donor SVG glyph sits at the id its document names
SvgIdsValid == Ok => \A i \in DOMAIN donorSvg : order[donorSvg[i].id + 1] = donorSvg[i].name
\* glyphs that are not colour glyphs keep their relative order
OthersStable == Ok => SelectSeq(order, LAMBDA g : g \notin colour) = SelectSeq(target, LAMBDA g : g \notin colour)
StrikesPartition == Ok =>
    /\ \A i \in DOMAIN order : order[i] \in colour =>
          Cardinality({s \in DOMAIN strikes : strikes[s].first <= i - 1 /\ i - 1 <= strikes[s].last}) = 1
    /\ \A s \in DOMAIN strikes : \A g \in strikes[s].first..strikes[s].last : order[g + 1] \in colour
\* the pop-from-empty-list in _copy_svg needs a target with fewer than two non-colour glyphs: unreachable for a COLR
\* font (.notdef and at least one layer outline are never colour glyphs)
Succeeds == phase = "done" => outcome = "ok"
Export == phase = "done" =>
    PrintT(<<"VERIF", ToJson([target |-> target, colour |-> SetToSeq(colour), donor |-> donorOrder, outcome |-> outcome, order |-> order, strikes |-> strikes])>>)
=============================================================================
