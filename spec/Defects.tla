------------------------------ MODULE Defects ------------------------------
(***************************************************************************)
(* C17.  The pipeline as a sequence of gates.  A scenario is a list of     *)
(* sources, at most one of which carries a defect class, built in one      *)
(* format family.  Each stage of the real pipeline is one action that      *)
(* either passes the build on or stops it; the property is that a font is  *)
(* written only if no defect that matters for the format is present.       *)
(*   resolve (config.load)  -> picosvg steps -> glyphmap/fea               *)
(*   -> write_font: load inputs, unambiguous?, paints, palette, bitmap     *)
(*      limits, compile, write                                             *)
(***************************************************************************)
EXTENDS Integers, Sequences, FiniteSets, TLC, Json

Classes == {"dupname", "unparsable", "badfill", "missingpaint", "badspread", "palconflict", "toobig",
            "mastermismatch", "dupfilename"}
Formats == {"colr1", "colr0", "glyf", "picosvg", "untouchedsvg", "cbdt", "sbix", "vf"}
MaxNeighbours == 2

\* does this defect class make the input ambiguous/unusable for this format?
Applies(c, f) ==
    CASE c \in {"dupname", "unparsable", "dupfilename"} -> TRUE
      [] c \in {"badfill", "missingpaint", "badspread"} -> f \in {"colr1", "colr0", "glyf", "picosvg", "vf"}
      [] c = "palconflict" -> f \in {"colr1", "colr0", "vf"}
      [] c = "toobig" -> f = "cbdt"
      [] c = "mastermismatch" -> f = "vf"
\* the stage of the real pipeline expected to stop the build
Detector(c, f) ==
    CASE c = "dupfilename" -> "resolve"
      [] c = "mastermismatch" -> "resolve"
      [] c = "unparsable" -> IF f \in {"untouchedsvg"} THEN "load" ELSE IF f \in {"cbdt", "sbix"} THEN "bitmap" ELSE "picosvg"
      [] c \in {"badfill", "missingpaint"} -> "picosvg_or_paint"
      [] c = "badspread" -> "paint"
      [] c = "dupname" -> "unambiguous"
      [] c = "palconflict" -> "palette"
      [] c = "toobig" -> "limits"

VARIABLES fmt, cls, pos, n, stage, outcome
vars == <<fmt, cls, pos, n, stage, outcome>>

Stages == <<"resolve", "picosvg", "bitmap", "glyphmap", "load", "unambiguous", "paint", "palette", "limits", "compile", "write">>
Idx(s) == CHOOSE i \in DOMAIN Stages : Stages[i] = s
StageApplies(s) ==
    CASE s = "picosvg" -> fmt \in {"colr1", "colr0", "glyf", "picosvg", "vf"}
      [] s = "bitmap" -> fmt \in {"cbdt", "sbix"}
      [] s = "paint" -> fmt \in {"colr1", "colr0", "glyf", "picosvg", "vf"}
      [] s = "palette" -> fmt \in {"colr1", "colr0", "vf"}
      [] s = "limits" -> fmt = "cbdt"
      [] OTHER -> TRUE
Stops(s) == /\ cls # "none" /\ Applies(cls, fmt)
            /\ LET d == Detector(cls, fmt) IN
               \/ d = s
               \/ (d = "picosvg_or_paint" /\ s \in {"picosvg", "paint"})

Init == /\ fmt \in Formats /\ cls \in Classes \cup {"none"}
        /\ n \in 0..MaxNeighbours /\ pos \in 0..MaxNeighbours /\ pos <= n
        /\ (cls = "none" => pos = 0)
        /\ stage = 1 /\ outcome = "running"
Step == /\ outcome = "running"
        /\ LET s == Stages[stage] IN
           IF StageApplies(s) /\ Stops(s)
           THEN outcome' = "error" /\ UNCHANGED stage
           ELSE IF stage = Len(Stages) THEN outcome' = "written" /\ UNCHANGED stage
           ELSE stage' = stage + 1 /\ UNCHANGED outcome
        /\ UNCHANGED <<fmt, cls, pos, n>>
Next == Step
Spec == Init /\ [][Next]_vars

\* C17: a font is written only when nothing defective (for this format) went in
AmbiguityStops == outcome = "written" => (cls = "none" \/ ~Applies(cls, fmt))
\* ... and a clean or irrelevant input is not rejected
NoFalseRejection == outcome = "error" => (cls # "none" /\ Applies(cls, fmt))
ErrorBeforeWrite == outcome = "error" => Stages[stage] # "write"
Export == outcome # "running" =>
    PrintT(<<"VERIF", ToJson([fmt |-> fmt, cls |-> cls, pos |-> pos, n |-> n, outcome |-> outcome,
                              stage |-> Stages[stage]])>>)
=============================================================================
