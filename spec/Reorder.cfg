SPECIFICATION Spec
CONSTANTS
  Glyphs = {"n", "a", "b", "c"}
  Payloads = {"p", "q"}
  HasParallelRule = TRUE
INVARIANT Sorted
PROPERTY MeaningAction
