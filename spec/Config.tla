------------------------------- MODULE Config -------------------------------
(***************************************************************************)
(* C10 / C20.  The channel driver -> resolved TOML -> worker step.         *)
(*                                                                         *)
(* Every FontConfig field (the list is a B3 constant taken from            *)
(* FontConfig._fields at check time) has a default, possibly a value in    *)
(* the user's config file and possibly a command-line flag.                *)
(*   DriverLoad  : config._pop_flag (None = "flag not given")              *)
(*   WriteToml   : config.write (None-valued entries are dropped)          *)
(*   WorkerLoad  : the worker step loads that TOML; the flags the ninja    *)
(*                 rule itself passes (B3: parsed from build.ninja)        *)
(*                 override it                                             *)
(* Values are abstract tokens "D" (default), "F" (file), "G" (flag),       *)
(* "W" (the value the worker rule passes); NullDefault fields have the     *)
(* default None.                                                           *)
(***************************************************************************)
EXTENDS Integers, Sequences, FiniteSets, TLC, Json, FiniteSetsExt

CONSTANTS Fields,         \* B3: FontConfig._fields that are plain options
          NullDefault,    \* fields whose default is None (dropped from the TOML)
          WorkerFlags,    \* B3: option flags the write_font rule passes itself
          MaxPerturbed    \* how many fields may deviate from "default" at once

Prov == {"default", "file", "flag", "both"}
VARIABLES prov, phase, driver, toml, worker
vars == <<prov, phase, driver, toml, worker>>

None == "None"
FileVal(f) == IF prov[f] \in {"file", "both"} THEN "F" ELSE None      \* toml.get(name)
FlagVal(f) == IF prov[f] \in {"flag", "both"} THEN "G" ELSE None      \* FLAGS.name
Default(f) == IF f \in NullDefault THEN None ELSE "D"
\* _pop_flag
PopFlag(f) == IF FileVal(f) = None /\ FlagVal(f) = None THEN Default(f)
              ELSE IF FlagVal(f) # None THEN FlagVal(f) ELSE FileVal(f)

Perturbed == UNION {kSubset(k, Fields) : k \in 0..MaxPerturbed}
Init == /\ \E S \in Perturbed : \E q \in [S -> Prov \ {"default"}] :
             prov = [f \in Fields |-> IF f \in S THEN q[f] ELSE "default"]
        /\ phase = "driver"
        /\ driver = [f \in Fields |-> None] /\ toml = [f \in Fields |-> None] /\ worker = [f \in Fields |-> None]
DriverLoad == /\ phase = "driver"
              /\ driver' = [f \in Fields |-> PopFlag(f)]
              /\ phase' = "write" /\ UNCHANGED <<prov, toml, worker>>
WriteToml ==  /\ phase = "write"
              /\ toml' = [f \in Fields |-> driver[f]]         \* None entries are simply absent
              /\ phase' = "worker" /\ UNCHANGED <<prov, driver, worker>>
WorkerLoad == /\ phase = "worker"
              /\ worker' = [f \in Fields |->
                    IF f \in WorkerFlags THEN "W"             \* the rule's own flag wins over the file
                    ELSE IF toml[f] = None THEN Default(f) ELSE toml[f]]
              /\ phase' = "done" /\ UNCHANGED <<prov, driver, toml>>
Next == DriverLoad \/ WriteToml \/ WorkerLoad
Spec == Init /\ [][Next]_vars

-----------------------------------------------------------------------------
\* what the user asked for: flag > file > default
Intended(f) == IF prov[f] \in {"flag", "both"} THEN "G" ELSE IF prov[f] = "file" THEN "F" ELSE Default(f)
Precedence == phase # "driver" => \A f \in Fields : driver[f] = Intended(f)
RoundTrip  == phase = "done" => \A f \in Fields \ WorkerFlags : worker[f] = driver[f]
\* C20: every option reaches the step that builds the font.  Fails for the fields in WorkerFlags
\* (the rule's own --fea_file hides the user's fea_file): reported as a known finding.
Reaches    == phase = "done" => \A f \in Fields : worker[f] = Intended(f)
Export == phase = "done" =>
    PrintT(<<"VERIF", ToJson([prov |-> [f \in {g \in Fields : prov[g] # "default"} |-> prov[f]],
                              worker |-> [f \in {g \in Fields : prov[g] # "default"} |-> worker[f]]])>>)
=============================================================================
