SPECIFICATION FairSpec
CONSTANTS
  Reuse = TRUE
  Layouts <- LayoutSmall
  Sources <- SourceSmall
  Q = 10
  TDen = 2
PROPERTY Terminates
