SPECIFICATION Spec
CONSTANTS
  MaxSources = 2
  MaxLen = 3
INVARIANT Reachable
INVARIANT Distinct
INVARIANT Skeleton
INVARIANT Export
