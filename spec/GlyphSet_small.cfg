SPECIFICATION Spec
CONSTANTS
  MaxSources = 2
  MaxLen = 3
  BlanksOnce = TRUE
INVARIANT Reachable
INVARIANT Distinct
INVARIANT Skeleton
INVARIANT GidIsFinal
INVARIANT Export
