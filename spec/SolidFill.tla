----------------------------- MODULE SolidFill -----------------------------
(***************************************************************************)
(* C02 / C12 / C13 (shared).  svg._apply_solid_paint, used by the OT-SVG   *)
(* writer and by colr_to_svg for every solid fill and COLRv0 layer: which  *)
(* attributes a solid paint leaves on its element, and what a renderer     *)
(* makes of them under ANY palette the text engine selects.                *)
(*                                                                         *)
(*   fill      omitted when the colour (its palette index INCLUDED) is     *)
(*             plain opaque black - SVG's initial fill; otherwise          *)
(*             "var(--colorN, c)" for a palette colour, "c" for a plain    *)
(*             one, "currentColor" for the foreground                      *)
(*   opacity   written when alpha # 1                                      *)
(*                                                                         *)
(* A colour is [rgb, idx, fg]: rgb in {"black", "other"}, idx = palette    *)
(* index or None, fg = the foreground sentinel.  Palettes assign every     *)
(* index an rgb; a selected palette may differ from the default one in any *)
(* entry.  CompareIndex = FALSE is the design that decides "is it black"   *)
(* on the rgb triple alone (negative configuration).                       *)
(***************************************************************************)
EXTENDS Integers, TLC, Json

CONSTANTS CompareIndex
None == -1          \* "no palette index"
Rgbs == {"black", "other"}
Idx == {None, 0, 1}
Colours == [rgb : Rgbs, idx : Idx, fg : {FALSE}, opaque : BOOLEAN] \cup [rgb : {"black"}, idx : {None}, fg : {TRUE}, opaque : BOOLEAN]
Palettes == [{0, 1} -> Rgbs]          \* what the selected palette holds at each index

VARIABLES c, sel, attrs, phase
vars == <<c, sel, attrs, phase>>

NoFill == [k |-> "none", rgb |-> "black", idx |-> None]
Init == c \in Colours /\ sel \in Palettes /\ attrs = [fill |-> NoFill, opacity |-> FALSE] /\ phase = "paint"

IsPlainBlack(col) == /\ ~col.fg /\ col.rgb = "black"
                     /\ (CompareIndex => col.idx = None)
FillString(col) == IF col.fg THEN [k |-> "fg", rgb |-> "black", idx |-> None]
                   ELSE IF col.idx # None THEN [k |-> "var", rgb |-> col.rgb, idx |-> col.idx]
                   ELSE [k |-> "plain", rgb |-> col.rgb, idx |-> None]
Apply == /\ phase = "paint"
         /\ attrs' = [fill |-> IF IsPlainBlack(c) THEN NoFill ELSE FillString(c), opacity |-> ~c.opaque]
         /\ phase' = "done" /\ UNCHANGED <<c, sel>>
Next == Apply
Spec == Init /\ [][Next]_vars

\* what an SVG renderer paints from the attributes when `sel` is the selected palette
Rendered == CASE attrs.fill.k = "none" -> "black"
              [] attrs.fill.k = "fg" -> "foreground"
              [] attrs.fill.k = "plain" -> attrs.fill.rgb
              [] attrs.fill.k = "var" -> sel[attrs.fill.idx]
\* what COLR paints for the same colour under the same palette
Meant == IF c.fg THEN "foreground" ELSE IF c.idx # None THEN sel[c.idx] ELSE c.rgb
FollowsPalette == phase = "done" => Rendered = Meant
AlphaKept == phase = "done" => (attrs.opacity <=> ~c.opaque)
\* nothing superfluous: plain opaque black needs no attribute at all
Minimal == phase = "done" /\ ~c.fg /\ c.rgb = "black" /\ c.idx = None => attrs.fill = NoFill
Export == phase = "done" => PrintT(<<"VERIF", ToJson([rgb |-> c.rgb, idx |-> c.idx, fg |-> c.fg, opaque |-> c.opaque,
                                                     fill |-> attrs.fill, opacity |-> attrs.opacity])>>)
=============================================================================
