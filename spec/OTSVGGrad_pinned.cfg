SPECIFICATION Spec
CONSTANTS
  Level = "pinned"
INVARIANT SameEllipse
INVARIANT RadiusPositive
INVARIANT Total
