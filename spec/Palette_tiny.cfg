SPECIFICATION Spec
CONSTANTS
  NVals = 2
  MaxIdx = 2
  MaxColors = 3
INVARIANT ErrorIffConflict
INVARIANT NoInternalError
INVARIANT PaletteGood
INVARIANT NeverEmpty
INVARIANT LoopInv
PROPERTY Terminates
