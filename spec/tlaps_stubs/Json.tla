-------------------------------- MODULE Json --------------------------------
(* Stand-in for the CommunityModules Json module when a specification is read by tlapm (which does not ship it). *)
(* Only Export operators use it, and no proof mentions them.                                                      *)
ToJson(v) == "json"
JsonDeserialize(f) == f
=============================================================================
