SPECIFICATION Spec
CONSTANTS
  MaxDepth = 4
  Tokens = {"a", "b"}
INVARIANT SamePlacement
INVARIANT Export
