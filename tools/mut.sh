#!/bin/sh
# usage: tools/mut.sh <Cnn> <file-under-src/nanoemoji> <python-expr-old> <new>   (applies to a scratch copy, runs quick check)
PID=$1; FILE=$2; OLD=$3; NEW=$4
D=$(mktemp -d /tmp/mut-XXXXXX)
cp -r /repo/src $D/src
/venv/bin/python - "$D/src/nanoemoji/$FILE" "$OLD" "$NEW" <<'PY'
import sys
p, old, new = sys.argv[1:4]
s = open(p).read()
assert s.count(old) >= 1, f"pattern not found: {old!r}"
open(p, 'w').write(s.replace(old, new, 1))
PY
[ $? -eq 0 ] || { rm -rf $D; exit 3; }
VERIF_REPO=$D VERIF_EVIDENCE_DIR=$D/ev VERIF_REPLAY_DIR=$D/rp ./check $PID --tier quick 2>&1 | cut -c1-260 | grep -v "^  " | tail -4
rm -rf $D
