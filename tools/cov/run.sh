#!/bin/sh
# usage: tools/cov/run.sh "C01 C02 ..."   - runs the quick tier of each check under coverage.py (harness process and every
# worker subprocess), then prints per-file line/branch coverage of /repo/src/nanoemoji and the lines never executed.
# Scratch data: /tmp/verif-cov (removed at the start of every call).  Not part of any registered command.
HERE="$(cd "$(dirname "$0")/../.." && pwd)"
rm -rf /tmp/verif-cov; mkdir -p /tmp/verif-cov
cd "$HERE"
export PATH="/venv/bin:$PATH" PYTHONHASHSEED=0 PYTHONDONTWRITEBYTECODE=1 SOURCE_DATE_EPOCH=1600000000
export COVERAGE_PROCESS_START="$HERE/tools/cov/coveragerc" VERIF_COV_SITE="$HERE/tools/cov/site"
for c in $1; do
  VERIF_EVIDENCE_DIR=/tmp/verif-cov/ev VERIF_REPLAY_DIR=/tmp/verif-cov/rp /venv/bin/python -m coverage run --rcfile="$COVERAGE_PROCESS_START" -m harness.main $c --tier quick 2>&1 | tail -1 | cut -c1-160
done
cd /tmp/verif-cov && /venv/bin/python -m coverage combine --rcfile="$COVERAGE_PROCESS_START" >/dev/null 2>&1
/venv/bin/python -m coverage report --rcfile="$COVERAGE_PROCESS_START" -m --skip-empty 2>&1 | cut -c1-400
