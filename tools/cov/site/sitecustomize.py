# coverage of worker subprocesses, then the harness's own fault-injection shim
import os, sys
try:
    import coverage
    coverage.process_startup()
except Exception:
    pass
sys.path.insert(0, "/verif/harness/shim")
import importlib.util
spec = importlib.util.spec_from_file_location("nev_shim", "/verif/harness/shim/sitecustomize.py")
m = importlib.util.module_from_spec(spec)
try:
    spec.loader.exec_module(m)
except SystemExit:
    raise
