#!/bin/sh
# usage: tools/seeds.sh "C01 C02 ..." "1 2 3"  -> runs each check with each seed, evidence/replays redirected
for c in $1; do for s in $2; do
  D=$(mktemp -d /tmp/seeds-XXXXXX)
  out=$(VERIF_SEED=$s VERIF_EVIDENCE_DIR=$D/ev VERIF_REPLAY_DIR=/tmp/seed-replays ./check $c --tier quick 2>&1 | grep -A1 "VIOLATION\|quick:\|MACHINERY" | grep -v "^--" | cut -c1-260 | tail -6)
  echo "== $c seed=$s"; echo "$out"
  rm -rf $D
done; done
