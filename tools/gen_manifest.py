#!/usr/bin/env python3
"""Regenerates /verif/MANIFEST.json from the table below (kept in one place so it stays valid)."""
import json
from pathlib import Path

VERIF = Path(__file__).resolve().parent.parent
ALL = ["C%02d" % i for i in range(1, 21)]

# pid -> dict(text, note, technique, design_ref)
CLAIMED = {
    "C15": dict(
        text="TLC exhaustively checks the PlusCal transcription of uniq_sort_cpal_colors against the declarative palette "
             "predicate for every set of <=6 colours over 3 RGBA ranks x indices {none,0..5} (82,160 inputs), plus termination "
             "under fairness; every exported terminal state is replayed into the real function (B1) and the PaletteUse model's "
             "scenarios are compiled to real COLRv0/COLRv1 fonts and read back from the binary.",
        note="Trusted: TLC, fontTools CPAL/COLR decompilation, RGBA ranks as order-preserving abstraction of tuples. "
             "Exhaustive only within the stated universe; larger palettes are not explored.",
        technique="TLA+/PlusCal model checked by TLC + spec-to-code replay of every terminal state",
        design_ref="DESIGN.md §4.5, §5 C15",
    ),
}

NOT_YET = "check not built yet in this round; will be claimed once its TLA+ module and conformance harness exist"


def main():
    checks = []
    for pid, c in CLAIMED.items():
        checks.append({
            "property_id": pid,
            "quick_cmd": f"./check {pid} --tier quick",
            "thorough_cmd": f"./check {pid} --tier thorough",
            "evidence_file": f"/verif/evidence/{pid}.json",
            "replay_cmd_template": f"./check {pid} --replay {{path}}",
            "engine": "tlc+harness",
            "level_claimed": {"category": "model_checking", "text": c["text"], "design_ref": c["design_ref"]},
            "level_note": c["note"],
            "technique": c["technique"],
        })
    na = [{"property_id": p, "reason": NA.get(p, NOT_YET)} for p in ALL if p not in CLAIMED]
    m = {
        "version": 1,
        "setup_cmd": "./check setup",
        "hooks": {
            "guard": "NANOEMOJI_VERIF",
            "enable": "no source hooks: harness-side wrappers inside harness processes; PYTHONPATH=<repo>/src selects the tree under test",
            "baseline_off_cmd": "cd /repo && /venv/bin/python -m pytest -ra -q -p no:cacheprovider --timeout=900 --continue-on-collection-errors",
            "source_commits": HOOK_COMMITS,
            "add_only": True,
        },
        "engines": [
            {"name": "tlc+harness", "path": "/verif/check", "serves_properties": sorted(CLAIMED),
             "kind_free_text": "TLA+ specifications in spec/ checked by TLC 1.8; Python conformance harness (spec->code replay, code->spec trace validation) in harness/"},
        ],
        "checks": checks,
        "not_applicable": na,
        "notes": "See DESIGN.md. known_findings.json lists genuine defects recorded rather than repaired.",
    }
    (VERIF / "MANIFEST.json").write_text(json.dumps(m, indent=1) + "\n")
    print(f"MANIFEST.json: {len(checks)} checks, {len(na)} not_applicable")


NA = {}
HOOK_COMMITS = []

if __name__ == "__main__":
    main()
