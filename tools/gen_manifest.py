#!/usr/bin/env python3
"""Regenerates /verif/MANIFEST.json from the table below (kept in one place so it stays valid)."""
import json
from pathlib import Path

VERIF = Path(__file__).resolve().parent.parent
ALL = ["C%02d" % i for i in range(1, 21)]

# pid -> dict(text, note, technique, design_ref)
CLAIMED = {
    "C15": dict(
        text="TLC exhaustively checks the PlusCal transcription of uniq_sort_cpal_colors against the declarative palette "
             "predicate for every set of <=6 colours over 3 RGBA ranks x indices {none,0..5} (82,160 inputs), plus termination "
             "under fairness; every exported terminal state is replayed into the real function (B1) and the PaletteUse model's "
             "scenarios are compiled to real COLRv0/COLRv1 fonts and read back from the binary.  currentColor may carry a palette index (var(--colorN, currentColor)) in the model's colour universe; in COLRv0 the palette byte must be the nearest of the 256 alpha steps.",
        note="Trusted: TLC, fontTools CPAL/COLR decompilation, RGBA ranks as order-preserving abstraction of tuples. "
             "Exhaustive only within the stated universe; larger palettes are not explored.",
        technique="TLA+/PlusCal model checked by TLC + spec-to-code replay of every terminal state",
        design_ref="DESIGN.md §4.5, §5 C15",
    ),
    "C16": dict(
        text="TLC exhaustively explores XformEncode.tla (one action per branch of paint.transformed plus the fontTools compile gate) on a "
             "boundary-value lattice of affines expressed in dual numbers (exact-== vs almost_equal distinguishable), checking Denotes, "
             "GuardsSufficient, NoSilentWrap and totality; GradXform.tla checks the uniform/residual split (T = R o U, U a similarity, "
             "circles stay circles, no silent overflow).  Every terminal state is one implementation test (class, in-memory denotation, COLR "
             "compile/decompile judged by an independent reading of the OpenType paints), plus thousands of random affines and gradients whose "
             "colours at corresponding points are compared by an independent evaluator; end to end, the overflow fallbacks as the compiler reaches them "
             "(thin bars, tiny copies, very wide elliptical gradients) are judged by the layer oracle on compiled fonts.",
        note="Trusted: TLC, fontTools COLR (de)compilation as the reference for field ranges, the independent gradient evaluator (written from "
             "the COLRv1 spec).  Continuous inputs are sampled; the lattice is exhaustive only over its stated values.",
        technique="TLA+ transcription of the encoder model-checked by TLC; one implementation test per model state (spec-to-code replay)",
        design_ref="DESIGN.md §4.6, §5 C16",
    ),
    "C09": dict(
        text="Build.tla models the build directory (mtime ranks, .ninja_log, command hashes, content terms), the driver phases and ninja's "
             "dirtiness rules, with faults (step fails / killed after truncated output / driver killed before or while writing build.ninja).  "
             "It is instantiated on the ninja graphs the real driver writes for every world of a small family (B3, extracted at check time, "
             "read sets measured with strace) and TLC enumerates all histories within the bounds for FreshOK/AllFresh/FailStop, all schedules of "
             "one invocation, and liveness under fairness.  Sampled model histories are replayed on the real CLI: exit status, executed-edge set "
             "(validates the ninja model) and sha256(font) against a clean build.  Families: clip/metrics toggle, colour-format toggle, thorough: bitmap options.  Replayed histories are chosen so that every operation hits a build directory that already holds a finished build, and content edits alternate between colour-only changes (part files and glyph map unchanged) and added shapes.",
        note="Trusted: TLC, ninja, strace; content-term abstraction (a step's output is a function of the files it reads).  The mtime limitation "
             "(content changes without a newer mtime) is reproduced every run and reported as a known finding, not a violation.",
        technique="TLA+ model of driver+ninja+faults on graphs extracted from the code, model-checked by TLC; model histories replayed on the real CLI",
        design_ref="DESIGN.md §4.1, §5 C09",
    ),
    "C17": dict(
        text="Defects.tla enumerates defect class x format family x argument position x valid neighbours through the pipeline's gates "
             "(AmbiguityStops); every scenario is run in-process through write_font._generate_color_font and a covering sample (thorough: all) "
             "through the real CLI, judged by exit status and absence of a freshly written font; Build.tla FailStop/NoFreshFontOnFailure are "
             "model-checked on the extracted graphs for every fault placement and schedule.",
        note="Each defect class is represented by one concrete instance; glyphmap generators other than the default are out of scope.",
        technique="TLA+ gate model + Build.tla fail-stop invariants checked by TLC; scenarios replayed on the real CLI and in-process",
        design_ref="DESIGN.md §4.4, §5 C17",
    ),

    "C01": dict(
        text="Compile.tla (reuse cache / Hit / Miss / overflow fallbacks, exact rational affine geometry, symmetric shapes so affine_between's "
             "choice is nondeterministic) is model-checked for SamePicture, FillSame, OrderKept, Representable, StoredOnce over all lists of <=3 layers "
             "cut into <=2 glyphs; sampled scenarios are concretised, compiled by the real pipeline (glyf/cff/cff2 COLRv1, 8 metric/transform/"
             "quantisation variants), reloaded and compared layer by layer by an independent layer oracle (COLR spec reading vs SVG spec reading, "
             "tolerances from ground truth); random continuous scenarios and the repository's sample SVGs go through the same oracle; recorded "
             "reuse-cache executions are validated against CompileTrace.tla.  PaintedLayers.tla (the SVG-tree to Paint-tree walk, statement by statement: NoAssert, TreeSame) is model-checked over every document of <=8 (thorough 9) nodes and each document replayed into the real function and through whole builds; the ClipList box is applied to the expected layers.",
        note="Trusted: TLC; fontTools; picosvg's path parsing and its normalize/affine_between (assumed as stated in Compile.tla); the layer oracle "
             "(agrees with the real compiler on 44 repository SVGs, detects seeded placement / opacity / gradient mutants).  No COLRv1 renderer "
             "exists in the sandbox: 'paints' means the COLR semantics as read by the oracle.",
        technique="TLA+ model of the reuse/migration protocol checked by TLC; spec-to-code replay with an independent layer oracle; code-to-spec trace validation (CompileTrace.tla)",
        design_ref="DESIGN.md §3.3, §4.2, §5 C01",
    ),
    "C02": dict(
        text="OTSVG.tla (grouping in input order, contiguous reordering, per-document element placement with <defs> migration, stand-in <use> for "
             "donors that sort after their users, tidy) is model-checked for SamePicture, NoCrossGlyphRef, HrefsClosed, DocRanges, PlacedOnce over all "
             "inputs of <=2 glyphs x <=3 layers x name orders; scenarios are built into real picosvg(z) fonts, documents projected to the model's "
             "vocabulary (structure matched exactly: 0 drift) and rendered by an independent OT-SVG oracle; random scenarios over "
             "picosvg(z)/untouchedsvg(z) with shuffled input order, and a grid of user-transform kinds x gradient kinds.  The glyph-id bookkeeping "
             "(Reshuffle, stored ids, GidIsPosition) is part of the model and compared with the font; a negative configuration must be violated.  TLC found "
             "the tidy defect (donor repainted); the grid found two OT-SVG gradient defects; all fixed in /repo.  DisjointSet.tla (the union-find "
             "behind the grouping, statement by statement) is model-checked, replayed call by call into the real class, and the calls recorded "
             "during the real builds are validated against it (DisjointSetTrace, B2); nested opacity groups in every closing position.  GradCache.tla "
             "(the per-document gradient-id cache: key = gradient + residual transform, reset per document; HrefsClosed, SameGradient, DefinedOnce, "
             "IdsUnique, two negative configurations) is model-checked and its scenarios built into real fonts and judged by the same oracle.",
        note="Trusted: TLC; lxml; the OT-SVG oracle (SVG 1.1 subset: g, path, use, defs, basic shapes, fill inheritance, opacity, gradients), "
             "itself compared with resvg on the documents of real builds at the start of every run.",
        technique="TLA+ model of the document assembly protocol checked by TLC; spec-to-code replay with structural projection and an independent OT-SVG renderer; code-to-spec trace validation of the grouping (DisjointSetTrace.tla)",
        design_ref="DESIGN.md §4.3, §5 C02",
    ),
    "C03": dict(
        text="Flatten.tla (Paint.breadth_first as a FIFO frontier over Composite -> ColrLayers -> leaves, reuse wrappers visited before their "
             "PaintGlyph) is model-checked for EachLeafOnce and ZOrderWhenFlat over every forest of <=4 leaves; each forest is concretised and built as "
             "COLRv0 and the emitted layer order compared with the model (0 drift); group-free solid sources are compared layer by layer incl. "
             "palette colour/alpha and base-glyph extents; random scenarios in glyf / glyf_colr_0 / cff_colr_0 / cff2_colr_0 for 'each outline exactly once'.  "
             "PathPen.tla (svg_path.draw_svg_path statement by statement and SVGPathPen as its inverse: PenProtocol, Denotes, ClosedIffZ, NothingDropped, "
             "RoundTrip; negative configuration without picosvg's normal form) is model-checked over every command sequence of <=6 and every behaviour "
             "replayed into the real functions.",
        note="Trusted: TLC; fontTools glyph sets; the layer oracle.  'Places' = sampled overlap >= 60% in a one-to-one matching.",
        technique="TLA+ model of the breadth-first flattening checked by TLC; spec-to-code replay with geometric layer matching",
        design_ref="DESIGN.md §4.2, §5 C03",
    ),
    "C05": dict(
        text="ClipBox.tla (union, otRound, outward quantisation over exact rationals on both sides of every rounding/quantisation boundary) is "
             "model-checked for Contains, Multiples, Tight, NoBoxIffNoLayers and every terminal state replayed into the real quantiser; real COLRv1 "
             "fonts (Compile.tla scenarios and random scenarios x steps {default,1,7,50} x metrics x user transforms, content outside the viewBox) are "
             "read back: ClipList against bounds recomputed independently from the compiled outlines through the paint graph and against the source shapes.  QuantizeProof.tla: TLAPS proof (re-checked by tlapm in every run) that the quantisation step is outward, lands on multiples and wastes less than one step for every integer edge and every step.",
        note="Trusted: TLC; fontTools; the oracle's outline flattening (under-estimates a curved edge by < 0.1 unit).",
        technique="TLA+ transcription of the clip-box computation checked by TLC, replayed state by state; independent recomputation on real fonts; TLAPS proof of the quantisation step for every edge and step",
        design_ref="DESIGN.md §4.2, §5 C05",
    ),
    "C06": dict(
        text="Compile.tla explored with reuse on and off (same denotation invariants in both) and OTSVG.tla for the <use> side; pairs of real builds "
             "differing only in reuse_tolerance (t vs -1) over Compile.tla sharing patterns, random scenarios, near-miss copies at 0.5/0.9/1.1/2x "
             "tolerance, small-donor/large-copy transforms beyond Fixed, black-donor in-glyph reuse, for COLRv1, COLRv0 and picosvg, compared layer for "
             "layer by the oracle; a CLI pair proves the documented way of disabling reuse builds.",
        note="The reuse-off build is the reference for the reuse-on build; C01/C02/C03 tie the reference to the source.",
        technique="TLA+ models checked by TLC in both reuse modes; differential replay of real build pairs judged by the layer oracle",
        design_ref="DESIGN.md §5 C06",
    ),
    "C08": dict(
        text="Build.tla with FreeSchedule on the ninja graphs the real driver writes (B3) checks that every interleaving of a clean invocation ends in "
             "the canonical content term and that every file a step really reads (strace) is ordered before it by declared inputs "
             "(DeclaredCoversRead); real builds of one source set per format under argument permutations, hash seeds, -j1, random topological "
             "edge-by-edge orders, a different cwd/build-dir layout and relative spellings from inside a source directory must have identical sha256; "
             "Sources.tla (resolved source order independent of cwd and argument order, with a negative configuration) is replayed into config.load.  "
             "Scratch.tla (ninja's response files with several steps in flight: ReadsOwn, Completes) is checked on the extracted graphs of a "
             "static font, a variable font and two configs, with a generated negative configuration, and bound to -j1 / -j16 builds.  Parts.tla "
             "(ReusableParts: the parts side files, outside the property) is model-checked and replayed; drift is a note, never a violation.",
        note="Trusted: TLC, ninja, strace; SOURCE_DATE_EPOCH fixed.  Schedules are exhaustive on the model, sampled on the real CLI.",
        technique="TLA+ models of ninja scheduling and of response files under parallel execution on graphs extracted from the code, checked by TLC (with a TLAPS proof for arbitrary graphs); differential real builds",
        design_ref="DESIGN.md §4.1, §5 C08",
    ),
    "C19": dict(
        text="Compile.tla's StoredOnce (one outline per class plus one per unrepresentable copy; none shared with reuse off) is model-checked; its "
             "sharing patterns and OTSVG.tla's are concretised with random shapes of the grammar under random isometries in viewBoxes >= 24 units and "
             "built as glyf_colr_0, glyf_colr_1 and picosvg; the fonts are projected (outline glyph per layer after flattening composites, <use> vs "
             "<path>).  Two mechanisms by which picosvg fails to recognise congruent copies are reproduced and reported as known findings, matched "
             "only when the harness re-derives them (different normalised keys / affine_between None).",
        note="Representability is computed from ground truth.  Copies are congruent up to the 4-decimal precision of the written path data.",
        technique="TLA+ invariant checked by TLC; sharing patterns replayed into real builds with structural projection",
        design_ref="DESIGN.md §5 C19",
    ),
    "C20": dict(
        text="Config.tla over FontConfig._fields (B3) x provenance {default,file,flag,both} with the worker rule's own flags parsed from the real "
             "build.ninja checks Precedence and RoundTrip and predicts which options cannot reach the worker; every single-field vector is replayed on "
             "the real CLI and the option's observable read from the written font; pairs of configurations built in one invocation are compared "
             "(sha256) with each configuration built alone.",
        note="Three genuine limitations are reproduced every run and reported as known findings (fea_file hidden by the rule's flag; bitmap "
             "intermediates keyed by source name; custom glyph names with sequences); two defects were repaired with fix: commits.",
        technique="TLA+ model of the driver->TOML->worker channel checked by TLC; vectors replayed on the real CLI with per-option observables",
        design_ref="DESIGN.md §4.9, §5 C20",
    ),
    "C04": dict(
        text="GlyphSet.tla (names from character codes, blank glyphs for sequence-only codepoints, glyph-order merge by name, ccmp ligatures, "
             "shaping) is model-checked for Reachable / Distinct / Skeleton over all sets of <=2 sequences of length <=3 on a 7-codepoint alphabet "
             "(letters, hex-alphabetic, ZWJ, VS16, astral); scenarios are replayed into the real naming / fea functions and real builds in all 13 "
             "colour formats; an independent shaper (cmap + GSUB read from the reloaded binary) decides reachability; blanks, .notdef, space and "
             "the advance rule are read from the binary; prefix-related sequences and aspect ratios 1:4..4:1 are sampled.  GlyphName.tla (names "
             "longer than 63 characters: hashed, prefix decided again on the digest; negative configuration) is model-checked, every class "
             "realised by a concrete sequence and replayed, and fonts are built from long sequences of every class.",
        note="Trusted: TLC; fontTools cmap/GSUB decompilation; the shaper (longest-match ligature application as in OpenType).  One naming collision "
             "(hex-like letters vs g_ prefix) is a recorded known finding.",
        technique="TLA+ models of glyph-set construction, shaping and long-name hashing checked by TLC (long names also by a TLAPS proof for any length); spec-to-code replay judged by an independent shaper on the binary",
        design_ref="DESIGN.md §5 C04",
    ),
    "C07": dict(
        text="The structural invariants are model-checked where they are decided (OTSVG.tla DocRanges/HrefsClosed/NoCrossGlyphRef/PlacedOnce, "
             "Bitmap.tla StrikesPartition, GlyphSet.tla Skeleton, MaxColor.tla order invariants); an independent validator (full decompile, re-save, "
             "COLR record order and references from raw bytes, SVG ranges/ids/hrefs/cross-glyph references, CBLC runs, glyph-set agreement, post "
             "format) is applied to fonts built from model scenarios and random scenarios in all 13 formats x .ttf/.otf x keep_glyph_names and to "
             "fonts written by maximum_color.",
        note="Trusted: TLC; fontTools' binary readers; the validator (detects seeded mutants of each rule).",
        technique="TLA+ invariants checked by TLC on the assembling models; spec-to-code replay with a byte-level validator",
        design_ref="DESIGN.md §5 C07",
    ),
    "C10": dict(
        text="Config.tla RoundTrip/Precedence over FontConfig._fields (B3) x provenance; every field vector (boundary floats, optional/strings, multi-"
             "axis/master) is written by config.write and reloaded; glyphmap CSV rows over hostile file names, response-file expansion, codepoints<->"
             "file names, glyph-name injectivity/legality (GlyphSet.tla Distinct) and parts JSON round trips are replayed against the real functions "
             "and through a real build directory (<output>.toml / .glyphmap).  The driver is re-run on a used build directory with other flags and the worker's Font.toml compared field by field; hostile characters are also tried as the first character of a CSV field, and CsvRow.tla (writer / reader over character sequences, RoundTrip, the pre-fix writer as negative configuration) is replayed row by row into csv_line / load_from.",
        note="Trusted: TLC; feaLib's lexer as the judge of legal glyph names.  A 64/65-character naming defect was repaired with a fix: commit; the g_-prefix "
             "collision is a recorded known finding.",
        technique="TLA+ models of the driver->file->worker channel and of the CSV writer/reader checked by TLC; vectors and rows replayed through the real writer/loader pairs",
        design_ref="DESIGN.md §5 C10",
    ),
    "C11": dict(
        text="Reorder.tla (coverage-indexed parallel arrays under a glyph-order permutation: sort coverage, permute every paired array, class-def and "
             "name-keyed structures untouched) is model-checked for MeaningKept and CoverageSorted over all permutations of <=5 glyphs x pairing "
             "shapes; template fonts containing every GSUB/GPOS lookup type and format (incl. contextual/chaining 1-3, reverse chaining, GDEF "
             "attach/caret/mark-sets) are permuted by the real reorder_glyphs (model permutations + random), saved, reloaded; a name-keyed meaning "
             "extraction and the raw coverage arrays are compared.  Reorder.tla covers sequences of calls on one font object (negative configurations: a rule that forgets its parallel array, a sort permutation remembered from the first call); the template has lookups with equal content.",
        note="Trusted: TLC; fontTools otTables decompilation; the template font builder (feaLib + hand-built contextual formats).",
        technique="TLA+ model of coverage reordering checked by TLC; model permutations replayed on real fonts with name-keyed meaning extraction",
        design_ref="DESIGN.md §5 C11",
    ),
    "C12": dict(
        text="MaxColor.tla (freeze names, per-gid SVG extraction, glyphmap by gid, donor build, COLR/SVG/CBDT donation with glyph reordering, name "
             "stripping) is model-checked for CmapKept, AdvanceKept, OriginalKept, SamePictureAllTables, NamesAsRequested; the real maximum_color is "
             "run on nanoemoji-built COLRv0/COLRv1/picosvg/untouchedsvg fonts and third-party-style COLR fonts (arbitrary paint graphs, no space "
             "glyph, kerning/mark lookups, several palettes) x {--bitmaps, --colr_version, --keep_glyph_names}; input and output are compared table "
             "by table (name-keyed, incl. the meaning of GSUB/GPOS/GDEF with mark anchors on reordered colour glyphs) and each colour table's layers per "
             "glyph by the layer oracle; Build.tla (FreeSchedule, DeclaredCoversRead) is instantiated on the ninja graph maximum_color itself writes.  Multi-palette inputs are compared once more with palette 1 selected on both sides.",
        note="Trusted: TLC; fontTools; the layer oracle and OT-SVG oracle.  Bitmap strikes are checked for presence/placement, not pixels.",
        technique="TLA+ model of the maximum_color pipeline checked by TLC; differential replay of real runs with table-wise and picture-wise comparison",
        design_ref="DESIGN.md §5 C12",
    ),
    "C13": dict(
        text="ColrToSvg.tla (the recursive paint walk as a stack machine, transforms as a free monoid, reset-on-apply) is model-checked for "
             "SamePlacement over every well-formed paint tree of depth <=3 (thorough: 4) on two transform tokens; every tree is concretised by a "
             "third-party font builder with concrete PaintTransform/Translate/Scale*/Rotate*/Skew* paints, gradients (rotated p2, r0>0, c0!=c1), "
             "composite glyphs, colour-glyph references, opacity groups; the real colr_to_svg output is rendered by the OT-SVG oracle and compared "
             "with the COLR oracle's reading in the requested viewBox; currentColor / var(--colorN) and unsupported-format errors are checked.  SolidFill.tla (which attributes a solid paint leaves, under any selected palette: FollowsPalette, with a negative configuration) is model-checked and replayed into svg._apply_solid_paint; multi-palette fonts are compared with palette 1 selected on both sides.",
        note="Trusted: TLC; the two oracles (written from the specs, mutually independent of nanoemoji).",
        technique="TLA+ stack-machine model of the converter checked by TLC; every model tree replayed on the real converter and judged by independent oracles",
        design_ref="DESIGN.md §5 C13",
    ),
    "C14": dict(
        text="Bitmap.tla (exact-rational transcription of _ppem, _width_in_pixels, BitmapMetrics.create incl. int8 nudge, the CBDT size guard and the "
             "strike-splitting loop; OpenType placement semantics as invariants) is model-checked on a grid of upem x vertical metrics x width mode x "
             "bitmap height x aspect x glyph-id sets; every state is replayed into the real functions and real CBDT/sbix tables that are compiled, "
             "reloaded and read back; image bytes must be identical; a CLI build checks the PNG pipeline end to end.",
        note="Trusted: TLC; fontTools CBDT/CBLC/sbix readers; PIL for PNG sizes.",
        technique="TLA+ transcription of the bitmap metric computation checked by TLC; one implementation test per model state",
        design_ref="DESIGN.md §5 C14",
    ),
    "C18": dict(
        text="VarFont.tla (LoadConfig / BuildMaster per master in any order / Assemble: axis min-max from master positions, default from the "
             "axis table, locations by axis name / Merge: structure agreement, tents, deltas solved master by master; the renderer's reading as "
             "invariants, exact rationals) is model-checked over 8 layouts (1-2 axes, 2-3 masters, default first/last/middle/absent, intermediate "
             "masters) x 7 sources per master with reuse on and off for MasterExact, DefaultExact, AxisRange, NoDefaultNoFont, IncompatibleRefused, "
             "ClipContainsOnAxis / EscapeOnlyIfBilinear, termination.  Exported scenarios are rebuilt by the real CLI (variable font + each "
             "master alone), evaluated by an independent variable-font evaluator at every master location and at quarter steps along every axis, "
             "and compared with the static builds, the model's numbers (49/49 agree within 1 unit) and the clip box; random 2-3 master sets "
             "(curves, gradients, opacity, 1-2 axes, metrics) go through the same comparison.  Layouts include axis defaults of zero; master sets whose glyphs' clip boxes coincide in one master and differ in another.",
        note="Trusted: TLC; fontTools decompilation and iup_delta; the evaluator (OpenType variation semantics; agrees with the model on every "
             "built scenario).  TLC found that a variable scale over a variable outline leaves the interpolated clip box between masters: "
             "reproduced on the real CLI every run and reported as a known finding.  Off-axis masters (corner masters) are outside the model.",
        technique="TLA+ model of the multi-master pipeline and of OpenType interpolation checked by TLC; spec-to-code replay on the real CLI with an independent variable-font evaluator",
        design_ref="DESIGN.md §5 C18",
    ),
}

NOT_YET = "check not built yet in this round; will be claimed once its TLA+ module and conformance harness exist"


def main():
    checks = []
    for pid, c in CLAIMED.items():
        checks.append({
            "property_id": pid,
            "quick_cmd": f"./check {pid} --tier quick",
            "thorough_cmd": f"./check {pid} --tier thorough",
            "evidence_file": f"/verif/evidence/{pid}.json",
            "replay_cmd_template": f"./check {pid} --replay {{path}}",
            "engine": "tlc+harness",
            "level_claimed": {"category": "model_checking", "text": c["text"], "design_ref": c["design_ref"]},
            "level_note": c["note"],
            "technique": c["technique"],
        })
    na = [{"property_id": p, "reason": NA.get(p, NOT_YET)} for p in ALL if p not in CLAIMED]
    m = {
        "version": 1,
        "setup_cmd": "./check setup",
        "hooks": {
            "guard": "NANOEMOJI_VERIF",
            "enable": "no source hooks: harness-side wrappers inside harness processes; PYTHONPATH=<repo>/src selects the tree under test",
            "baseline_off_cmd": "cd /repo && /venv/bin/python -m pytest -ra -q -p no:cacheprovider --timeout=900 --continue-on-collection-errors",
            "source_commits": HOOK_COMMITS,
            "add_only": True,
        },
        "engines": [
            {"name": "tlc+harness", "path": "/verif/check", "serves_properties": sorted(CLAIMED),
             "kind_free_text": "TLA+ specifications in spec/ checked by TLC 1.8; Python conformance harness (spec->code replay, code->spec trace validation) in harness/"},
        ],
        "checks": checks,
        "not_applicable": na,
        "notes": "See DESIGN.md. known_findings.json lists genuine defects recorded rather than repaired.",
    }
    (VERIF / "MANIFEST.json").write_text(json.dumps(m, indent=1) + "\n")
    print(f"MANIFEST.json: {len(checks)} checks, {len(na)} not_applicable")


NA = {}
HOOK_COMMITS = []

if __name__ == "__main__":
    main()
