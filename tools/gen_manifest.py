#!/usr/bin/env python3
"""Regenerates /verif/MANIFEST.json from the table below (kept in one place so it stays valid)."""
import json
from pathlib import Path

VERIF = Path(__file__).resolve().parent.parent
ALL = ["C%02d" % i for i in range(1, 21)]

# pid -> dict(text, note, technique, design_ref)
CLAIMED = {
    "C15": dict(
        text="TLC exhaustively checks the PlusCal transcription of uniq_sort_cpal_colors against the declarative palette "
             "predicate for every set of <=6 colours over 3 RGBA ranks x indices {none,0..5} (82,160 inputs), plus termination "
             "under fairness; every exported terminal state is replayed into the real function (B1) and the PaletteUse model's "
             "scenarios are compiled to real COLRv0/COLRv1 fonts and read back from the binary.",
        note="Trusted: TLC, fontTools CPAL/COLR decompilation, RGBA ranks as order-preserving abstraction of tuples. "
             "Exhaustive only within the stated universe; larger palettes are not explored.",
        technique="TLA+/PlusCal model checked by TLC + spec-to-code replay of every terminal state",
        design_ref="DESIGN.md §4.5, §5 C15",
    ),
    "C16": dict(
        text="TLC exhaustively explores XformEncode.tla (one action per branch of paint.transformed plus the fontTools compile gate) on a "
             "boundary-value lattice of affines expressed in dual numbers (exact-== vs almost_equal distinguishable), checking Denotes, "
             "GuardsSufficient, NoSilentWrap and totality; GradXform.tla checks the uniform/residual split (T = R o U, U a similarity, "
             "circles stay circles, no silent overflow).  Every terminal state is one implementation test (class, in-memory denotation, COLR "
             "compile/decompile judged by an independent reading of the OpenType paints), plus thousands of random affines and gradients whose "
             "colours at corresponding points are compared by an independent evaluator.",
        note="Trusted: TLC, fontTools COLR (de)compilation as the reference for field ranges, the independent gradient evaluator (written from "
             "the COLRv1 spec).  Continuous inputs are sampled; the lattice is exhaustive only over its stated values.",
        technique="TLA+ transcription of the encoder model-checked by TLC; one implementation test per model state (spec-to-code replay)",
        design_ref="DESIGN.md §4.6, §5 C16",
    ),
    "C09": dict(
        text="Build.tla models the build directory (mtime ranks, .ninja_log, command hashes, content terms), the driver phases and ninja's "
             "dirtiness rules, with faults (step fails / killed after truncated output / driver killed before or while writing build.ninja).  "
             "It is instantiated on the ninja graphs the real driver writes for every world of a small family (B3, extracted at check time, "
             "read sets measured with strace) and TLC enumerates all histories within the bounds for FreshOK/AllFresh/FailStop, all schedules of "
             "one invocation, and liveness under fairness.  Sampled model histories are replayed on the real CLI: exit status, executed-edge set "
             "(validates the ninja model) and sha256(font) against a clean build.",
        note="Trusted: TLC, ninja, strace; content-term abstraction (a step's output is a function of the files it reads).  The mtime limitation "
             "(content changes without a newer mtime) is reproduced every run and reported as a known finding, not a violation.",
        technique="TLA+ model of driver+ninja+faults on graphs extracted from the code, model-checked by TLC; model histories replayed on the real CLI",
        design_ref="DESIGN.md §4.1, §5 C09",
    ),
    "C17": dict(
        text="Defects.tla enumerates defect class x format family x argument position x valid neighbours through the pipeline's gates "
             "(AmbiguityStops); every scenario is run in-process through write_font._generate_color_font and a covering sample (thorough: all) "
             "through the real CLI, judged by exit status and absence of a freshly written font; Build.tla FailStop/NoFreshFontOnFailure are "
             "model-checked on the extracted graphs for every fault placement and schedule.",
        note="Each defect class is represented by one concrete instance; glyphmap generators other than the default are out of scope.",
        technique="TLA+ gate model + Build.tla fail-stop invariants checked by TLC; scenarios replayed on the real CLI and in-process",
        design_ref="DESIGN.md §4.4, §5 C17",
    ),
}

NOT_YET = "check not built yet in this round; will be claimed once its TLA+ module and conformance harness exist"


def main():
    checks = []
    for pid, c in CLAIMED.items():
        checks.append({
            "property_id": pid,
            "quick_cmd": f"./check {pid} --tier quick",
            "thorough_cmd": f"./check {pid} --tier thorough",
            "evidence_file": f"/verif/evidence/{pid}.json",
            "replay_cmd_template": f"./check {pid} --replay {{path}}",
            "engine": "tlc+harness",
            "level_claimed": {"category": "model_checking", "text": c["text"], "design_ref": c["design_ref"]},
            "level_note": c["note"],
            "technique": c["technique"],
        })
    na = [{"property_id": p, "reason": NA.get(p, NOT_YET)} for p in ALL if p not in CLAIMED]
    m = {
        "version": 1,
        "setup_cmd": "./check setup",
        "hooks": {
            "guard": "NANOEMOJI_VERIF",
            "enable": "no source hooks: harness-side wrappers inside harness processes; PYTHONPATH=<repo>/src selects the tree under test",
            "baseline_off_cmd": "cd /repo && /venv/bin/python -m pytest -ra -q -p no:cacheprovider --timeout=900 --continue-on-collection-errors",
            "source_commits": HOOK_COMMITS,
            "add_only": True,
        },
        "engines": [
            {"name": "tlc+harness", "path": "/verif/check", "serves_properties": sorted(CLAIMED),
             "kind_free_text": "TLA+ specifications in spec/ checked by TLC 1.8; Python conformance harness (spec->code replay, code->spec trace validation) in harness/"},
        ],
        "checks": checks,
        "not_applicable": na,
        "notes": "See DESIGN.md. known_findings.json lists genuine defects recorded rather than repaired.",
    }
    (VERIF / "MANIFEST.json").write_text(json.dumps(m, indent=1) + "\n")
    print(f"MANIFEST.json: {len(checks)} checks, {len(na)} not_applicable")


NA = {}
HOOK_COMMITS = []

if __name__ == "__main__":
    main()
