#!/bin/sh
# usage: tools/seedrun.sh <Cnn> <patch.diff> [tier]   - applies the patch to a scratch copy of /repo and runs the check on it
PID=$1; PATCH=$2; TIER=${3:-quick}
D=$(mktemp -d /tmp/seedrun-XXXXXX)
mkdir -p $D/tree && cp -r /repo/src /repo/tests $D/tree/ 2>/dev/null
(cd $D/tree && patch -p1 -s < $PATCH) || { echo "patch failed"; rm -rf $D; exit 3; }
VERIF_REPO=$D/tree VERIF_EVIDENCE_DIR=$D/ev VERIF_REPLAY_DIR=$D/rp ./check $PID --tier $TIER 2>&1 | cut -c1-300 | grep -v "^  \|^KNOWN" | tail -4
echo "exit=$?"
rm -rf $D
